package props

// C18 — generators (all randomness through rapid draws).

import (
	"fmt"
	"sort"
	"strings"

	"github.com/Masterminds/semver/v3"
	"pgregory.net/rapid"
)

var (
	c18Nums     = []int{0, 1, 2, 3, 10}
	c18Pres     = []string{"alpha", "alpha.1", "alpha.2", "beta", "beta.2", "beta.11", "rc.1", "0", "1", "x", "alpha-1", "0.3.7", "a.b", "ALPHA"}
	c18Builds   = []string{"b1", "b2", "001", "exp.sha.5114f85", "x"}
	c18Loose    = []string{"1", "2", "1.2", "v1", "v1.2", "01.2.3", "1.02.3", "1.2-beta", "1-rc.1", "1.2+b1", "10", "0.1"}
	c18Invalid  = []string{"", "abc", "1.2.3.4", "1..2", "-1.0.0", "1.2.3-", "1.2.3+", "V1.2.3", " 1.2.3", "1.2.3 ", "1.2.3-01", "1.2.3-α", "latest", "1,2,3", "1.2.3-a..b", ">=1.0.0", "1.x", "*", "1.2.3+b1+b2", "1.2.3-rc_1", "v", "1.2.3\n"}
	c18Ops      = []string{"", "=", "!=", ">", "<", ">=", "<=", "~", "^", "=>", "=<", "~>"}
	c18BadQuery = []string{"nope", ">>1.0.0", "1.2.3.4", ">= ", "||", "1.0.0 ||", "~~1", "^", "1.2.3-", "<1.0.0 >", "latest", " ", "1.0.0 - ", "=="}
)

func c18GenCore(t *rapid.T, label string) string {
	return fmt.Sprintf("%d.%d.%d", rapid.SampledFrom(c18Nums).Draw(t, label+"Maj"), rapid.SampledFrom(c18Nums).Draw(t, label+"Min"), rapid.SampledFrom(c18Nums).Draw(t, label+"Pat"))
}

// c18GenStrict draws MAJOR.MINOR.PATCH[-pre][+build].
func c18GenStrict(t *rapid.T, label string) string {
	s := c18GenCore(t, label)
	switch rapid.IntRange(0, 9).Draw(t, label+"Shape") {
	case 0, 1:
		s += "-" + rapid.SampledFrom(c18Pres).Draw(t, label+"Pre")
	case 2:
		s += "+" + rapid.SampledFrom(c18Builds).Draw(t, label+"Build")
	case 3:
		s += "-" + rapid.SampledFrom(c18Pres).Draw(t, label+"Pre") + "+" + rapid.SampledFrom(c18Builds).Draw(t, label+"Build")
	}
	return s
}

// c18Vary derives a neighbour of an existing version string: same core with other pre-release / build metadata,
// the identical string, a toggled leading v, or a bumped patch.
func c18Vary(t *rapid.T, label, s string) string {
	v, err := semver.NewVersion(s)
	if err != nil {
		return s
	}
	core := fmt.Sprintf("%d.%d.%d", v.Major(), v.Minor(), v.Patch())
	switch rapid.IntRange(0, 6).Draw(t, label+"Vary") {
	case 0:
		return s // duplicate
	case 1:
		return core + "+" + rapid.SampledFrom(c18Builds).Draw(t, label+"Build")
	case 2:
		return core + "-" + rapid.SampledFrom(c18Pres).Draw(t, label+"Pre")
	case 3:
		if v.Prerelease() != "" {
			return core + "-" + v.Prerelease() + "+" + rapid.SampledFrom(c18Builds).Draw(t, label+"Build")
		}
		return core
	case 4:
		if strings.HasPrefix(s, "v") {
			return strings.TrimPrefix(s, "v")
		}
		return "v" + s
	case 5:
		return fmt.Sprintf("%d.%d.%d", v.Major(), v.Minor(), v.Patch()+1)
	}
	return core
}

// c18GenVersion draws a version string for an index entry; prev are the strings already used in the same list.
func c18GenVersion(t *rapid.T, label string, prev []string) string {
	k := rapid.IntRange(0, 19).Draw(t, label+"Class")
	switch {
	case k < 5 && len(prev) > 0:
		return c18Vary(t, label, rapid.SampledFrom(prev).Draw(t, label+"Prev"))
	case k == 5 || k == 6:
		return rapid.SampledFrom(c18Invalid).Draw(t, label+"Invalid")
	case k == 7:
		return rapid.SampledFrom(c18Loose).Draw(t, label+"Loose")
	case k == 8:
		return "v" + c18GenStrict(t, label)
	}
	return c18GenStrict(t, label)
}

func c18Str(s string) *string { return &s }

// c18GenEntry draws one list item. nullPct is the percentage of null items.
func c18GenEntry(t *rapid.T, label, key string, prev []string, nullPct int) c18Entry {
	r := rapid.IntRange(0, 99).Draw(t, label+"Kind")
	if r < nullPct {
		return c18Entry{Kind: "null"}
	}
	e := c18Entry{Kind: "entry", Name: c18Str(key), URLs: "relative"}
	switch u := rapid.IntRange(0, 19).Draw(t, label+"URLs"); {
	case u == 0:
		e.URLs = "omitted"
	case u == 1:
		e.URLs = "null"
	case u == 2:
		e.URLs = "empty"
	case u <= 5:
		e.URLs = "absolute"
	}
	e.APIVersion = rapid.SampledFrom([]string{"", "", "v1", "v2"}).Draw(t, label+"API")
	switch m := rapid.IntRange(0, 39).Draw(t, label+"Malform"); m {
	case 0:
		return c18Entry{Kind: "empty"}
	case 1: // no metadata at all
		e.Name, e.APIVersion = nil, ""
		return e
	case 2:
		e.Name = nil
	case 3:
		e.Name = c18Str("")
	case 4:
		e.Name = c18Str("sub/" + key)
	case 5:
		e.Version = nil
		return e
	case 6:
		e.Type = "plugin"
	case 7:
		e.Type = rapid.SampledFrom([]string{"application", "library"}).Draw(t, label+"Type")
	case 8:
		e.Name = c18Str("other") // a name that differs from the map key is still a valid entry
	}
	e.Version = c18Str(c18GenVersion(t, label, prev))
	return e
}

var c18Keys = []string{"foo", "bar", "baz"}

// c18GenIndex draws an index with 1..maxCharts charts of 0..maxEntries items each.
func c18GenIndex(t *rapid.T, maxCharts, maxEntries, nullPct int) *c18Index {
	ix := &c18Index{Format: rapid.SampledFrom([]string{"yaml", "json"}).Draw(t, "format")}
	nc := rapid.IntRange(1, maxCharts).Draw(t, "ncharts")
	for ci := 0; ci < nc; ci++ {
		ch := c18Chart{Key: c18Keys[ci]}
		if rapid.IntRange(0, 59).Draw(t, "listNull") == 0 {
			ch.ListNull = true
			ix.Charts = append(ix.Charts, ch)
			continue
		}
		// the null percentage is per case: most cases have no null item at all, a few have several
		np := 0
		if nullPct > 0 && rapid.IntRange(0, 99).Draw(t, "nullCase") < nullPct {
			np = 25
		}
		n := rapid.IntRange(0, maxEntries).Draw(t, "nentries")
		var prev []string
		ch.Entries = []c18Entry{}
		for ei := 0; ei < n; ei++ {
			e := c18GenEntry(t, fmt.Sprintf("c%de%d", ci, ei), ch.Key, prev, np)
			if e.Version != nil {
				prev = append(prev, *e.Version)
			}
			ch.Entries = append(ch.Entries, e)
		}
		ix.Charts = append(ix.Charts, ch)
	}
	return ix
}

// c18GenCVer draws the version part of a comparator: full, partial, wildcard, or with a pre-release tag; near
// holds version strings of the data so that comparator bounds fall on and between real versions.
func c18GenCVer(t *rapid.T, label string, near []string) string {
	base := ""
	if len(near) > 0 && rapid.IntRange(0, 2).Draw(t, label+"Near") > 0 {
		if v, err := semver.NewVersion(rapid.SampledFrom(near).Draw(t, label+"NearV")); err == nil {
			base = fmt.Sprintf("%d.%d.%d", v.Major(), v.Minor(), v.Patch())
			if v.Prerelease() != "" && rapid.Bool().Draw(t, label+"KeepPre") {
				base += "-" + v.Prerelease()
			}
		}
	}
	if base == "" {
		base = c18GenCore(t, label)
	}
	parts := strings.SplitN(base, "-", 2)
	nums := strings.Split(parts[0], ".")
	switch rapid.IntRange(0, 11).Draw(t, label+"CShape") {
	case 0:
		return nums[0]
	case 1:
		return nums[0] + "." + nums[1]
	case 2:
		return nums[0] + ".x"
	case 3:
		return nums[0] + "." + nums[1] + "." + rapid.SampledFrom([]string{"x", "X", "*"}).Draw(t, label+"Wild")
	case 4:
		return "*"
	case 5:
		return parts[0] + "-0"
	case 6:
		return parts[0] + "-" + rapid.SampledFrom(c18Pres).Draw(t, label+"CPre")
	case 7:
		return "v" + base
	case 8:
		return parts[0] + "+" + rapid.SampledFrom(c18Builds).Draw(t, label+"CBuild")
	}
	return base
}

func c18GenComparator(t *rapid.T, label string, near []string) string {
	op := rapid.SampledFrom(c18Ops).Draw(t, label+"Op")
	sp := rapid.SampledFrom([]string{"", "", " "}).Draw(t, label+"Sp")
	return op + sp + c18GenCVer(t, label, near)
}

// c18GenConstraint draws a constraint expression: AND groups joined by "||", or a hyphen range.
func c18GenConstraint(t *rapid.T, label string, near []string) string {
	if rapid.IntRange(0, 11).Draw(t, label+"Hyphen") == 0 {
		return c18GenCVer(t, label+"Lo", near) + " - " + c18GenCVer(t, label+"Hi", near)
	}
	nor := rapid.SampledFrom([]int{1, 1, 1, 2}).Draw(t, label+"NOr")
	var ors []string
	for i := 0; i < nor; i++ {
		nand := rapid.SampledFrom([]int{1, 1, 2}).Draw(t, label+"NAnd")
		var ands []string
		for j := 0; j < nand; j++ {
			ands = append(ands, c18GenComparator(t, fmt.Sprintf("%so%da%d", label, i, j), near))
		}
		ors = append(ors, strings.Join(ands, rapid.SampledFrom([]string{" ", ", ", ","}).Draw(t, label+"AndSep")))
	}
	return strings.Join(ors, rapid.SampledFrom([]string{" || ", "||"}).Draw(t, label+"OrSep"))
}

// c18GenQueryString draws the version argument of a query. all = every version string written in the data
// (valid or not), so that identical-string queries and queries for dropped entries are frequent.
func c18GenQueryString(t *rapid.T, label string, all []string) string {
	k := rapid.IntRange(0, 19).Draw(t, label+"QClass")
	switch {
	case k < 3:
		return ""
	case k < 7 && len(all) > 0:
		return rapid.SampledFrom(all).Draw(t, label+"QExact")
	case k < 9 && len(all) > 0:
		return c18Vary(t, label+"QNear", rapid.SampledFrom(all).Draw(t, label+"QNearOf"))
	case k == 9:
		return rapid.SampledFrom(c18BadQuery).Draw(t, label+"QBad")
	}
	return c18GenConstraint(t, label, all)
}

func c18AllVersionStrings(ix *c18Index, key string) []string {
	var out []string
	for _, ch := range ix.Charts {
		if key != "" && ch.Key != key {
			continue
		}
		for _, e := range ch.Entries {
			if e.Version != nil {
				out = append(out, *e.Version)
			}
		}
	}
	return out
}

// c18GenTags draws a tag list the way registry.Client.Tags hands it over: strict semantic versions, newest first
// (order among equal precedence drawn), optionally with a few non-version tags at drawn positions.
func c18GenTags(t *rapid.T) []string {
	n := rapid.IntRange(0, 8).Draw(t, "ntags")
	var tags []string
	for i := 0; i < n; i++ {
		label := fmt.Sprintf("t%d", i)
		if len(tags) > 0 && rapid.IntRange(0, 3).Draw(t, label+"FromPrev") == 0 {
			s := c18Vary(t, label, rapid.SampledFrom(tags).Draw(t, label+"Prev"))
			if _, err := semver.StrictNewVersion(s); err == nil {
				tags = append(tags, s)
				continue
			}
		}
		tags = append(tags, c18GenStrict(t, label))
	}
	// drawn permutation, then a stable sort by precedence: ties keep the drawn order
	perm := rapid.Permutation(tags).Draw(t, "tagOrder")
	sort.SliceStable(perm, func(i, j int) bool {
		a, _ := semver.NewVersion(perm[i])
		b, _ := semver.NewVersion(perm[j])
		return a.Compare(b) > 0
	})
	if rapid.IntRange(0, 9).Draw(t, "junkTags") == 0 {
		nj := rapid.IntRange(1, 2).Draw(t, "njunk")
		for i := 0; i < nj; i++ {
			junk := rapid.SampledFrom([]string{"latest", "stable", "nightly", "sha256-abc.sig"}).Draw(t, "junk")
			pos := rapid.IntRange(0, len(perm)).Draw(t, "junkPos")
			perm = append(perm[:pos], append([]string{junk}, perm[pos:]...)...)
		}
	}
	return perm
}
