package props

import (
	"archive/tar"
	"bytes"
	"compress/gzip"
	"fmt"
	"net/http"
	"net/http/httptest"
	"os"
	"path/filepath"
	"testing"

	"helm.sh/helm/v4/pkg/action"
	"helm.sh/helm/v4/pkg/cli"
)

func TestProbePull(t *testing.T) {
	var buf bytes.Buffer
	gz := gzip.NewWriter(&buf)
	tw := tar.NewWriter(gz)
	body := "apiVersion: v2\nname: mychart\nversion: 1.0.0\n"
	tw.WriteHeader(&tar.Header{Name: "mychart/Chart.yaml", Mode: 0644, Size: int64(len(body))})
	tw.Write([]byte(body))
	tw.Close()
	gz.Close()
	srv := httptest.NewServer(http.HandlerFunc(func(w http.ResponseWriter, r *http.Request) { w.Write(buf.Bytes()) }))
	defer srv.Close()
	for _, up := range []string{"/charts/mychart-1.0.0.tgz", "/", "/..", "/a/%2e%2e", "", "/x/..%2f..%2fy.tgz", "/a%5c..%5cb.tgz"} {
		for _, untar := range []bool{true, false} {
			root := t.TempDir()
			dest := filepath.Join(root, "mid", "dest")
			os.MkdirAll(dest, 0755)
			os.MkdirAll(filepath.Join(root, "tmp"), 0755)
			os.MkdirAll(filepath.Join(root, "home"), 0755)
			os.Setenv("TMPDIR", filepath.Join(root, "tmp"))
			st := cli.New()
			st.RepositoryConfig = filepath.Join(root, "home", "repositories.yaml")
			st.RepositoryCache = filepath.Join(root, "home", "cache")
			st.PluginsDirectory = filepath.Join(root, "home", "plugins")
			p := action.NewPull(action.WithConfig(&action.Configuration{}))
			p.Settings = st
			p.DestDir = dest
			p.Untar = untar
			p.UntarDir = "."
			out, err := p.Run(srv.URL + up)
			os.Unsetenv("TMPDIR")
			fmt.Printf("PROBE url=%q untar=%v out=%q err=%v\n", up, untar, out, err)
			filepath.Walk(root, func(p string, info os.FileInfo, err error) error {
				rel, _ := filepath.Rel(root, p)
				fmt.Printf("    %s %v\n", rel, info.Mode())
				return nil
			})
		}
	}
}
