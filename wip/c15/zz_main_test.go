package props

import (
	"os"
	"testing"

	"verif/internal/evid"
)

func TestMain(m *testing.M) { rc := m.Run(); evid.Flush(); os.Exit(rc) }
