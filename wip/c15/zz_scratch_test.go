package props

import (
	"fmt"
	"os"
	"testing"

	"helm.sh/helm/v4/pkg/chart/v2/loader"
	chartutil "helm.sh/helm/v4/pkg/chart/v2/util"
)

func TestC15Scratch(t *testing.T) {
	for _, s := range []string{"\"\\u0085nel\"", "\"a\\u0085b\"", "\"nel\\u0085\"", "\"\\u2028ls\"", "\"a\\u2029b\"", "\"\\u00a0x\"", "\"\\uFEFFbom\"", "\" lead\"", "\"a\\r\\nb\"", "\"\\r\"", "\"a\\tb\"", "\"x\\n\"", "\"\\n\\nx\"", "\"a \\n b\"", "\"a\\u0085\\u0085b\"", "\"\\u0085\""} {
		c, err := loader.LoadFiles([]*loader.BufferedFile{{Name: "Chart.yaml", Data: []byte("apiVersion: v2\nname: c\nversion: 1.0.0\nannotations:\n  k: " + s + "\n")}})
		if err != nil {
			fmt.Println(s, "LoadFiles:", err)
			continue
		}
		d, _ := os.MkdirTemp("", "x")
		p, err := chartutil.Save(c, d)
		if err != nil {
			fmt.Println(s, "Save:", err)
			continue
		}
		c1, err := loader.Load(p)
		if err != nil {
			fmt.Println(s, "Load:", err)
			continue
		}
		fs, _ := c15ReadTgz(p)
		fmt.Printf("%-20s before=%q after=%q same=%v   Chart.yaml=%q\n", s, c.Metadata.Annotations["k"], c1.Metadata.Annotations["k"], c.Metadata.Annotations["k"] == c1.Metadata.Annotations["k"], fs[0].Data)
		os.RemoveAll(d)
	}
}
