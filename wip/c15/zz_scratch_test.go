package props

import (
	"fmt"
	"os"
	"testing"

	"helm.sh/helm/v4/pkg/chart/v2/loader"
	chartutil "helm.sh/helm/v4/pkg/chart/v2/util"
)

func TestC15Scratch(t *testing.T) {
	for _, s := range []string{`"\u007F"`, `"\u0080"`, `"\u009F"`, `"\uFFFE"`, `"\u0085"`, `"\u001b"`} {
		c, err := loader.LoadFiles([]*loader.BufferedFile{{Name: "Chart.yaml", Data: []byte("apiVersion: v2\nname: c\nversion: 1.0.0\nannotations:\n  k: " + s + "\n")}})
		if err != nil {
			fmt.Println(s, "LoadFiles:", err)
			continue
		}
		d, _ := os.MkdirTemp("", "x")
		_, err = chartutil.Save(c, d)
		fmt.Printf("%s loaded annotation=%q Save err=%v SaveDir err=%v\n", s, c.Metadata.Annotations["k"], err, chartutil.SaveDir(c, d))
		os.RemoveAll(d)
	}
}
