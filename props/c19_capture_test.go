package props

// C19 capture side: local listeners that stand in for every host a Helm client may talk to, and record, per
// request, where the client really connected to (the address it dialled, or the target it asked the proxy for),
// on which scheme, and which Authorization header it sent.
//
//   - "direct" capture (getter / downloader / manager paths): an http.Transport whose DialContext leads every
//     http host, and whose DialTLSContext leads every https host, to two local plain listeners; the dial address
//     is remembered per client socket.
//   - "proxy" capture (LocateChart / Pull paths, which build their own transport): an HTTP proxy on a local
//     listener reached through HTTP_PROXY/HTTPS_PROXY. Plain requests arrive with an absolute URI; https requests
//     arrive as CONNECT host:port and are tunnelled to a local TLS listener (the client is run with
//     insecure-skip-tls-verify).
//
// The listeners live as long as the test process: net/http reads the proxy environment only once per process.

import (
	"context"
	"fmt"
	"io"
	"log"
	"net"
	"net/http"
	"net/http/httptest"
	"net/netip"
	"net/url"
	"path"
	"sort"
	"strconv"
	"strings"
	"sync"
)

// c19Req is one captured request.
type c19Req struct {
	Seq    int    `json:"seq"`
	Scheme string `json:"scheme"` // http | https, by the listener that was reached
	Dest   string `json:"dest"`   // host:port the client connected to (dial address / proxy target)
	Host   string `json:"host"`   // Host header
	Path   string `json:"path"`
	Auth   string `json:"auth"`
	Kind   string `json:"kind"`             // index | chart | prov
	Follow bool   `json:"follow,omitempty"` // request follows a redirect issued by the capture server
}

const c19Marker = "/c19rd/"

type c19Cap struct {
	mu    sync.Mutex
	reqs  []c19Req
	dials map[string]string // client socket address -> address the client wanted
	// epoch counts the cases; a connection belongs to the case that was running when it was dialled. A request served on
	// a connection of an earlier case (the client gave up or is still running while the next case has begun - seen once
	// under heavy load) is answered 503 and not recorded: it is not this case's request.
	epoch      int
	dialEpoch  map[string]int
	staleCount int
	script     *c19Case
	index      [][]byte // per repo of script
	archive    []byte

	plainAddr, tlsMarkAddr string // direct capture
	proxyURL               string // proxy capture
	tlsBackAddr            string
	tr                     *http.Transport
}

var (
	c19CapOnce sync.Once
	c19TheCap  *c19Cap
)

func c19Capture() *c19Cap {
	c19CapOnce.Do(func() {
		c := &c19Cap{dials: map[string]string{}}
		plain := httptest.NewServer(http.HandlerFunc(func(w http.ResponseWriter, r *http.Request) { c.serveDirect(w, r, "http") }))
		tlsMark := httptest.NewServer(http.HandlerFunc(func(w http.ResponseWriter, r *http.Request) { c.serveDirect(w, r, "https") }))
		c.plainAddr, c.tlsMarkAddr = plain.Listener.Addr().String(), tlsMark.Listener.Addr().String()
		dialTo := func(target string) func(addr string) (net.Conn, error) {
			return func(addr string) (net.Conn, error) {
				conn, err := net.Dial("tcp", target)
				if err != nil {
					return nil, err
				}
				c.setDial(conn.LocalAddr().String(), addr)
				return conn, nil
			}
		}
		dp, dt := dialTo(c.plainAddr), dialTo(c.tlsMarkAddr)
		c.tr = &http.Transport{DisableKeepAlives: true}
		c.tr.DialContext = func(_ context.Context, _, addr string) (net.Conn, error) { return dp(addr) }
		c.tr.DialTLSContext = func(_ context.Context, _, addr string) (net.Conn, error) { return dt(addr) }

		tlsBack := httptest.NewUnstartedServer(http.HandlerFunc(func(w http.ResponseWriter, r *http.Request) { c.serveDirect(w, r, "https") }))
		tlsBack.Config.ErrorLog = c19NoLog()
		tlsBack.StartTLS()
		c.tlsBackAddr = tlsBack.Listener.Addr().String()
		proxy := httptest.NewServer(http.HandlerFunc(c.proxy))
		c.proxyURL = proxy.URL
		c19TheCap = c
	})
	return c19TheCap
}

func (c *c19Cap) setDial(sock, want string) {
	c.mu.Lock()
	c.dials[sock] = want
	if c.dialEpoch == nil {
		c.dialEpoch = map[string]int{}
	}
	c.dialEpoch[sock] = c.epoch
	c.mu.Unlock()
}

// stale reports whether the connection the request came in on was dialled during an earlier case.
func (c *c19Cap) stale(sock string) bool {
	c.mu.Lock()
	defer c.mu.Unlock()
	e, ok := c.dialEpoch[sock]
	if !ok || e != c.epoch {
		c.staleCount++
		return true
	}
	return false
}

func (c *c19Cap) dialOf(sock string) string {
	c.mu.Lock()
	defer c.mu.Unlock()
	return c.dials[sock]
}

// proxy is the HTTP_PROXY endpoint.
func (c *c19Cap) proxy(w http.ResponseWriter, r *http.Request) {
	if r.Method == http.MethodConnect {
		hj, ok := w.(http.Hijacker)
		if !ok {
			w.WriteHeader(500)
			return
		}
		back, err := net.Dial("tcp", c.tlsBackAddr)
		if err != nil {
			w.WriteHeader(502)
			return
		}
		c.setDial(back.LocalAddr().String(), r.Host)
		conn, _, err := hj.Hijack()
		if err != nil {
			back.Close()
			return
		}
		io.WriteString(conn, "HTTP/1.1 200 Connection established\r\n\r\n")
		go func() { io.Copy(back, conn); back.Close(); conn.Close() }()
		go func() { io.Copy(conn, back); conn.Close(); back.Close() }()
		return
	}
	if !r.URL.IsAbs() {
		// not a proxy request: somebody talked to the proxy address itself
		c.serve(w, r, "http", "")
		return
	}
	dest := r.URL.Host
	if r.URL.Port() == "" {
		dest = strings.TrimSuffix(dest, ":") + ":80"
	}
	c.serve(w, r, "http", dest)
}

func c19KindOf(p string) string {
	switch {
	case strings.HasSuffix(p, "index.yaml"):
		return "index"
	case strings.HasSuffix(p, ".prov"):
		return "prov"
	}
	return "chart"
}

// serve records the request and answers it by the script of the running case.
// serveDirect serves a request that arrived on a connection made by one of the capture's own dialers.
func (c *c19Cap) serveDirect(w http.ResponseWriter, r *http.Request, scheme string) {
	if c.stale(r.RemoteAddr) {
		w.Header().Set("Connection", "close")
		w.WriteHeader(http.StatusServiceUnavailable)
		return
	}
	c.serve(w, r, scheme, c.dialOf(r.RemoteAddr))
}

func (c *c19Cap) serve(w http.ResponseWriter, r *http.Request, scheme, dest string) {
	p := r.URL.Path
	kind := c19KindOf(p)
	follow := strings.Contains(p, c19Marker)
	c.mu.Lock()
	c.reqs = append(c.reqs, c19Req{Seq: len(c.reqs), Scheme: scheme, Dest: dest, Host: r.Host, Path: p, Auth: r.Header.Get("Authorization"), Kind: kind, Follow: follow})
	cs, index, archive := c.script, c.index, c.archive
	c.mu.Unlock()
	w.Header().Set("Connection", "close")
	if cs == nil {
		w.Write([]byte("c19"))
		return
	}
	org, _ := c19OriginOf(scheme, dest)
	repoIdx := -1
	if follow {
		// /c19rd/<redirect>/<hop>/<file>
		rest := p[strings.Index(p, c19Marker)+len(c19Marker):]
		f := strings.SplitN(rest, "/", 3)
		ri, err1 := strconv.Atoi(f[0])
		hop, err2 := 0, error(nil)
		if len(f) > 1 {
			hop, err2 = strconv.Atoi(f[1])
		}
		if err1 != nil || err2 != nil || ri < 0 || ri >= len(cs.Redirects) {
			w.WriteHeader(404)
			return
		}
		rd := cs.Redirects[ri]
		if hop+1 < len(rd.Hops) {
			w.Header().Set("Location", rd.Hops[hop+1])
			w.WriteHeader(http.StatusFound)
			return
		}
		repoIdx = rd.Repo
	} else {
		if kind == "index" {
			repoIdx = c19MatchRepo(cs, org, p)
		}
		for _, rd := range cs.Redirects {
			if rd.Kind != kind || len(rd.Hops) == 0 {
				continue
			}
			if kind == "index" && rd.Repo != repoIdx {
				continue
			}
			w.Header().Set("Location", rd.Hops[0])
			w.WriteHeader(http.StatusFound)
			return
		}
	}
	switch kind {
	case "index":
		if repoIdx < 0 || repoIdx >= len(index) {
			w.WriteHeader(404)
			return
		}
		w.Write(index[repoIdx])
	case "prov":
		w.WriteHeader(404)
	default:
		w.Write(archive)
	}
}

// c19MatchRepo finds the repository of the case whose index lives at origin org, path p.
func c19MatchRepo(cs *c19Case, org c19Org, p string) int {
	for i, rp := range cs.Repos {
		u, err := url.Parse(rp.URL)
		if err != nil {
			continue
		}
		ro, ok := c19OriginOf(u.Scheme, u.Host)
		if !ok || ro != org {
			continue
		}
		if path.Clean("/"+u.Path+"/index.yaml") == path.Clean("/"+p) {
			return i
		}
	}
	return -1
}

func (c *c19Cap) begin(cs *c19Case, index [][]byte, archive []byte) {
	c.mu.Lock()
	c.reqs, c.script, c.index, c.archive = nil, cs, index, archive
	c.epoch++
	if len(c.dialEpoch) > 4096 {
		for sock, e := range c.dialEpoch {
			if e < c.epoch-1 {
				delete(c.dialEpoch, sock)
				delete(c.dials, sock)
			}
		}
	}
	// (dials and dialEpoch are kept: an entry is overwritten when its socket address is dialled again, and only entries
	// of the running epoch are honoured)
	c.mu.Unlock()
}

func (c *c19Cap) end() []c19Req {
	c.mu.Lock()
	defer c.mu.Unlock()
	out := append([]c19Req{}, c.reqs...)
	c.reqs, c.script = nil, nil
	// index fetches of several repositories run concurrently: order the capture canonically
	sort.SliceStable(out, func(i, j int) bool {
		a, b := out[i], out[j]
		if a.Kind == "index" && b.Kind == "index" && !a.Follow && !b.Follow {
			return a.Scheme+a.Dest+a.Path < b.Scheme+b.Dest+b.Path
		}
		return false
	})
	for i := range out {
		out[i].Seq = i
	}
	return out
}

// c19Org is a normalised origin: lower-case scheme, lower-case host without a trailing dot (IP literals in
// canonical form), explicit port.
type c19Org struct{ Scheme, Host, Port string }

func (o c19Org) String() string { return o.Scheme + "://" + net.JoinHostPort(o.Host, o.Port) }

// c19OriginOf normalises (scheme, host[:port]). ok=false when there is no host.
func c19OriginOf(scheme, hostport string) (c19Org, bool) {
	scheme = strings.ToLower(scheme)
	host, port := hostport, ""
	switch {
	case strings.HasPrefix(hostport, "["):
		end := strings.Index(hostport, "]")
		if end < 0 {
			return c19Org{}, false
		}
		host = hostport[1:end]
		rest := hostport[end+1:]
		if strings.HasPrefix(rest, ":") {
			port = rest[1:]
		} else if rest != "" {
			return c19Org{}, false
		}
	case strings.Count(hostport, ":") == 1:
		i := strings.Index(hostport, ":")
		host, port = hostport[:i], hostport[i+1:]
	case strings.Count(hostport, ":") > 1: // bare IPv6
		host = hostport
	}
	if i := strings.Index(host, "%"); i >= 0 { // zone
		host = host[:i]
	}
	host = strings.ToLower(host)
	if a, err := netip.ParseAddr(host); err == nil {
		host = a.Unmap().String()
	} else {
		host = strings.TrimSuffix(host, ".")
	}
	if host == "" {
		return c19Org{}, false
	}
	if port == "" {
		switch scheme {
		case "https":
			port = "443"
		default:
			port = "80"
		}
	}
	if n, err := strconv.Atoi(port); err == nil {
		port = strconv.Itoa(n)
	}
	return c19Org{scheme, host, port}, true
}

// c19DomainOrSub reports whether host is parent or a subdomain of it (names only; IP literals must be equal).
func c19DomainOrSub(host, parent string) bool {
	if host == parent {
		return true
	}
	if _, err := netip.ParseAddr(parent); err == nil {
		return false
	}
	return strings.HasSuffix(host, "."+parent)
}

func c19NoLog() *log.Logger { return log.New(io.Discard, "", 0) }

func c19Basic(user, pass string) string {
	r, _ := http.NewRequest("GET", "http://x/", nil)
	r.SetBasicAuth(user, pass)
	return r.Header.Get("Authorization")
}

func c19ReqLine(r c19Req) string {
	f := ""
	if r.Follow {
		f = " (follows a redirect)"
	}
	a := r.Auth
	if a == "" {
		a = "-"
	}
	return fmt.Sprintf("%s -> %s://%s%s auth=%s%s", r.Kind, r.Scheme, r.Dest, r.Path, a, f)
}
