package props

// C17 — Provenance verification accepts exactly untampered, trusted-key-signed charts.
//
// A case is a concrete (archive bytes, archive file name, provenance bytes, keyring) tuple produced by signing a small
// generated chart with Helm itself (or by hand-crafting a clearsigned message) and then applying one mutation class.
// Every case is run through all verification entry points; Helm's accept/reject is judged by
//   (1) round trip: Helm-signed, unmodified, signer in keyring  => accepted, FileHash = sha256 of the bytes;
//   (2) must-reject facts that need no reference (no keyring key signed anything in the file; digest or file name do
//       not even occur in the provenance text; provenance missing);
//   (3) the independent reference verifier c17RefVerify (c17_ref_test.go): accept <=> reference accepts;
//   (4) wrappers (VerifyChart, action.Verify, LocateChart --verify, DownloadTo VerifyAlways) must return an error
//       exactly when Signatory.Verify does.

import (
	"bytes"
	"context"
	"crypto"
	"crypto/sha256"
	"encoding/json"
	"errors"
	"fmt"
	"io"
	"net"
	"net/http"
	"net/http/httptest"
	"os"
	"path/filepath"
	"sort"
	"strings"
	"sync"
	"testing"
	"time"
	"unicode/utf8"

	"golang.org/x/crypto/openpgp"           //nolint
	"golang.org/x/crypto/openpgp/armor"     //nolint
	"golang.org/x/crypto/openpgp/clearsign" //nolint
	"golang.org/x/crypto/openpgp/packet"    //nolint
	"pgregory.net/rapid"

	"helm.sh/helm/v4/pkg/action"
	chart "helm.sh/helm/v4/pkg/chart/v2"
	chartutil "helm.sh/helm/v4/pkg/chart/v2/util"
	"helm.sh/helm/v4/pkg/cli"
	"helm.sh/helm/v4/pkg/downloader"
	"helm.sh/helm/v4/pkg/getter"
	"helm.sh/helm/v4/pkg/provenance"

	"verif/internal/evid"
	"verif/internal/vt"
)

// ---------------------------------------------------------------------------------------------------------------
// case description

// c17SignReq asks Helm to sign a generated chart (the "sign" half of the round trip).
type c17SignReq struct {
	Chart c17ChartSpec `json:"chart"`
	Key   string       `json:"key"`   // key id, see c17KeyNames
	Route string       `json:"route"` // "entity" (Signatory{Entity}.ClearSign) | "keyfiles" (NewFromFiles) | "package" (action.Package --sign)
}

type c17ChartSpec struct {
	Name        string   `json:"name"`
	Version     string   `json:"version"`
	Description string   `json:"description,omitempty"`
	Keywords    []string `json:"keywords,omitempty"`
	// Notes, when set, becomes the annotation "notes" (annotation values keep their line breaks in the signed text,
	// unlike the description, which is flattened)
	Notes  string `json:"notes,omitempty"`
	Body   string `json:"body"`
	BulkKB int    `json:"bulk_kb,omitempty"` // extra incompressible file so that the archive exceeds common buffer sizes
}

// c17Case is the concrete, replayable case.
type c17Case struct {
	Name    string   `json:"name"`              // archive base name as stored on disk / served
	Archive []byte   `json:"archive"`           // base64 in JSON
	Prov    []byte   `json:"prov"`              // base64 in JSON
	NoProv  bool     `json:"no_prov,omitempty"` // no provenance file at all
	Ring    []string `json:"ring"`              // key ids forming the keyring
	Signers []string `json:"signers"`           // key ids that made any signature contained in Prov (generator knowledge)
	// Pristine: Prov is exactly what Helm's signing produced for exactly these Archive bytes under exactly this Name.
	Pristine bool     `json:"pristine,omitempty"`
	Entries  []string `json:"entries"`
	Mutation string   `json:"mutation"` // label, not judged
	// Sign, when set and Archive is empty, makes the judge perform the signing step itself (replay of sign-stage failures).
	Sign *c17SignReq `json:"sign,omitempty"`
	// FailedDigestBefore > 0: before every verification, provenance.Digest is run over that many bytes of unrelated
	// data from a reader that then fails
	FailedDigestBefore int `json:"failed_digest_before,omitempty"`
	// ArchiveUnreadable: the archive path exists and can be opened, but reading it fails (a symbolic link to
	// /proc/self/mem: the first read returns an I/O error). Its bytes cannot be the signed ones: nothing may verify.
	ArchiveUnreadable bool `json:"archive_unreadable,omitempty"`
}

var c17AllEntries = []string{"signatory", "signatory-keyringfile", "signatory-holding-signing-key", "verifychart", "action-verify", "locate-verify", "download-verify-always"}

// c17FailAfter is a reader that fails after its bytes (a read fault in the middle of hashing some other file).
type c17FailAfter struct{ r io.Reader }

func (f *c17FailAfter) Read(p []byte) (int, error) {
	n, err := f.r.Read(p)
	if err == io.EOF {
		return n, errors.New("injected read fault")
	}
	return n, err
}

// ---------------------------------------------------------------------------------------------------------------
// environment shared by the cases of one test function: keys, temp area, local chart server

type c17Env struct {
	base string
	keys *c17Keys
	mu   sync.Mutex
	n    int
	// served maps URL path -> body for the local transport
	served  map[string][]byte
	srv     *httptest.Server
	getters getter.Providers
}

func c17NewEnv(t testing.TB) *c17Env {
	base, err := os.MkdirTemp("", "c17-")
	if err != nil {
		t.Fatal(err)
	}
	env := &c17Env{base: base, served: map[string][]byte{}}
	t.Cleanup(func() {
		if env.srv != nil {
			env.srv.Close()
		}
		os.RemoveAll(base)
	})
	kd := filepath.Join(base, "keys")
	if err := os.MkdirAll(kd, 0o755); err != nil {
		t.Fatal(err)
	}
	if env.keys, err = c17LoadKeys(kd); err != nil {
		t.Fatal(err)
	}
	env.srv = httptest.NewServer(http.HandlerFunc(func(w http.ResponseWriter, r *http.Request) {
		env.mu.Lock()
		body, ok := env.served[r.URL.Path]
		env.mu.Unlock()
		if !ok {
			http.NotFound(w, r)
			return
		}
		w.Header().Set("Content-Type", "application/octet-stream")
		_, _ = w.Write(body)
	}))
	addr := env.srv.Listener.Addr().String()
	tr := &http.Transport{ // every host name resolves to the local server: no network, no proxy
		DialContext: func(_ context.Context, _, _ string) (net.Conn, error) { return net.Dial("tcp", addr) },
	}
	t.Cleanup(tr.CloseIdleConnections)
	env.getters = getter.Providers{{Schemes: []string{"http"}, New: func(o ...getter.Option) (getter.Getter, error) {
		return getter.NewHTTPGetter(append(o, getter.WithTransport(tr))...)
	}}}
	return env
}

func (e *c17Env) newDir() string {
	e.mu.Lock()
	e.n++
	d := filepath.Join(e.base, fmt.Sprintf("w%d", e.n))
	e.mu.Unlock()
	_ = os.MkdirAll(d, 0o755)
	return d
}

// ---------------------------------------------------------------------------------------------------------------
// signing step (Helm code under test: ClearSign / action.Package)

func (s c17ChartSpec) build() *chart.Chart {
	c := s.buildSmall()
	if s.BulkKB > 0 {
		var bulk []byte
		h := sha256.Sum256([]byte(s.Body))
		for len(bulk) < s.BulkKB*1024 {
			bulk = append(bulk, h[:]...)
			h = sha256.Sum256(h[:])
		}
		c.Files = []*chart.File{{Name: "bulk.bin", Data: bulk}}
	}
	return c
}

func (s c17ChartSpec) buildSmall() *chart.Chart {
	return &chart.Chart{
		Metadata: &chart.Metadata{APIVersion: "v2", Name: s.Name, Version: s.Version, Description: s.Description, Keywords: s.Keywords, Annotations: c17Annotations(s.Notes)},
		Templates: []*chart.File{
			{Name: "templates/cm.yaml", Data: []byte("apiVersion: v1\nkind: ConfigMap\nmetadata:\n  name: " + s.Name + "\ndata:\n  k: " + s.Body + "\n")},
		},
	}
}

var c17PackageKeyID = map[string]string{"a": "signer-a@verif.test", "b": "signer-b@verif.test", "c": "signer-a@verif.test", "helm": "helm-testing@helm.sh"}

// c17DoSign builds the chart archive and lets Helm sign it. A failure of either step on these valid inputs is a
// violation of "a chart signed and then verified ... always passes" at the sign stage.
func c17DoSign(tb vt.TB, env *c17Env, req c17SignReq) (name string, archive, prov []byte, cut bool) {
	dir := env.newDir()
	defer os.RemoveAll(dir)
	fail := func(stage string, err error) (string, []byte, []byte, bool) {
		vt.Violation(tb, "C17:sign-failed/"+stage, fmt.Sprintf("signing a valid generated chart failed at %s: %v\n   request: %s", stage, err, c17JSON(req)),
			c17Case{Sign: &req, Ring: []string{req.Key}, Entries: c17AllEntries, Mutation: "none"})
		return "", nil, nil, true
	}
	ch := req.Chart.build()
	var path string
	switch req.Route {
	case "package":
		src := filepath.Join(dir, "src")
		if err := chartutil.SaveDir(ch, src); err != nil {
			return fail("savedir", err)
		}
		p := action.NewPackage()
		p.Sign, p.Key, p.Keyring, p.Destination = true, c17PackageKeyID[req.Key], env.keys.secF[req.Key], filepath.Join(dir, "out")
		if err := os.MkdirAll(p.Destination, 0o755); err != nil {
			tb.Fatalf("harness: %v", err)
		}
		out, err := p.Run(filepath.Join(src, req.Chart.Name), nil)
		if err != nil {
			return fail("package-sign", err)
		}
		path = out
	default:
		out, err := chartutil.Save(ch, dir)
		if err != nil {
			return fail("save", err)
		}
		path = out
		var signer *provenance.Signatory
		if req.Route == "keyfiles" {
			ring, err := env.keys.ringFile([]string{req.Key})
			if err != nil {
				tb.Fatalf("harness: %v", err)
			}
			if signer, err = provenance.NewFromFiles(env.keys.secF[req.Key], ring); err != nil {
				return fail("load-key", err)
			}
		} else {
			signer = &provenance.Signatory{Entity: env.keys.sec[req.Key]}
		}
		sig, err := signer.ClearSign(path)
		if err != nil {
			return fail("clearsign", err)
		}
		if err := os.WriteFile(path+".prov", []byte(sig), 0o644); err != nil {
			tb.Fatalf("harness: %v", err)
		}
	}
	var err error
	if archive, err = os.ReadFile(path); err != nil {
		return fail("read-archive", err)
	}
	if prov, err = os.ReadFile(path + ".prov"); err != nil {
		return fail("read-prov", err)
	}
	return filepath.Base(path), archive, prov, false
}

// c17Craft clearsigns an arbitrary message with the library directly (fixed time; not Helm code).
func c17Craft(env *c17Env, key string, msg []byte, h crypto.Hash) []byte {
	var out bytes.Buffer
	fixed := time.Date(2024, 6, 1, 0, 0, 0, 0, time.UTC)
	w, err := clearsign.Encode(&out, env.keys.sec[key].PrivateKey, &packet.Config{DefaultHash: h, Time: func() time.Time { return fixed }})
	if err != nil {
		panic(err)
	}
	_, _ = w.Write(msg)
	if err := w.Close(); err != nil {
		panic(err)
	}
	return out.Bytes()
}

// ---------------------------------------------------------------------------------------------------------------
// running the entry points

type c17Outcome struct {
	OK        bool
	Err       string
	FileHash  string
	FileName  string
	SignerFpr string
	Extra     string // entry-specific complaint about the success result ("" = fine)
}

func c17VerOutcome(ver *provenance.Verification, err error) c17Outcome {
	o := c17Outcome{OK: err == nil}
	if err != nil {
		o.Err = err.Error()
		return o
	}
	if ver == nil {
		o.Extra = "nil Verification returned without error"
		return o
	}
	o.FileHash, o.FileName = ver.FileHash, ver.FileName
	if ver.SignedBy != nil && ver.SignedBy.PrimaryKey != nil {
		o.SignerFpr = fmt.Sprintf("%X", ver.SignedBy.PrimaryKey.Fingerprint)
	}
	return o
}

func c17RunEntry(tb vt.TB, env *c17Env, entry, dir string, cs *c17Case) c17Outcome {
	path := filepath.Join(dir, cs.Name)
	ringFile, err := env.keys.ringFile(cs.Ring)
	if err != nil {
		tb.Fatalf("harness: keyring file: %v", err)
	}
	// what happened earlier in the process must not matter: a digest of some other data that failed half-way
	if cs.FailedDigestBefore > 0 {
		_, _ = provenance.Digest(&c17FailAfter{bytes.NewReader(cs.Archive[:min(cs.FailedDigestBefore, len(cs.Archive))])})
	}
	switch entry {
	case "signatory":
		s := &provenance.Signatory{KeyRing: env.keys.ringList(cs.Ring)}
		return c17VerOutcome(s.Verify(path, path+".prov"))
	case "signatory-holding-signing-key":
		// a Signatory that also carries a signing key (as helm package --sign builds it): trust still comes from the
		// keyring alone
		key := c17KeyNames[0]
		if len(cs.Signers) > 0 {
			key = cs.Signers[0]
		}
		s, err := provenance.NewFromFiles(env.keys.secF[key], ringFile)
		if err != nil {
			return c17Outcome{Err: "keyring: " + err.Error()}
		}
		return c17VerOutcome(s.Verify(path, path+".prov"))
	case "signatory-keyringfile":
		s, err := provenance.NewFromKeyring(ringFile, "")
		if err != nil {
			return c17Outcome{Err: "keyring: " + err.Error()}
		}
		return c17VerOutcome(s.Verify(path, path+".prov"))
	case "verifychart":
		return c17VerOutcome(downloader.VerifyChart(path, ringFile))
	case "action-verify":
		v := action.NewVerify()
		v.Keyring = ringFile
		err := v.Run(path)
		o := c17Outcome{OK: err == nil}
		if err != nil {
			o.Err = err.Error()
			return o
		}
		for _, l := range strings.Split(v.Out, "\n") {
			if s, ok := strings.CutPrefix(l, "Chart Hash Verified: "); ok {
				o.FileHash = s
			}
			if s, ok := strings.CutPrefix(l, "Using Key With Fingerprint: "); ok {
				o.SignerFpr = s
			}
		}
		o.FileName = cs.Name // not reported by this entry point
		return o
	case "locate-verify":
		opts := action.ChartPathOptions{Verify: true, Keyring: ringFile}
		got, err := opts.LocateChart(path, cli.New())
		o := c17Outcome{OK: err == nil}
		if err != nil {
			o.Err = err.Error()
		} else if got != path {
			o.Extra = fmt.Sprintf("LocateChart returned %q for %q", got, path)
		}
		return o
	case "download-verify-always":
		dest := filepath.Join(dir, "dl")
		if err := os.MkdirAll(dest, 0o755); err != nil {
			tb.Fatalf("harness: %v", err)
		}
		prefix := "/" + filepath.Base(dir) + "/"
		env.mu.Lock()
		env.served[prefix+cs.Name] = cs.Archive
		if !cs.NoProv {
			env.served[prefix+cs.Name+".prov"] = cs.Prov
		}
		env.mu.Unlock()
		defer func() {
			env.mu.Lock()
			delete(env.served, prefix+cs.Name)
			delete(env.served, prefix+cs.Name+".prov")
			env.mu.Unlock()
		}()
		dl := downloader.ChartDownloader{
			Out: io.Discard, Verify: downloader.VerifyAlways, Keyring: ringFile, Getters: env.getters,
			RepositoryConfig: filepath.Join(dir, "no-repositories.yaml"), RepositoryCache: filepath.Join(dir, "cache"),
		}
		got, ver, err := dl.DownloadTo("http://charts.c17.test"+prefix+cs.Name, "", dest)
		o := c17VerOutcome(ver, err)
		if err == nil {
			if b, rerr := os.ReadFile(got); rerr != nil || !bytes.Equal(b, cs.Archive) {
				o.Extra = fmt.Sprintf("downloaded file %q does not hold the served archive bytes (read error: %v)", got, rerr)
			}
		}
		return o
	}
	tb.Fatalf("harness: unknown entry %q", entry)
	return c17Outcome{}
}

// c17ErrClass maps a Helm error text to a stable class (no generated data).
func c17ErrClass(e string) string {
	switch {
	case strings.Contains(e, "signature block not found"):
		return "no-signature-block"
	case strings.Contains(e, "provenance does not contain a SHA"):
		return "name-not-listed"
	case strings.Contains(e, "sum does not match"):
		return "digest-differs"
	case strings.Contains(e, "openpgp:"):
		return "signature-check"
	case strings.Contains(e, "message block must have"):
		return "message-parts"
	case strings.Contains(e, "failed to fetch provenance"), strings.Contains(e, "could not load provenance"), strings.Contains(e, "no such file"):
		return "provenance-missing"
	case strings.Contains(e, "keyring"):
		return "keyring"
	}
	return "other"
}

// ---------------------------------------------------------------------------------------------------------------
// the judge

type c17Verdict struct {
	Blocks   int
	RefFirst bool
	RefAny   bool
	HelmOK   bool
	Cut      bool
}

func c17Has(list []string, s string) bool {
	for _, x := range list {
		if x == s {
			return true
		}
	}
	return false
}

func c17Judge(tb vt.TB, env *c17Env, cs c17Case) (v c17Verdict) {
	if cs.Sign != nil && len(cs.Archive) == 0 {
		var cut bool
		if cs.Name, cs.Archive, cs.Prov, cut = c17DoSign(tb, env, *cs.Sign); cut {
			v.Cut = true
			return v
		}
		cs.Pristine, cs.Signers = true, []string{cs.Sign.Key}
	}
	if cs.Name == "" || cs.Name != filepath.Base(cs.Name) {
		tb.Fatalf("harness: bad case name %q", cs.Name)
	}
	dir := env.newDir()
	defer os.RemoveAll(dir)
	path := filepath.Join(dir, cs.Name)
	if cs.ArchiveUnreadable {
		if err := os.Symlink("/proc/self/mem", path); err != nil {
			tb.Fatalf("harness: %v", err)
		}
		if f, err := os.Open(path); err == nil {
			_, rerr := f.Read(make([]byte, 16))
			f.Close()
			if rerr == nil {
				evid.Note("C17:not-judged/unreadable-archive-could-not-be-produced-here")
				return v
			}
		}
	} else if err := os.WriteFile(path, cs.Archive, 0o644); err != nil {
		tb.Fatalf("harness: %v", err)
	}
	if !cs.NoProv {
		if err := os.WriteFile(path+".prov", cs.Prov, 0o644); err != nil {
			tb.Fatalf("harness: %v", err)
		}
	}
	if cs.ArchiveUnreadable {
		// every entry point that verifies files on disk must refuse
		for _, e := range []string{"signatory", "signatory-keyringfile", "signatory-holding-signing-key", "verifychart", "action-verify", "locate-verify"} {
			if o := c17RunEntry(tb, env, e, dir, &cs); o.OK {
				v.Cut = true
				vt.Violation(tb, "C17:accepted/archive-that-cannot-be-read/"+e, fmt.Sprintf("entry=%s helm: ok=%v filehash=%q; the archive path is a link to /proc/self/mem (reads fail)", e, o.OK, o.FileHash), cs)
				return v
			}
		}
		v.HelmOK = false
		return v
	}

	// independent facts
	sha := c17SHA256Hex(cs.Archive)
	ring := env.keys.ringList(cs.Ring)
	ringFprs := map[string]string{}
	for _, k := range c17SortedUnique(cs.Ring) {
		ringFprs[env.keys.fpr[k]] = k
	}
	var ref c17RefResult
	if !cs.NoProv {
		ref = c17RefVerify(cs.Archive, cs.Prov, cs.Name, ring)
	}
	v.Blocks, v.RefFirst, v.RefAny = len(ref.Blocks), ref.First(), ref.Any()
	trustedSigner := false
	for _, s := range cs.Signers {
		if c17Has(cs.Ring, s) {
			trustedSigner = true
		}
	}
	mustAccept := cs.Pristine && !cs.NoProv && trustedSigner

	detail := func(entry string, o c17Outcome) string {
		provTxt := fmt.Sprintf("%q", cs.Prov)
		if utf8.Valid(cs.Prov) {
			provTxt = "\n" + string(cs.Prov)
		}
		return fmt.Sprintf("entry=%s helm: ok=%v err=%q filehash=%q filename=%q signer=%s\n   case: mutation=%s name=%q ring=%v signers=%v pristine=%v no_prov=%v archive sha256=%s (%d bytes)\n   reference: blocks=%+v\n   provenance:%s",
			entry, o.OK, o.Err, o.FileHash, o.FileName, o.SignerFpr, cs.Mutation, cs.Name, cs.Ring, cs.Signers, cs.Pristine, cs.NoProv, sha, len(cs.Archive), ref.Blocks, provTxt)
	}
	fail := func(sig, entry string, o c17Outcome) bool {
		v.Cut = true
		return vt.Violation(tb, sig, detail(entry, o), cs)
	}

	// judgeCore applies the property to one outcome of a function that returns the verification itself.
	judgeCore := func(entry string, o c17Outcome) (cut bool) {
		if o.OK {
			switch {
			case cs.NoProv:
				return fail("C17:accepted/provenance-file-missing", entry, o)
			case !trustedSigner:
				return fail("C17:accepted/no-signature-by-a-keyring-key", entry, o)
			case !bytes.Contains(cs.Prov, []byte(sha)):
				return fail("C17:accepted/archive-digest-absent-from-provenance", entry, o)
			case !bytes.Contains(cs.Prov, []byte(cs.Name)):
				return fail("C17:accepted/file-name-absent-from-provenance", entry, o)
			case !ref.Any():
				return fail("C17:accepted/reference-rejects/"+ref.Reason(), entry, o)
			}
			if o.Extra != "" {
				return fail("C17:accepted-with-bad-result/"+entry, entry, o)
			}
			if o.FileHash != "sha256:"+sha {
				return fail("C17:accepted-with-wrong-filehash", entry, o)
			}
			if o.FileName != cs.Name {
				return fail("C17:accepted-with-wrong-filename", entry, o)
			}
			if _, ok := ringFprs[o.SignerFpr]; !ok {
				return fail("C17:accepted-with-signer-outside-keyring", entry, o)
			}
			if !c17Has(cs.Signers, ringFprs[o.SignerFpr]) {
				return fail("C17:accepted-with-signer-who-did-not-sign", entry, o)
			}
			if !ref.First() {
				evid.Note("accepted on a block other than the first (reference: some block valid) — not judged")
			}
			return false
		}
		if mustAccept {
			return fail("C17:roundtrip-rejected/signed-by-helm-verified-with-matching-key/"+c17ErrClass(o.Err), entry, o)
		}
		if ref.First() {
			return fail("C17:rejected-valid/reference-accepts/"+c17ErrClass(o.Err), entry, o)
		}
		if ref.Any() {
			evid.Note("valid signed block present but not first: rejected (safe direction) — not judged")
		}
		return false
	}

	entries := cs.Entries
	if len(entries) == 0 {
		entries = c17AllEntries
	}
	if !c17Has(entries, "signatory") {
		entries = append([]string{"signatory"}, entries...)
	}
	base := c17RunEntry(tb, env, "signatory", dir, &cs)
	v.HelmOK = base.OK
	if judgeCore("signatory", base) || v.Cut {
		return v
	}
	for _, e := range entries {
		if e == "signatory" {
			continue
		}
		o := c17RunEntry(tb, env, e, dir, &cs)
		switch {
		case o.OK && !base.OK:
			// verification was required and (rightly) fails in Signatory.Verify, yet this entry point reports success
			if fail("C17:verification-not-enforced/"+e, e, o) {
				return v
			}
		case !o.OK && base.OK:
			if fail("C17:entry-rejects-verifiable-chart/"+e+"/"+c17ErrClass(o.Err), e, o) {
				return v
			}
		case o.OK:
			if e == "locate-verify" {
				if o.Extra != "" && fail("C17:accepted-with-bad-result/"+e, e, o) {
					return v
				}
				continue
			}
			if judgeCore(e, o) || v.Cut {
				return v
			}
		}
	}
	// an archive that verifies, reached through a link under another file name (its provenance copied next to the
	// link): the provenance does not list that name, so every entry point that verifies files on disk must refuse
	if base.OK && !cs.NoProv {
		linkDir := env.newDir()
		defer os.RemoveAll(linkDir)
		other := cs
		other.Name = "zz-" + cs.Name
		if err := os.Symlink(path, filepath.Join(linkDir, other.Name)); err != nil {
			tb.Fatalf("harness: %v", err)
		}
		if err := os.WriteFile(filepath.Join(linkDir, other.Name+".prov"), cs.Prov, 0o644); err != nil {
			tb.Fatalf("harness: %v", err)
		}
		for _, e := range []string{"verifychart", "action-verify", "locate-verify"} {
			if !c17Has(entries, e) {
				continue
			}
			if o := c17RunEntry(tb, env, e, linkDir, &other); o.OK {
				if fail("C17:accepted/file-name-absent-from-provenance/reached-through-a-link/"+e, e, o) {
					return v
				}
			}
		}
	}
	return v
}

func c17JSON(v interface{}) string {
	b, _ := json.Marshal(v)
	return string(b)
}

// ---------------------------------------------------------------------------------------------------------------
// generator

var c17Names = []string{"demo", "app-x", "a"}
var c17Versions = []string{"0.1.0", "1.2.3", "2.0.0-rc.1+build.5", "10.20.30"}
var c17Descriptions = []string{"", "plain text", "- starts with a dash", "line one\nline two", "trailing blanks  \nnext line", "x\n...\ny", "-----BEGIN PGP SIGNATURE-----", "tab\there"}

// c17Annotations turns the notes text into the chart's annotations.
func c17Annotations(notes string) map[string]string {
	if notes == "" {
		return nil
	}
	return map[string]string{"notes": notes}
}

var c17Notes = []string{"", "", "one line", "line one\nline two", "Options:\n...\n(more)", "ends with\n...", "Title\n---\nBody", "- a\n- b", "x\n ...\ny", "files:\n  demo-0.1.0.tgz: sha256:0000", "-----BEGIN PGP SIGNATURE-----\nabc"}

// c17Uniform draws an index in [0,n) without rapid's strong bias towards small values (positions in a file and the
// mutation class should be spread evenly): a 64-bit draw is mixed (splitmix64 finalizer) before reduction.
func c17Uniform(t *rapid.T, label string, n int) int {
	u := rapid.Uint64().Draw(t, label)
	u += 0x9e3779b97f4a7c15
	u = (u ^ (u >> 30)) * 0xbf58476d1ce4e5b9
	u = (u ^ (u >> 27)) * 0x94d049bb133111eb
	u ^= u >> 31
	return int(u % uint64(n))
}

func c17GenChart(t *rapid.T, label string) c17ChartSpec {
	s := c17ChartSpec{
		Name:        rapid.SampledFrom(c17Names).Draw(t, label+"Name"),
		Version:     rapid.SampledFrom(c17Versions).Draw(t, label+"Version"),
		Description: rapid.SampledFrom(c17Descriptions).Draw(t, label+"Desc"),
		Body:        rapid.StringMatching(`[a-z]{1,12}`).Draw(t, label+"Body"),
	}
	if rapid.IntRange(0, 9).Draw(t, label+"Bulk") == 9 {
		s.BulkKB = 40
	}
	if rapid.Bool().Draw(t, label+"Kw") {
		s.Keywords = []string{"one", "two"}
	}
	s.Notes = rapid.SampledFrom(c17Notes).Draw(t, label+"Notes")
	return s
}

// c17ProvRegions returns the offsets where the cleartext body starts and where the signature armor starts.
func c17ProvRegions(prov []byte) (bodyStart, sigStart int) {
	bodyStart = bytes.Index(prov, []byte("\n\n")) + 2
	sigStart = bytes.Index(prov, []byte("\n-----BEGIN PGP SIGNATURE-----")) + 1
	if bodyStart < 2 || sigStart < 1 || sigStart < bodyStart {
		return 0, len(prov)
	}
	return bodyStart, sigStart
}

// c17Message writes a provenance message in Helm's documented layout by hand.
func c17Message(meta c17ChartSpec, files [][2]string, style string) []byte {
	var b strings.Builder
	fmt.Fprintf(&b, "apiVersion: v2\nname: %s\nversion: %s\n\n...\n", meta.Name, meta.Version)
	switch style {
	case "flow":
		b.WriteString("files: {")
		for i, f := range files {
			if i > 0 {
				b.WriteString(", ")
			}
			fmt.Fprintf(&b, "%q: %q", f[0], f[1])
		}
		b.WriteString("}\n")
	case "quoted":
		b.WriteString("files:\n")
		for _, f := range files {
			fmt.Fprintf(&b, "  %q: '%s'\n", f[0], f[1])
		}
	default:
		b.WriteString("files:\n")
		for _, f := range files {
			fmt.Fprintf(&b, "  %s: %s\n", f[0], f[1])
		}
	}
	return []byte(b.String())
}

func c17OtherName(t *rapid.T, name string) string {
	stem := strings.TrimSuffix(name, ".tgz")
	cands := []string{stem + ".TGZ", "x" + name, stem + "0.tgz", "other-9.9.9.tgz", strings.ToUpper(stem[:1]) + stem[1:] + ".tgz", stem + ".tgz.tgz"}
	var ok []string
	for _, c := range cands {
		if c != name {
			ok = append(ok, c)
		}
	}
	return rapid.SampledFrom(ok).Draw(t, "otherName")
}

func c17TamperArchive(t *rapid.T, archive []byte) ([]byte, string) {
	out := append([]byte{}, archive...)
	switch rapid.SampledFrom([]string{"flip", "flip", "trunc", "append"}).Draw(t, "archMut") {
	case "flip":
		i := c17Uniform(t, "archPos", len(out))
		bit := rapid.IntRange(0, 7).Draw(t, "archBit")
		out[i] ^= 1 << bit
		return out, fmt.Sprintf("flip@%d.%d", i, bit)
	case "trunc":
		n := c17Uniform(t, "archLen", len(out))
		return out[:n], fmt.Sprintf("trunc@%d", n)
	default:
		extra := rapid.SliceOfN(rapid.Byte(), 1, 4).Draw(t, "archExtra")
		return append(out, extra...), fmt.Sprintf("append+%x", extra)
	}
}

var c17Mutations = []string{
	"none", "none", "none", "none",
	"archive-tamper", "archive-tamper", "archive-substitute",
	"attack-patch-digest", "attack-unsigned-prefix", "attack-unsigned-suffix", "attack-second-block", "attack-first-block",
	"prov-flip-header", "prov-flip-body", "prov-flip-body", "prov-flip-armor", "prov-flip-armor", "prov-truncate", "prov-empty", "prov-missing",
	"prov-digest-digit", "prov-file-name", "prov-metadata-edit", "prov-insert-line",
	"prov-trailing-blanks", "prov-crlf", "prov-armor-comment", "prov-hash-header", "prov-unsigned-prefix", "prov-unsigned-suffix", "prov-doubled",
	"rename", "rename",
	"crafted-ok", "crafted-wrong-digest", "crafted-near-digest", "crafted-wrong-name", "crafted-two-files", "crafted-two-files-swapped", "crafted-metadata-mismatch", "crafted-two-sigpackets",
}

type c17Gen struct {
	Case   c17Case
	Desc   string   // canonical description (fingerprint)
	Labels []string // histogram classes known to the generator
}

func c17Generate(t *rapid.T, env *c17Env) (g c17Gen, cut bool) {
	spec := c17GenChart(t, "c")
	key := rapid.SampledFrom(c17KeyNames).Draw(t, "key")
	route := rapid.SampledFrom([]string{"entity", "entity", "keyfiles", "package"}).Draw(t, "route")
	mut := c17Mutations[c17Uniform(t, "mutation", len(c17Mutations))]
	// keyring: signer present (alone or with others) / other keys only / empty
	var ring []string
	ringKind := rapid.SampledFrom([]string{"with-signer", "with-signer", "with-signer", "others-only", "empty"}).Draw(t, "ringKind")
	for _, k := range c17KeyNames {
		if k == key {
			continue
		}
		if ringKind != "empty" && rapid.Bool().Draw(t, "ring-"+k) {
			ring = append(ring, k)
		}
	}
	if ringKind == "with-signer" {
		ring = append(ring, key)
	}
	if ringKind == "others-only" && len(ring) == 0 {
		for _, k := range c17KeyNames {
			if k != key {
				ring = append(ring, k)
				break
			}
		}
	}
	ring = c17SortedUnique(ring)

	req := c17SignReq{Chart: spec, Key: key, Route: route}
	name, archive, prov, cut := c17DoSign(t, env, req)
	if cut {
		return g, true
	}
	cs := c17Case{Name: name, Archive: archive, Prov: prov, Ring: ring, Signers: []string{key}, Entries: c17AllEntries, Mutation: mut}
	cs.FailedDigestBefore = rapid.SampledFrom([]int{0, 0, 1, 64, 4096}).Draw(t, "failedDigestBefore")
	if rapid.IntRange(0, 19).Draw(t, "archiveUnreadable") == 0 {
		cs.ArchiveUnreadable = true
		cs.FailedDigestBefore = 0
		g.Case, g.Desc = cs, fmt.Sprintf("archive-unreadable/chart=%s-%s/desc=%q/notes=%q/key=%s/route=%s/ring=%s", spec.Name, spec.Version, spec.Description, spec.Notes, key, route, strings.Join(ring, ","))
		return g, false
	}
	param := ""
	otherKey := func() string {
		var o []string
		for _, k := range c17KeyNames {
			if k != key {
				o = append(o, k)
			}
		}
		return rapid.SampledFrom(o).Draw(t, "otherKey")
	}
	hashAlg := func() crypto.Hash {
		return rapid.SampledFrom([]crypto.Hash{crypto.SHA256, crypto.SHA512}).Draw(t, "craftHash")
	}
	flipIn := func(lo, hi int, maxBit int) {
		if hi <= lo {
			lo, hi = 0, len(cs.Prov)
		}
		i := lo + c17Uniform(t, "provPos", hi-lo)
		bit := rapid.IntRange(0, maxBit).Draw(t, "provBit")
		cs.Prov = append([]byte{}, cs.Prov...)
		cs.Prov[i] ^= 1 << bit
		param = fmt.Sprintf("@%d.%d", i-lo, bit)
	}
	bodyStart, sigStart := c17ProvRegions(prov)
	// a second, different but valid archive of the same chart coordinates
	substitute := func() []byte {
		alt := spec
		alt.Body = spec.Body + "x"
		d := env.newDir()
		defer os.RemoveAll(d)
		p, err := chartutil.Save(alt.build(), d)
		if err != nil {
			t.Fatalf("harness: %v", err)
		}
		b, _ := os.ReadFile(p)
		return b
	}

	switch mut {
	case "none":
		cs.Pristine = true
	case "archive-tamper":
		cs.Archive, param = c17TamperArchive(t, archive)
	case "archive-substitute":
		cs.Archive = substitute()
	case "attack-patch-digest", "attack-unsigned-prefix", "attack-unsigned-suffix", "attack-second-block", "attack-first-block":
		// somebody without a trusted key replaces the archive and edits the provenance to match
		if rapid.Bool().Draw(t, "attackSubst") {
			cs.Archive, param = substitute(), "substitute"
		} else {
			cs.Archive, param = c17TamperArchive(t, archive)
		}
		newSum := "sha256:" + c17SHA256Hex(cs.Archive)
		unsigned := []byte("name: " + spec.Name + "\n...\nfiles:\n  " + name + ": " + newSum + "\n...\n")
		if rapid.Bool().Draw(t, "fakeHeader") { // dressed up like the start of a signed message
			unsigned = append([]byte("Hash: SHA512\n\n"), unsigned...)
		}
		switch mut {
		case "attack-patch-digest":
			cs.Prov = bytes.Replace(prov, []byte("sha256:"+c17SHA256Hex(archive)), []byte(newSum), 1)
		case "attack-unsigned-prefix":
			cs.Prov = append(append([]byte{}, unsigned...), prov...)
		case "attack-unsigned-suffix":
			cs.Prov = append(append([]byte{}, prov...), append([]byte("\n...\n"), unsigned...)...)
		default:
			ok := otherKey()
			forged := c17Craft(env, ok, c17Message(spec, [][2]string{{name, newSum}}, "block"), hashAlg())
			cs.Signers = []string{key, ok}
			param += "/by-" + ok
			if mut == "attack-first-block" {
				cs.Prov = append(append([]byte{}, forged...), prov...)
			} else {
				cs.Prov = append(append([]byte{}, prov...), forged...)
			}
		}
	case "prov-flip-header":
		flipIn(0, bodyStart, 6)
	case "prov-flip-body":
		flipIn(bodyStart, sigStart, 6)
	case "prov-flip-armor":
		flipIn(sigStart, len(prov), 6)
	case "prov-truncate":
		n := c17Uniform(t, "provLen", len(prov))
		cs.Prov, param = append([]byte{}, prov[:n]...), fmt.Sprintf("@%d", n)
	case "prov-empty":
		// the provenance file exists (the server answers 200) but holds nothing
		cs.Prov, param = []byte{}, "@0"
	case "prov-missing":
		cs.Prov, cs.NoProv = nil, true
	case "prov-digest-digit":
		at := bytes.Index(prov, []byte("sha256:")) + 7
		i := c17Uniform(t, "digit", 64)
		cs.Prov = append([]byte{}, prov...)
		old := cs.Prov[at+i]
		repl := rapid.SampledFrom([]byte("0123456789abcdef")).Filter(func(b byte) bool { return b != old }).Draw(t, "hex")
		cs.Prov[at+i] = repl
		param = fmt.Sprintf("@%d", i)
	case "prov-file-name":
		cs.Prov = bytes.Replace(prov, []byte("  "+name+":"), []byte("  "+c17OtherName(t, name)+":"), 1)
	case "prov-metadata-edit":
		cs.Prov = bytes.Replace(prov, []byte("\nversion: "), []byte("\nversion: 9"), 1)
	case "prov-insert-line":
		cs.Prov = bytes.Replace(prov, []byte("\n...\n"), []byte("\n\n...\n"), 1)
	case "prov-trailing-blanks":
		ws := rapid.SampledFrom([]string{" ", "  ", "\t", " \t "}).Draw(t, "ws")
		cs.Prov = bytes.Replace(prov, []byte("\nname: "+spec.Name+"\n"), []byte("\nname: "+spec.Name+ws+"\n"), 1)
		param = fmt.Sprintf("%q", ws)
	case "prov-crlf":
		cs.Prov = bytes.ReplaceAll(prov, []byte("\n"), []byte("\r\n"))
	case "prov-armor-comment":
		cs.Prov = bytes.Replace(prov, []byte("-----BEGIN PGP SIGNATURE-----\n"), []byte("-----BEGIN PGP SIGNATURE-----\nComment: hello\n"), 1)
	case "prov-hash-header":
		h := rapid.SampledFrom([]string{"Hash: SHA256", "Hash: MD5", "Hash: SHA512, SHA256", "Hash:SHA512", "Comment: x", ""}).Draw(t, "hashHdr")
		repl := h + "\n"
		if h == "" {
			repl = ""
		}
		cs.Prov = bytes.Replace(prov, []byte("Hash: SHA512\n"), []byte(repl), 1)
		param = h
	case "prov-unsigned-prefix":
		cs.Prov = append([]byte("files:\n  "+name+": sha256:0000\n...\n"), prov...)
	case "prov-unsigned-suffix":
		cs.Prov = append(append([]byte{}, prov...), []byte("\n...\nfiles:\n  "+name+": sha256:0000\n")...)
	case "prov-doubled":
		// the genuine block together with a block (any key) that lists a wrong digest, in either order
		ok := otherKey()
		wrong := c17Craft(env, ok, c17Message(spec, [][2]string{{name, "sha256:" + c17SHA256Hex(append([]byte("x"), archive...))}}, "block"), hashAlg())
		cs.Signers = []string{key, ok}
		if rapid.Bool().Draw(t, "genuineFirst") {
			cs.Prov, param = append(append([]byte{}, prov...), wrong...), "genuine-first/by-"+ok
		} else {
			cs.Prov, param = append(append([]byte{}, wrong...), prov...), "genuine-second/by-"+ok
		}
	case "rename":
		cs.Name = c17OtherName(t, name)
		param = cs.Name[len(cs.Name)-8:]
	default: // crafted-*: a message clearsigned with the library (by the drawn key), independent of Helm's signer
		style := rapid.SampledFrom([]string{"block", "flow", "quoted"}).Draw(t, "style")
		h := hashAlg()
		right := "sha256:" + c17SHA256Hex(archive)
		wrong := "sha256:" + c17SHA256Hex(append([]byte("x"), archive...))
		other := c17OtherName(t, name)
		param = fmt.Sprintf("%s/%v", style, h)
		var files [][2]string
		meta := spec
		switch mut {
		case "crafted-ok", "crafted-two-sigpackets":
			files = [][2]string{{name, right}}
		case "crafted-wrong-digest":
			files = [][2]string{{name, wrong}}
		case "crafted-near-digest": // validly signed, one hex digit of the digest differs
			d := []byte(right)
			i := 7 + c17Uniform(t, "digit", 64)
			d[i] = rapid.SampledFrom([]byte("0123456789abcdef")).Filter(func(b byte) bool { return b != d[i] }).Draw(t, "hex")
			files = [][2]string{{name, string(d)}}
			param += fmt.Sprintf("@%d", i-7)
		case "crafted-wrong-name":
			files = [][2]string{{other, right}}
		case "crafted-two-files":
			files = [][2]string{{name, right}, {other, wrong}}
			if rapid.Bool().Draw(t, "order") {
				files[0], files[1] = files[1], files[0]
			}
		case "crafted-two-files-swapped":
			files = [][2]string{{name, wrong}, {other, right}}
			if rapid.Bool().Draw(t, "order") {
				files[0], files[1] = files[1], files[0]
			}
		case "crafted-metadata-mismatch":
			meta.Name, meta.Version = "unrelated", "9.9.9"
			files = [][2]string{{name, right}}
		}
		msg := c17Message(meta, files, style)
		cs.Prov = c17Craft(env, key, msg, h)
		if mut == "crafted-two-sigpackets" {
			// one armor holding two signature packets over the same text: another key's first, the drawn key's second (or reversed)
			ok := otherKey()
			second := c17Craft(env, ok, msg, h)
			cs.Prov = c17MergeSigPackets(t, cs.Prov, second, rapid.Bool().Draw(t, "sigOrder"))
			cs.Signers = []string{key, ok}
			param += "/with-" + ok
		}
	}
	sort.Strings(cs.Signers)

	present := "signer-absent"
	for _, s := range cs.Signers {
		if c17Has(ring, s) {
			present = "signer-present"
		}
	}
	if len(ring) == 0 {
		present = "empty"
	}
	g.Case = cs
	g.Desc = fmt.Sprintf("chart=%s-%s/bulk=%d/desc=%q/kw=%d/key=%s/route=%s/ring=%s/mut=%s%s", spec.Name, spec.Version, spec.BulkKB, spec.Description, len(spec.Keywords), key, route, strings.Join(ring, ","), mut, param)
	g.Labels = []string{"mut:" + mut, "ring:" + present, "key:" + key, "route:" + route}
	return g, false
}

// c17MergeSigPackets rebuilds clearsigned text a with an armor that holds the signature packets of a and b.
func c17MergeSigPackets(t *rapid.T, a, b []byte, aFirst bool) []byte {
	ba, _ := clearsign.Decode(a)
	bb, _ := clearsign.Decode(b)
	if ba == nil || bb == nil {
		t.Fatalf("harness: crafted block does not decode")
	}
	pa, _ := io.ReadAll(ba.ArmoredSignature.Body)
	pb, _ := io.ReadAll(bb.ArmoredSignature.Body)
	if !aFirst {
		pa, pb = pb, pa
	}
	var arm bytes.Buffer
	w, _ := armor.Encode(&arm, openpgp.SignatureType, nil)
	_, _ = w.Write(pa)
	_, _ = w.Write(pb)
	_ = w.Close()
	_, sigStart := c17ProvRegions(a)
	return append(append([]byte{}, a[:sigStart]...), append(arm.Bytes(), '\n')...)
}

// ---------------------------------------------------------------------------------------------------------------
// tests

func c17Extras() {
	evid.Extra("rule", "(every archive that verifies is also reached through a symbolic link under another file name, with its provenance copied next to the link: the file-based entry points must refuse) case = small generated chart (optionally with a multi-line annotation containing '...' / '---' lines) saved with chartutil.Save, signed by Helm (Signatory.ClearSign via entity / key files, or action.Package --sign) with one of 4 fixed keys "+
		"(3 committed RSA-2048 pairs, one sharing its user id with another, + the repo's test key), then ONE mutation class: archive flip/truncate/append/substitute; attacker edits "+
		"(digest patched, unsigned prefix/suffix listing the new digest, extra block by another key); provenance bit flips per region, truncation, zero-length file, missing file, digest digit, file name, metadata edit; "+
		"non-semantic edits (trailing blanks, CRLF, armor comment, Hash header); doubled blocks; renamed archive; library-crafted messages (right/wrong/one-digit-off digest, wrong name, two files, metadata mismatch, two signature packets); "+
		"keyring = signer present (+others) / other keys only / empty. Before every verification an unrelated provenance.Digest that fails half-way may run. Every case runs Signatory.Verify (in-memory keyring, file keyring, and a Signatory that also holds the signer's private key), downloader.VerifyChart, action.Verify.Run, "+
		"ChartPathOptions.LocateChart(Verify) and ChartDownloader.DownloadTo(VerifyAlways) over a local HTTP transport. Oracle: round trip must accept with FileHash=sha256(bytes); must-reject facts "+
		"(no keyring key signed, digest/name absent from the text, prov missing); accept <=> independent reference verifier (first block; any-block differences only noted); all wrappers error iff Signatory.Verify errors. "+
		"non-trivial = the provenance still parses as >=1 clearsigned block; distinct = chart coordinates+description+key+route+ring+mutation with parameters")
	evid.Extra("assumptions", []string{
		"RSA key generation cannot be seeded: keys are fixed committed files, signatures carry the wall-clock time of signing (cases are replayed from their concrete bytes)",
		"the x/crypto openpgp + clearsign packages are trusted primitives (used by Helm and by the reference); what is checked is Helm's use of them",
		"archive names always end in .tgz (VerifyChart refuses other extensions by design); non-.tgz archives are not generated",
		"files values are compared as exact strings 'sha256:<lowercase hex>' (the format Helm writes); other spellings of the same digest are not generated",
		"a provenance file with several signed blocks: only 'accepted although no block vouches' and 'rejected although the first block vouches' are judged",
	})
}

func c17Property(env *c17Env) func(t *rapid.T) {
	return func(t *rapid.T) {
		g, cut := c17Generate(t, env)
		if cut {
			evid.Case([]string{"cut:sign-stage"}, "cut", false, nil)
			return
		}
		v := c17Judge(t, env, g.Case)
		labels := append(g.Labels, fmt.Sprintf("blocks:%d", v.Blocks))
		if v.HelmOK {
			labels = append(labels, "helm:accept", "accepted:"+g.Case.Mutation)
		} else {
			labels = append(labels, "helm:reject")
		}
		if v.Cut {
			labels = append(labels, "cut:known-finding")
		}
		evid.Case(labels, g.Desc, v.Blocks >= 1, map[string]interface{}{
			"desc": g.Desc, "name": g.Case.Name, "ring": g.Case.Ring, "signers": g.Case.Signers, "mutation": g.Case.Mutation,
			"archive_bytes": len(g.Case.Archive), "prov_bytes": len(g.Case.Prov), "blocks": v.Blocks, "reference_accepts": v.RefFirst, "helm_accepts": v.HelmOK,
		})
	}
}

func TestC17(t *testing.T) {
	c17Extras()
	env := c17NewEnv(t)
	rapid.Check(t, c17Property(env))
}

type c17ReplayDoc struct {
	Signature string          `json:"signature"`
	Detail    string          `json:"detail"`
	Case      json.RawMessage `json:"case"`
}

func c17VerifRoot() string {
	if r := os.Getenv("VERIF_ROOT"); r != "" {
		return r
	}
	return "/verif"
}

func c17LoadReplay(path string) (*c17Case, error) {
	if !filepath.IsAbs(path) {
		path = filepath.Join(c17VerifRoot(), path)
	}
	b, err := os.ReadFile(path)
	if err != nil {
		return nil, err
	}
	var d c17ReplayDoc
	if err := json.Unmarshal(b, &d); err != nil {
		return nil, err
	}
	var cs c17Case
	if err := json.Unmarshal(d.Case, &cs); err != nil {
		return nil, err
	}
	return &cs, nil
}

func TestC17_Replay(t *testing.T) {
	p := os.Getenv("VERIF_REPLAY_JSON")
	if p == "" {
		t.Skip("no VERIF_REPLAY_JSON")
	}
	cs, err := c17LoadReplay(p)
	if err != nil {
		t.Fatal(err)
	}
	c17Judge(t, c17NewEnv(t), *cs)
}

func TestC17_Known(t *testing.T) {
	b, err := os.ReadFile(filepath.Join(c17VerifRoot(), "known_findings.json"))
	if err != nil {
		return
	}
	var doc struct {
		Entries []struct {
			Property  string `json:"property"`
			Signature string `json:"signature"`
			Status    string `json:"status"`
			What      string `json:"what"`
			Replay    string `json:"replay"`
		} `json:"entries"`
	}
	if json.Unmarshal(b, &doc) != nil {
		return
	}
	var env *c17Env
	for _, e := range doc.Entries {
		if e.Property != "C17" || e.Status != "known" {
			continue
		}
		cs, err := c17LoadReplay(e.Replay)
		if err != nil {
			fmt.Printf("KNOWN-GONE sig=%s :: replay unreadable: %v\n", e.Signature, err)
			continue
		}
		if env == nil {
			env = c17NewEnv(t)
		}
		vt.CheckKnown(e.Signature, e.What, func(tb vt.TB) { c17Judge(tb, env, *cs) })
	}
}
