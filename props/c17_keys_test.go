package props

// C17 key material: three fixed RSA-2048 OpenPGP key pairs committed (armored) under testdata/pgp/ plus the repo's
// own test key. Go's RSA key generation cannot be seeded, so the keys are generated once (TestC17_GenKeys, gated by
// VERIF_C17_GENKEYS=1) and committed; the checks only ever read them.

import (
	"bytes"
	"fmt"
	"os"
	"path/filepath"
	"sort"
	"testing"
	"time"

	"golang.org/x/crypto/openpgp"        //nolint
	"golang.org/x/crypto/openpgp/armor"  //nolint
	"golang.org/x/crypto/openpgp/packet" //nolint
)

// c17KeyNames lists the key ids used in cases. "a","b","c" are the committed pairs ("c" deliberately carries the same
// user id as "a": trust must follow the key, not the name); "helm" is /repo/pkg/provenance/testdata/helm-test-key.
var c17KeyNames = []string{"a", "b", "c", "helm"}

var c17KeyIdentity = map[string][3]string{
	"a": {"C17 Signer A", "verif fixed test key", "signer-a@verif.test"},
	"b": {"C17 Signer B", "verif fixed test key", "signer-b@verif.test"},
	"c": {"C17 Signer A", "verif fixed test key", "signer-a@verif.test"},
}

func c17RepoDir() string {
	if r := os.Getenv("VERIF_HELM_REPO"); r != "" {
		return r
	}
	return "/repo"
}

func c17TestdataDir() string {
	// the driver runs the test binary from a scratch directory: resolve against the framework root
	if d := filepath.Join(verifRoot(), "props", "testdata", "pgp"); c17DirExists(d) {
		return d
	}
	return filepath.Join("testdata", "pgp")
}

func c17DirExists(d string) bool {
	st, err := os.Stat(d)
	return err == nil && st.IsDir()
}

// TestC17_GenKeys (re)creates the committed key files. Never run by the driver.
func TestC17_GenKeys(t *testing.T) {
	if os.Getenv("VERIF_C17_GENKEYS") != "1" {
		t.Skip("set VERIF_C17_GENKEYS=1 to regenerate testdata/pgp (changes committed files)")
	}
	fixed := time.Date(2024, 1, 2, 3, 4, 5, 0, time.UTC)
	cfg := &packet.Config{RSABits: 2048, Time: func() time.Time { return fixed }}
	for _, k := range []string{"a", "b", "c"} {
		id := c17KeyIdentity[k]
		e, err := openpgp.NewEntity(id[0], id[1], id[2], cfg)
		if err != nil {
			t.Fatal(err)
		}
		var sec, pub bytes.Buffer
		w, _ := armor.Encode(&sec, openpgp.PrivateKeyType, nil)
		if err := e.SerializePrivate(w, cfg); err != nil {
			t.Fatal(err)
		}
		w.Close()
		w, _ = armor.Encode(&pub, openpgp.PublicKeyType, nil)
		if err := e.Serialize(w); err != nil {
			t.Fatal(err)
		}
		w.Close()
		if err := os.WriteFile(filepath.Join(c17TestdataDir(), "c17-key-"+k+".sec.asc"), append(sec.Bytes(), '\n'), 0o644); err != nil {
			t.Fatal(err)
		}
		if err := os.WriteFile(filepath.Join(c17TestdataDir(), "c17-key-"+k+".pub.asc"), append(pub.Bytes(), '\n'), 0o644); err != nil {
			t.Fatal(err)
		}
	}
}

// c17Keys is the loaded key material plus the binary key/keyring files Helm's file-based entry points need.
type c17Keys struct {
	dir  string                     // temp dir holding the binary files
	sec  map[string]*openpgp.Entity // with private key
	pub  map[string]*openpgp.Entity // public only (as read from the .pub files)
	fpr  map[string]string          // hex fingerprint
	secF map[string]string          // binary secret keyring file per key (for action.Package)
}

func c17ReadArmored(path string) (openpgp.EntityList, error) {
	f, err := os.Open(path)
	if err != nil {
		return nil, err
	}
	defer f.Close()
	return openpgp.ReadArmoredKeyRing(f)
}

func c17ReadBinary(path string) (openpgp.EntityList, error) {
	f, err := os.Open(path)
	if err != nil {
		return nil, err
	}
	defer f.Close()
	return openpgp.ReadKeyRing(f)
}

// c17LoadKeys reads all key pairs and writes binary secret-key files into dir.
func c17LoadKeys(dir string) (*c17Keys, error) {
	ks := &c17Keys{dir: dir, sec: map[string]*openpgp.Entity{}, pub: map[string]*openpgp.Entity{}, fpr: map[string]string{}, secF: map[string]string{}}
	for _, k := range c17KeyNames {
		var sec, pub openpgp.EntityList
		var err error
		if k == "helm" {
			base := filepath.Join(c17RepoDir(), "pkg", "provenance", "testdata")
			if sec, err = c17ReadBinary(filepath.Join(base, "helm-test-key.secret")); err != nil {
				return nil, err
			}
			if pub, err = c17ReadBinary(filepath.Join(base, "helm-test-key.pub")); err != nil {
				return nil, err
			}
		} else {
			if sec, err = c17ReadArmored(filepath.Join(c17TestdataDir(), "c17-key-"+k+".sec.asc")); err != nil {
				return nil, err
			}
			if pub, err = c17ReadArmored(filepath.Join(c17TestdataDir(), "c17-key-"+k+".pub.asc")); err != nil {
				return nil, err
			}
		}
		if len(sec) != 1 || len(pub) != 1 || sec[0].PrivateKey == nil || sec[0].PrivateKey.Encrypted {
			return nil, fmt.Errorf("c17 key %q: unexpected key file contents", k)
		}
		if sec[0].PrimaryKey.Fingerprint != pub[0].PrimaryKey.Fingerprint {
			return nil, fmt.Errorf("c17 key %q: secret and public file differ", k)
		}
		ks.sec[k], ks.pub[k] = sec[0], pub[0]
		ks.fpr[k] = fmt.Sprintf("%X", pub[0].PrimaryKey.Fingerprint)
		var buf bytes.Buffer
		if err := sec[0].SerializePrivate(&buf, nil); err != nil {
			return nil, err
		}
		ks.secF[k] = filepath.Join(dir, "c17-sec-"+k+".gpg")
		if err := os.WriteFile(ks.secF[k], buf.Bytes(), 0o600); err != nil {
			return nil, err
		}
	}
	return ks, nil
}

// ringList returns the public entities of the named keys (sorted, de-duplicated names).
func (ks *c17Keys) ringList(names []string) openpgp.EntityList {
	var el openpgp.EntityList
	for _, n := range c17SortedUnique(names) {
		if e := ks.pub[n]; e != nil {
			el = append(el, e)
		}
	}
	return el
}

// ringFile writes the binary public keyring holding exactly the named keys and returns its path. The path is the SAME
// for every key set within a process and the file is rewritten whenever the wanted set changes: trust must follow the
// keyring's current content, so anything that remembers an earlier content of that path shows up as a wrong verdict.
func (ks *c17Keys) ringFile(names []string) (string, error) {
	names = c17SortedUnique(names)
	path := filepath.Join(ks.dir, "c17-ring.gpg")
	var buf bytes.Buffer
	for _, e := range ks.ringList(names) {
		if err := e.Serialize(&buf); err != nil {
			return "", err
		}
	}
	if old, err := os.ReadFile(path); err == nil && bytes.Equal(old, buf.Bytes()) {
		return path, nil
	}
	return path, os.WriteFile(path, buf.Bytes(), 0o644)
}

func c17SortedUnique(in []string) []string {
	seen := map[string]bool{}
	var out []string
	for _, s := range in {
		if !seen[s] {
			seen[s] = true
			out = append(out, s)
		}
	}
	sort.Strings(out)
	return out
}
