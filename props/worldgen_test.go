package props

// Generators and small helpers shared by the world-based properties (C01 C02 C03 C06 C07 C12 C13 C14).

import (
	"encoding/json"
	"fmt"
	"os"
	"path/filepath"
	"regexp"
	"sort"
	"strings"
	"testing"

	"pgregory.net/rapid"

	"verif/internal/vt"
	"verif/internal/world"
)

// worldCase is the concrete, replayable form of a world history (also the "case" part of a written replay JSON).
type worldCase struct {
	Backend string      `json:"backend"`
	Ops     []*world.Op `json:"ops"`
}

type replayDoc struct {
	Signature string          `json:"signature"`
	Detail    string          `json:"detail"`
	Case      json.RawMessage `json:"case"`
}

func verifRoot() string {
	if r := os.Getenv("VERIF_ROOT"); r != "" {
		return r
	}
	return "/verif"
}

type knownEntry struct {
	Property  string `json:"property"`
	Signature string `json:"signature"`
	Status    string `json:"status"`
	What      string `json:"what"`
	Replay    string `json:"replay"`
}

// knownEntries returns the status=known entries of a property from the committed list.
func knownEntries(prop string) []knownEntry {
	b, err := os.ReadFile(filepath.Join(verifRoot(), "known_findings.json"))
	if err != nil {
		return nil
	}
	var doc struct {
		Entries []knownEntry `json:"entries"`
	}
	if json.Unmarshal(b, &doc) != nil {
		return nil
	}
	var out []knownEntry
	for _, e := range doc.Entries {
		if e.Property == prop && e.Status == "known" {
			out = append(out, e)
		}
	}
	return out
}

func loadReplayDoc(path string) (*replayDoc, error) {
	if !filepath.IsAbs(path) {
		path = filepath.Join(verifRoot(), path)
	}
	b, err := os.ReadFile(path)
	if err != nil {
		return nil, err
	}
	var d replayDoc
	if err := json.Unmarshal(b, &d); err != nil {
		return nil, err
	}
	return &d, nil
}

// runKnownWorldCases re-executes the stored concrete history of every listed known finding of prop and prints
// whether its signature still fires (the driver turns this into KNOWN-FINDING lines).
func runKnownWorldCases(t *testing.T, prop string, run func(tb vt.TB, backend string, ops []*world.Op)) {
	for _, e := range knownEntries(prop) {
		d, err := loadReplayDoc(e.Replay)
		if err != nil {
			fmt.Printf("KNOWN-GONE sig=%s :: replay unreadable: %v\n", e.Signature, err)
			continue
		}
		var wc worldCase
		if err := json.Unmarshal(d.Case, &wc); err != nil {
			fmt.Printf("KNOWN-GONE sig=%s :: replay undecodable: %v\n", e.Signature, err)
			continue
		}
		vt.CheckKnown(e.Signature, e.What, func(tb vt.TB) { run(tb, wc.Backend, wc.Ops) })
	}
}

// replayWorldCase re-executes the case in $VERIF_REPLAY_JSON with a real testing.T.
func replayWorldCase(t *testing.T, run func(tb vt.TB, backend string, ops []*world.Op)) {
	p := os.Getenv("VERIF_REPLAY_JSON")
	if p == "" {
		t.Skip("no VERIF_REPLAY_JSON")
	}
	d, err := loadReplayDoc(p)
	if err != nil {
		t.Fatal(err)
	}
	var wc worldCase
	if err := json.Unmarshal(d.Case, &wc); err != nil {
		t.Fatal(err)
	}
	run(t, wc.Backend, wc.Ops)
}

func init() { world.Quiet() }

var wgPool = []world.Res{
	{Kind: "ConfigMap", Name: "a"}, {Kind: "ConfigMap", Name: "b"}, {Kind: "ConfigMap", Name: "c"},
	{Kind: "Secret", Name: "s"}, {Kind: "ServiceAccount", Name: "sa"},
	{Kind: "Service", Name: "svc"}, {Kind: "Deployment", Name: "web"}, {Kind: "Deployment", Name: "api"},
}

var wgHookEvents = []string{"pre-install", "post-install", "pre-upgrade", "post-upgrade", "pre-rollback", "post-rollback", "pre-delete", "post-delete"}

// genResources draws 1..max distinct resources from the pool, each with a variant and (rarely) a resource policy.
func genResources(t *rapid.T, max int, policies []string) []world.Res {
	idx := rapid.SliceOfNDistinct(rapid.IntRange(0, len(wgPool)-1), 1, max, func(i int) int { return i }).Draw(t, "resIdx")
	sort.Ints(idx)
	out := make([]world.Res, 0, len(idx))
	for _, i := range idx {
		r := wgPool[i]
		r.Variant = rapid.IntRange(0, 2).Draw(t, "variant")
		if len(policies) > 0 {
			r.Policy = rapid.SampledFrom(policies).Draw(t, "policy")
		}
		out = append(out, r)
	}
	return out
}

// genSimpleHooks draws a small hook set (ConfigMap/Pod hooks on random events).
func genSimpleHooks(t *rapid.T) []world.HookSpec {
	n := rapid.IntRange(0, 3).Draw(t, "nHooks")
	var hs []world.HookSpec
	for i := 0; i < n; i++ {
		ev := rapid.SliceOfNDistinct(rapid.SampledFrom(wgHookEvents), 1, 3, func(s string) string { return s }).Draw(t, "hookEvents")
		sort.Strings(ev)
		h := world.HookSpec{
			Name:   fmt.Sprintf("h%d", i),
			Kind:   rapid.SampledFrom([]string{"ConfigMap", "Pod", "Job"}).Draw(t, "hookKind"),
			Events: ev,
		}
		if rapid.Bool().Draw(t, "hasWeight") {
			h.HasWeight = true
			h.Weight = rapid.IntRange(-2, 2).Draw(t, "weight")
		}
		switch rapid.IntRange(0, 3).Draw(t, "delPol") {
		case 1:
			h.Policies = []string{"hook-succeeded"}
		case 2:
			h.Policies = []string{"before-hook-creation", "hook-failed"}
		case 3:
			h.Policies = []string{"hook-succeeded", "hook-failed"}
		}
		hs = append(hs, h)
	}
	return hs
}

func jsonOf(v interface{}) string {
	b, err := json.Marshal(v)
	if err != nil {
		return fmt.Sprintf("%+v", v)
	}
	return string(b)
}

func deployedRevs(h []world.Rev) []int {
	var out []int
	for _, r := range h {
		if r.Status == "deployed" {
			out = append(out, r.Version)
		}
	}
	return out
}

func revSet(h []world.Rev) map[int]world.Rev {
	m := map[int]world.Rev{}
	for _, r := range h {
		m[r.Version] = r
	}
	return m
}

func maxRev(h []world.Rev) int {
	m := 0
	for _, r := range h {
		if r.Version > m {
			m = r.Version
		}
	}
	return m
}

// injectedDesc describes the injected event(s) of an operation (used in signatures: root cause = what failed).
func injectedDesc(events []world.Event) string {
	for _, e := range events {
		if e.Injected {
			switch e.Layer {
			case "store":
				note := strings.TrimSuffix(e.Note, " dead")
				if note != "" {
					return "store-" + e.Verb + "(" + note + ")"
				}
				return "store-" + e.Verb
			case "kube":
				return "kube-" + e.Verb
			case "wait":
				return "wait-" + e.Verb
			}
		}
	}
	return "none"
}

func traceOf(lines []string) string { return strings.Join(lines, "\n   ") }

// subsetOf reports whether every field the manifest object specifies is present in live with the same value
// (maps recursively; lists of named maps are matched by "name", other lists element-wise and of equal length).
// It returns "" or a description of the first difference.
func subsetOf(want, live interface{}, path string) string {
	switch w := want.(type) {
	case map[string]interface{}:
		l, ok := live.(map[string]interface{})
		if !ok {
			return fmt.Sprintf("%s: manifest has a map, live has %T", path, live)
		}
		keys := make([]string, 0, len(w))
		for k := range w {
			keys = append(keys, k)
		}
		sort.Strings(keys)
		for _, k := range keys {
			lv, ok := l[k]
			if !ok {
				return fmt.Sprintf("%s.%s: missing in live object", path, k)
			}
			if d := subsetOf(w[k], lv, path+"."+k); d != "" {
				return d
			}
		}
		return ""
	case []interface{}:
		l, ok := live.([]interface{})
		if !ok {
			return fmt.Sprintf("%s: manifest has a list, live has %T", path, live)
		}
		named := len(w) > 0
		for _, e := range w {
			m, ok := e.(map[string]interface{})
			if !ok {
				named = false
				break
			}
			if _, ok := m["name"].(string); !ok {
				named = false
				break
			}
		}
		if named {
			for _, e := range w {
				wm := e.(map[string]interface{})
				found := false
				for _, le := range l {
					if lm, ok := le.(map[string]interface{}); ok && lm["name"] == wm["name"] {
						found = true
						if d := subsetOf(wm, lm, fmt.Sprintf("%s[name=%v]", path, wm["name"])); d != "" {
							return d
						}
					}
				}
				if !found {
					return fmt.Sprintf("%s[name=%v]: missing in live list", path, wm["name"])
				}
			}
			return ""
		}
		if len(w) != len(l) {
			return fmt.Sprintf("%s: list length %d in manifest, %d live", path, len(w), len(l))
		}
		for i := range w {
			if d := subsetOf(w[i], l[i], fmt.Sprintf("%s[%d]", path, i)); d != "" {
				return d
			}
		}
		return ""
	default:
		if jsonOf(want) != jsonOf(live) {
			return fmt.Sprintf("%s: manifest %s, live %s", path, jsonOf(want), jsonOf(live))
		}
		return ""
	}
}

// normObj round-trips an object through JSON so that number types are comparable (int64 vs float64).
func normObj(o map[string]interface{}) map[string]interface{} {
	var out map[string]interface{}
	_ = json.Unmarshal([]byte(jsonOf(o)), &out)
	return out
}

var hookNameRe = regexp.MustCompile(`^h\d+$`)

// isHookKey reports whether an event key (object path, or waiter name list) concerns a generated hook object.
func isHookKey(key string) bool {
	if strings.HasPrefix(key, "[") { // waiter: [Kind/name ...]
		for _, f := range strings.Fields(strings.Trim(key, "[]")) {
			if i := strings.LastIndex(f, "/"); i >= 0 && hookNameRe.MatchString(f[i+1:]) {
				return true
			}
		}
		return false
	}
	i := strings.LastIndex(key, "/")
	return i >= 0 && hookNameRe.MatchString(key[i+1:])
}

// faultPhase names where in the operation the injected fault hit: pre-hook | post-hook | wait | resource-<VERB> | store-...
func faultPhase(events []world.Event) string {
	waited := false
	for _, e := range events {
		if e.Layer == "wait" && (e.Verb == "Wait" || e.Verb == "WaitWithJobs") && !e.Injected {
			waited = true
		}
		if !e.Injected {
			continue
		}
		switch {
		case e.Layer == "store":
			return injectedDesc(events)
		case e.Layer == "wait" && (e.Verb == "Wait" || e.Verb == "WaitWithJobs"):
			return "wait"
		case isHookKey(e.Key) || (e.Layer == "wait" && e.Verb == "WatchUntilReady"):
			if waited {
				return "post-hook"
			}
			return "pre-hook"
		case e.Layer == "wait":
			return "wait-" + e.Verb
		default:
			return "resource-" + e.Verb
		}
	}
	return "none"
}

// genDeployedLookupFault returns a storage READ fault on one of the "which revision is deployed" lookups op makes
// (Kind "" when it makes none).
func genDeployedLookupFault(t *rapid.T, w *world.World, op *world.Op) world.Fault {
	dry := w.DryCount(op)
	total := 0
	var lookups []int
	for _, e := range dry.Events {
		if e.Layer == "store" {
			if e.Verb == "Query" && strings.Contains(e.Key, "deployed") {
				lookups = append(lookups, total)
			}
			total++
		}
	}
	if len(lookups) == 0 {
		return world.Fault{}
	}
	return world.Fault{Kind: "store", K: lookups[rapid.IntRange(0, len(lookups)-1).Draw(t, "deployedLookup")], StoreReads: true}
}

// genPhasedFault draws a cluster-side fault so that the phases of the operation (pre-hook, each request verb on manifest
// resources, readiness wait, post-hook, other waiter calls) are equally likely, and positions within a phase are uniform.
// Positions come from a fault-free dry run of op on a clone of w, so every drawn fault can fire.
func genPhasedFault(t *rapid.T, w *world.World, op *world.Op) world.Fault {
	dry := w.DryCount(op)
	byPhase := map[string][]world.Fault{}
	k, wn, waited := 0, 0, false
	for _, e := range dry.Events {
		switch e.Layer {
		case "kube":
			if e.Key == "/version" {
				continue
			}
			ph := "resource-" + e.Verb
			if isHookKey(e.Key) {
				ph = "pre-hook"
				if waited {
					ph = "post-hook"
				}
			}
			byPhase[ph] = append(byPhase[ph], world.Fault{Kind: "kube", K: k})
			k++
		case "wait":
			ph := "wait-" + e.Verb
			switch e.Verb {
			case "Wait", "WaitWithJobs":
				ph = "wait"
			case "WatchUntilReady":
				ph = "pre-hook"
				if waited {
					ph = "post-hook"
				}
			}
			byPhase[ph] = append(byPhase[ph], world.Fault{Kind: "wait", K: wn})
			wn++
			if e.Verb == "Wait" || e.Verb == "WaitWithJobs" {
				waited = true
			}
		}
	}
	if len(byPhase) == 0 {
		return world.Fault{}
	}
	phases := make([]string, 0, len(byPhase))
	for ph := range byPhase {
		phases = append(phases, ph)
	}
	sort.Strings(phases)
	cands := byPhase[rapid.SampledFrom(phases).Draw(t, "faultPhase")]
	f := cands[rapid.IntRange(0, len(cands)-1).Draw(t, "faultAt")]
	if f.Kind == "kube" {
		f.Code = rapid.SampledFrom([]int{500, 500, 403, 409}).Draw(t, "faultCode")
	}
	return f
}

// revTracker remembers, from what the harness itself observed after every step, which spec produced each stored
// revision's manifest and which revisions were ever seen with status deployed.
type revTracker struct {
	everDep         map[int]string          // revision -> manifest, observed with status deployed after some step
	specOf          map[int]world.ChartSpec // revision -> chart spec that produced its manifest (rollbacks copy the target's)
	everUninstalled bool                    // some revision was seen uninstalled / uninstalling (uninstall --keep-history)
}

func newRevTracker() *revTracker {
	return &revTracker{everDep: map[int]string{}, specOf: map[int]world.ChartSpec{}}
}

// storedHooks is the text of the hooks stored with a revision (path and manifest), in stored order.
func storedHooks(r world.Rev) string {
	if r.Rel == nil {
		return ""
	}
	var sb strings.Builder
	for _, h := range r.Rel.Hooks {
		sb.WriteString(h.Path + "\n" + h.Manifest + "\n--\n")
	}
	return sb.String()
}

// observe records which revisions were seen deployed and which spec each revision's manifest came from.
func (j *revTracker) observe(op *world.Op, res *world.Result) {
	preSet, postSet := revSet(res.Pre), revSet(res.Post)
	if len(res.Post) == 0 {
		j.everUninstalled = false
	}
	// forget revisions that no longer exist (purge, pruning): revision numbers restart after an uninstall
	for v := range j.specOf {
		if _, ok := postSet[v]; !ok {
			delete(j.specOf, v)
		}
	}
	for v := range j.everDep {
		if _, ok := postSet[v]; !ok {
			delete(j.everDep, v)
		}
	}
	var created []int
	for _, r := range res.Post {
		if _, ok := preSet[r.Version]; !ok {
			created = append(created, r.Version)
		}
	}
	sort.Ints(created)
	for i, c := range created {
		delete(j.specOf, c)
		delete(j.everDep, c)
		if i == 0 && (op.Kind == "install" || op.Kind == "upgrade") {
			j.specOf[c] = op.Chart
		}
	}
	// an explicit rollback copies its target revision
	if op.Kind == "rollback" && len(created) > 0 {
		tv := op.Target
		if tv == 0 {
			tv = maxRev(res.Pre) - 1
		}
		if s, ok := j.specOf[tv]; ok {
			j.specOf[created[0]] = s
		}
	}
	// the internal rollback of --atomic copies a stored manifest: map by manifest text, most recent revision first
	for _, c := range created {
		if _, ok := j.specOf[c]; ok {
			continue
		}
		vs := make([]int, 0, len(j.specOf))
		for v := range j.specOf {
			vs = append(vs, v)
		}
		sort.Sort(sort.Reverse(sort.IntSlice(vs)))
		// two revisions may share the manifest text and differ in their hooks: prefer the one whose stored hooks are
		// the same too (attribution only - what the revision must do is still judged against the spec)
		for _, sameHooks := range []bool{true, false} {
			for _, v := range vs {
				if pr, ok := postSet[v]; ok && pr.Manifest == postSet[c].Manifest && (!sameHooks || storedHooks(pr) == storedHooks(postSet[c])) {
					j.specOf[c] = j.specOf[v]
					break
				}
			}
			if _, ok := j.specOf[c]; ok {
				break
			}
		}
	}
	for _, r := range res.Post {
		if r.Status == "deployed" {
			j.everDep[r.Version] = r.Manifest
		}
		if r.Status == "uninstalled" || r.Status == "uninstalling" {
			// the release was removed on purpose with its history kept: what --atomic should return to afterwards is not
			// something the property defines; histories that went through this state are not judged on that clause
			j.everUninstalled = true
		}
	}
}
