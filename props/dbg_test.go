package props

import (
	"encoding/json"
	"os"
	"testing"

	"verif/internal/world"
)

// TestDbgReplay prints every event of a saved world case (development aid): DBG=<replay.json> go test -run TestDbgReplay -v
func TestDbgReplay(t *testing.T) {
	p := os.Getenv("DBG")
	if p == "" {
		t.Skip()
	}
	d, err := loadReplayDoc(p)
	if err != nil {
		t.Fatal(err)
	}
	var wc worldCase
	if err := json.Unmarshal(d.Case, &wc); err != nil {
		t.Fatal(err)
	}
	w := world.New(wc.Backend)
	for _, op := range wc.Ops {
		r := w.Run(op)
		t.Logf("%s\n   err=%v\n   hist=%s", op.Describe(), r.Err, world.HistString(r.Post))
		for _, e := range r.Events {
			t.Log("      ", e)
		}
		t.Log("   cluster:", w.Cluster.Paths())
	}
}
