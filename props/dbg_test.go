package props

import (
	"encoding/json"
	"os"
	"sort"
	"testing"

	"verif/internal/world"
)

// TestDbgReplay prints every event of a saved world case (development aid): DBG=<replay.json> go test -run TestDbgReplay -v
func TestDbgReplay(t *testing.T) {
	p := os.Getenv("DBG")
	if p == "" {
		t.Skip()
	}
	d, err := loadReplayDoc(p)
	if err != nil {
		t.Fatal(err)
	}
	var wc worldCase
	if err := json.Unmarshal(d.Case, &wc); err != nil {
		t.Fatal(err)
	}
	w := world.New(wc.Backend)
	for _, op := range wc.Ops {
		r := w.Run(op)
		t.Logf("%s\n   err=%v\n   hist=%s", op.Describe(), r.Err, world.HistString(r.Post))
		for _, e := range r.Events {
			t.Log("      ", e)
		}
		t.Log("   cluster:", w.Cluster.Paths())
		for _, n := range []string{"probe", "probe-sub"} {
			if o := w.Cluster.Get(world.Path("ConfigMap", n, "default")); o != nil {
				t.Logf("   %s: %v", n, o["data"])
			}
		}
	}
}

// TestDbgC09 runs one C09 case (DBG09=<replay.json>) and prints every event in global order.
func TestDbgC09(t *testing.T) {
	p := os.Getenv("DBG09")
	if p == "" {
		t.Skip()
	}
	d, err := loadReplayDoc(p)
	if err != nil {
		t.Fatal(err)
	}
	var c c09Case
	if err := json.Unmarshal(d.Case, &c); err != nil {
		t.Fatal(err)
	}
	if os.Getenv("DBG09_NOJUDGE") == "" {
		taken, nt, out := c09Run(t, c)
		t.Logf("taken=%v nontrivial=%v outcome=%s", taken, nt, out)
	}
	// once more, printing every event in global order
	w := world.New(c.Backend)
	w.Run(&world.Op{Kind: "install", DisableHooks: true, Chart: c09Chart(0, 0)})
	if c.Start == "deployed-long" {
		w.Run(&world.Op{Kind: "upgrade", DisableHooks: true, Chart: c09Chart(0, 1)})
		w.Run(&world.Op{Kind: "upgrade", DisableHooks: true, Chart: c09Chart(0, 2)})
	}
	cursor := 0
	rs, _, err := w.RunConcurrent(c.Ops, func(_ int, waiting []int) int {
		for cursor < len(c.Schedule) {
			id := c.Schedule[cursor]
			cursor++
			for k, wid := range waiting {
				if wid == id {
					return k
				}
			}
		}
		return 0
	}, 20e9)
	t.Log(err)
	var evs []world.Event
	for i, r := range rs {
		t.Logf("op%d err=%v", i, r.Err)
		evs = append(evs, r.Events...)
	}
	sort.Slice(evs, func(i, j int) bool { return evs[i].Seq < evs[j].Seq })
	for _, e := range evs {
		t.Log("   ", e)
	}
	t.Log(world.HistString(w.History()))
}
