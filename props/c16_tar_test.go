package props

// C16 helpers: a raw tar encoder (archive/tar's Writer refuses or normalises most hostile headers, so the
// streams are built byte by byte), the sandbox snapshot used as oracle, and a lazily generated gzip stream
// that counts how much decompressed data a consumer pulled.

import (
	"bytes"
	"compress/gzip"
	"crypto/sha256"
	"encoding/json"
	"fmt"
	"io"
	"io/fs"
	"os"
	"path/filepath"
	"sort"
	"strconv"
	"strings"
	"unicode"
	"unicode/utf8"
)

// c16S is a string that survives JSON byte for byte (names may hold invalid UTF-8, NUL, …): printable
// strings are written as they are, everything else as a Go-quoted ASCII literal (recognisable by its leading quote).
type c16S string

func (s c16S) MarshalJSON() ([]byte, error) {
	plain := utf8.ValidString(string(s)) && !strings.HasPrefix(string(s), "\"")
	for _, r := range string(s) {
		if r < 0x20 || r == 0x7f || r == utf8.RuneError || !unicode.IsPrint(r) {
			plain = false
		}
	}
	if plain {
		return json.Marshal(string(s))
	}
	return json.Marshal(strconv.QuoteToASCII(string(s)))
}

func (s *c16S) UnmarshalJSON(b []byte) error {
	var q string
	if err := json.Unmarshal(b, &q); err != nil {
		return err
	}
	if !strings.HasPrefix(q, "\"") {
		*s = c16S(q)
		return nil
	}
	u, err := strconv.Unquote(q)
	if err != nil {
		return fmt.Errorf("c16S %q: %v", q, err)
	}
	*s = c16S(u)
	return nil
}

// c16Entry is one tar member as it will be written.
type c16Entry struct {
	Name     c16S       `json:"name"`
	Type     string     `json:"type"` // typeflag character: 0 reg, "" NUL (old reg), 7 cont, 5 dir, 2 symlink, 1 hard link, 3 char, 4 block, 6 fifo, S gnu sparse, g pax global, other = unknown
	Link     c16S       `json:"link,omitempty"`
	Body     c16S       `json:"body,omitempty"`
	Enc      string     `json:"enc,omitempty"` // ustar (default) | v7 | gnu (L/K long-name members) | pax (x member with path=/linkpath=)
	Mode     int64      `json:"mode,omitempty"`
	DeclSize *int64     `json:"decl_size,omitempty"` // size field when it should differ from len(body)
	RealSize int64      `json:"real_size,omitempty"` // type S: logical size of the old-GNU sparse member (body = stored data at offset 0)
	PaxSize  bool       `json:"pax_size,omitempty"`  // enc pax: also emit a size= record (the ustar size field is then written as 0)
	Nested   []c16Entry `json:"nested,omitempty"`    // body = gzip(tar(nested))
}

func (e *c16Entry) typeflag() byte {
	if e.Type == "" {
		return 0
	}
	return e.Type[0]
}

func c16HeaderOnly(tf byte) bool { return tf >= '1' && tf <= '6' }

// c16Numeric writes v into a numeric header field: zero padded octal with a trailing NUL, or GNU base-256
// when it does not fit.
func c16Numeric(f []byte, v int64) {
	s := strconv.FormatInt(v, 8)
	if v >= 0 && len(s) <= len(f)-1 {
		for i := range f {
			f[i] = '0'
		}
		copy(f[len(f)-1-len(s):], s)
		f[len(f)-1] = 0
		return
	}
	for i := len(f) - 1; i >= 0; i-- {
		f[i] = byte(v)
		v >>= 8
	}
	f[0] |= 0x80
}

func c16Checksum(h []byte) {
	for i := 148; i < 156; i++ {
		h[i] = ' '
	}
	var sum int64
	for _, c := range h[:512] {
		sum += int64(c)
	}
	s := fmt.Sprintf("%06o", sum)
	copy(h[148:154], s)
	h[154] = 0
	h[155] = ' '
}

func c16RawHeader(name, link string, tf byte, size, mode int64, enc string) []byte {
	h := make([]byte, 512)
	prefix := ""
	if len(name) > 100 && enc != "v7" {
		// ustar prefix split at a slash when possible
		for i := len(name) - 101; i < len(name) && i <= 155; i++ {
			if i > 0 && name[i] == '/' {
				prefix, name = name[:i], name[i+1:]
				break
			}
		}
	}
	copy(h[0:100], name)
	c16Numeric(h[100:108], mode)
	c16Numeric(h[108:116], 0)
	c16Numeric(h[116:124], 0)
	c16Numeric(h[124:136], size)
	c16Numeric(h[136:148], 0)
	h[156] = tf
	copy(h[157:257], link)
	switch enc {
	case "v7":
	case "gnu":
		copy(h[257:265], "ustar  \x00")
	default:
		copy(h[257:263], "ustar\x00")
		copy(h[263:265], "00")
		copy(h[345:500], prefix)
	}
	c16Checksum(h)
	return h
}

func c16Pad(b *bytes.Buffer) {
	if r := b.Len() % 512; r != 0 {
		b.Write(make([]byte, 512-r))
	}
}

func c16PaxRecord(k, v string) string {
	// "<len> <k>=<v>\n" where len counts itself
	base := len(k) + len(v) + 3
	n := base + len(strconv.Itoa(base))
	if len(strconv.Itoa(n)) != len(strconv.Itoa(base)) {
		n = base + len(strconv.Itoa(n))
	}
	return fmt.Sprintf("%d %s=%s\n", n, k, v)
}

// c16Tar encodes entries; subst expands the $ROOT/$OUT/$DEST placeholders of names and link names. It returns
// the stream and the offsets of every header block written (for checksum repair after mutation).
func c16Tar(entries []c16Entry, subst func(string) string, endMarker bool) ([]byte, []int) {
	var b bytes.Buffer
	var hdrs []int
	put := func(h []byte) {
		hdrs = append(hdrs, b.Len())
		b.Write(h)
	}
	for i := range entries {
		e := &entries[i]
		name, link := subst(string(e.Name)), subst(string(e.Link))
		tf := e.typeflag()
		body := []byte(e.Body)
		if e.Nested != nil {
			inner, _ := c16Tar(e.Nested, subst, true)
			body = c16Gzip(inner, 0, nil)
		}
		size := int64(len(body))
		if c16HeaderOnly(tf) {
			size = 0
		}
		if e.DeclSize != nil {
			size = *e.DeclSize
		}
		mode := e.Mode
		if mode == 0 {
			mode = 0o644
		}
		switch e.Enc {
		case "gnu":
			if len(link) > 100 || strings.Contains(link, "\x00") {
				put(c16RawHeader("././@LongLink", "", 'K', int64(len(link)+1), 0o644, "gnu"))
				b.WriteString(link)
				b.WriteByte(0)
				c16Pad(&b)
			}
			put(c16RawHeader("././@LongLink", "", 'L', int64(len(name)+1), 0o644, "gnu"))
			b.WriteString(name)
			b.WriteByte(0)
			c16Pad(&b)
		case "pax":
			recs := c16PaxRecord("path", name)
			if link != "" {
				recs += c16PaxRecord("linkpath", link)
			}
			hsize := size
			if e.PaxSize {
				recs += c16PaxRecord("size", strconv.FormatInt(size, 10))
				hsize = 0
			}
			put(c16RawHeader("PaxHeaders.0/x", "", 'x', int64(len(recs)), 0o644, "ustar"))
			b.WriteString(recs)
			c16Pad(&b)
			if len(name) > 100 {
				name = name[:100]
			}
			if len(link) > 100 {
				link = link[:100]
			}
			h := c16RawHeader(name, link, tf, hsize, mode, "ustar")
			put(h)
			if !c16HeaderOnly(tf) || e.DeclSize != nil {
				b.Write(body)
				c16Pad(&b)
			}
			continue
		}
		if tf == 'S' {
			// old GNU sparse: one data fragment at offset 0 holding the body, logical size RealSize
			h := c16RawHeader(name, link, tf, int64(len(body)), mode, "gnu")
			c16Numeric(h[386:398], 0)
			c16Numeric(h[398:410], int64(len(body)))
			c16Numeric(h[410:422], e.RealSize)
			c16Numeric(h[422:434], 0)
			c16Numeric(h[483:495], e.RealSize)
			c16Checksum(h)
			put(h)
			b.Write(body)
			c16Pad(&b)
			continue
		}
		put(c16RawHeader(name, link, tf, size, mode, e.Enc))
		if !c16HeaderOnly(tf) || e.DeclSize != nil {
			b.Write(body)
			c16Pad(&b)
		}
	}
	if endMarker {
		b.Write(make([]byte, 1024))
	}
	return b.Bytes(), hdrs
}

// c16Gzip compresses data; split > 0 cuts the input into two gzip members at that offset (Go's reader
// concatenates members); trailer is appended raw after the last member.
func c16Gzip(data []byte, split int, trailer []byte) []byte {
	var out bytes.Buffer
	parts := [][]byte{data}
	if split > 0 && split < len(data) {
		parts = [][]byte{data[:split], data[split:]}
	}
	for _, p := range parts {
		zw := gzip.NewWriter(&out)
		zw.Write(p)
		zw.Close()
	}
	out.Write(trailer)
	return out.Bytes()
}

// ---- sandbox snapshot ---------------------------------------------------------------------------------------

// c16Snapshot describes every path below root without following symbolic links. Paths listed in noTime
// (and everything below them) are described without modification time: these are the places a call may
// legitimately write to, whose exact state is not judged.
func c16Snapshot(root string, noTime ...string) map[string]string {
	m := map[string]string{}
	_ = filepath.WalkDir(root, func(p string, d fs.DirEntry, err error) error {
		rel, _ := filepath.Rel(root, p)
		if err != nil {
			m[rel] = "ERR:" + err.Error()
			return nil
		}
		info, ierr := os.Lstat(p)
		if ierr != nil {
			m[rel] = "ERR:" + ierr.Error()
			return nil
		}
		mt := fmt.Sprintf(" mtime=%d", info.ModTime().UnixNano())
		for _, nt := range noTime {
			if rel == nt || strings.HasPrefix(rel, nt+"/") {
				mt = ""
			}
		}
		switch {
		case info.Mode()&os.ModeSymlink != 0:
			tgt, _ := os.Readlink(p)
			m[rel] = "L:" + tgt
		case info.IsDir():
			m[rel] = fmt.Sprintf("D:%o%s", info.Mode().Perm(), mt)
		case info.Mode().IsRegular():
			data, rerr := os.ReadFile(p)
			if rerr != nil {
				m[rel] = fmt.Sprintf("F:%o unreadable size=%d%s", info.Mode().Perm(), info.Size(), mt)
			} else {
				m[rel] = fmt.Sprintf("F:%o %x size=%d%s", info.Mode().Perm(), sha256.Sum256(data), len(data), mt)
			}
		default:
			m[rel] = "O:" + info.Mode().String() + mt
		}
		return nil
	})
	return m
}

// c16Diff lists the paths whose description differs, sorted.
func c16Diff(before, after map[string]string) []string {
	var out []string
	for k, v := range after {
		if bv, ok := before[k]; !ok {
			out = append(out, k)
		} else if bv != v {
			out = append(out, k)
		}
	}
	for k := range before {
		if _, ok := after[k]; !ok {
			out = append(out, k)
		}
	}
	sort.Strings(out)
	return out
}

func c16Under(rel, dir string) bool { return rel == dir || strings.HasPrefix(rel, dir+"/") }

// ---- lazily generated gzip stream -----------------------------------------------------------------------------

// c16Lazy is a gzip stream produced on demand from a chunk generator. fed counts the decompressed bytes
// generated so far; because a chunk is only generated when the consumer's Read finds the buffer empty, fed is
// at most one chunk ahead of what the consumer had to pull.
type c16Lazy struct {
	next func() []byte // nil = end of stream
	zw   *gzip.Writer
	out  bytes.Buffer
	fed  int64
	done bool
}

func c16NewLazy(level int, next func() []byte) *c16Lazy {
	l := &c16Lazy{next: next}
	l.zw, _ = gzip.NewWriterLevel(&l.out, level)
	return l
}

func (l *c16Lazy) Read(p []byte) (int, error) {
	for l.out.Len() == 0 && !l.done {
		c := l.next()
		if c == nil {
			l.zw.Close()
			l.done = true
			break
		}
		l.zw.Write(c)
		l.zw.Flush()
		l.fed += int64(len(c))
	}
	if l.out.Len() == 0 {
		return 0, io.EOF
	}
	return l.out.Read(p)
}
