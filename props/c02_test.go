package props

// C02 — after a successful operation the cluster matches the recorded manifest.

import (
	"encoding/json"
	"fmt"
	"os"
	"sort"
	"strings"
	"testing"

	"pgregory.net/rapid"

	"verif/internal/evid"
	"verif/internal/vt"
	"verif/internal/world"
)

var c02Policies = []string{"", "", "", "", "keep", "keep", " Keep ", "other"}

// c02Step is one element of a C02 history: an operation, or an out-of-band action on the cluster.
type c02Step struct {
	Op  *world.Op `json:"op,omitempty"`
	OOB *c02OOB   `json:"oob,omitempty"`
}

type c02OOB struct {
	Kind string `json:"kind"` // edit-field | add-foreign | set-keep | unset-keep | delete
	Path string `json:"path"`
	Key  string `json:"key"`
}

func c02Bystanders() map[string]map[string]interface{} {
	cm := func(ns, name string, extra map[string]interface{}) map[string]interface{} {
		md := map[string]interface{}{"name": name, "namespace": ns}
		for k, v := range extra {
			md[k] = v
		}
		return map[string]interface{}{"apiVersion": "v1", "kind": "ConfigMap", "metadata": md, "data": map[string]interface{}{"bystander": "1"}}
	}
	other := map[string]interface{}{
		"labels":      map[string]interface{}{"app.kubernetes.io/managed-by": "Helm"},
		"annotations": map[string]interface{}{"meta.helm.sh/release-name": "other", "meta.helm.sh/release-namespace": "default"},
	}
	return map[string]map[string]interface{}{
		"/api/v1/namespaces/default/configmaps/zz":             cm("default", "zz", nil),
		"/api/v1/namespaces/other/configmaps/a":                cm("other", "a", nil),
		"/api/v1/namespaces/other/configmaps/b":                cm("other", "b", other),
		"/api/v1/namespaces/default/configmaps/owned-by-other": cm("default", "owned-by-other", other),
		"/api/v1/namespaces/default/serviceaccounts/a":         {"apiVersion": "v1", "kind": "ServiceAccount", "metadata": map[string]interface{}{"name": "a", "namespace": "default"}},
		"/api/v1/namespaces/default/secrets/web":               {"apiVersion": "v1", "kind": "Secret", "metadata": map[string]interface{}{"name": "web", "namespace": "default"}, "type": "Opaque"},
	}
}

func c02GenOp(t *rapid.T, first bool, ver int) *world.Op {
	kinds := []string{"upgrade", "upgrade", "upgrade", "rollback", "uninstall", "install"}
	if first {
		kinds = []string{"install"}
	}
	op := &world.Op{Kind: rapid.SampledFrom(kinds).Draw(t, "op")}
	op.DisableHooks = rapid.Bool().Draw(t, "noHooks")
	switch op.Kind {
	case "install":
		op.Replace = !first
	case "upgrade":
		op.CleanupOnFail = rapid.Bool().Draw(t, "cleanup")
		op.Force = rapid.IntRange(0, 5).Draw(t, "force") == 0
	case "rollback":
		op.Target = rapid.IntRange(0, 4).Draw(t, "target")
	case "uninstall":
		op.KeepHistory = rapid.Bool().Draw(t, "keepHistory")
	}
	if op.Kind == "install" || op.Kind == "upgrade" {
		op.Chart = world.ChartSpec{Version: ver, Resources: genResources(t, 4, c02Policies)}
		// a template may name a namespace of its own; the same kind and name there is a different object (a resource
		// that moves between namespaces from one revision to the next is stale in the old place)
		for k := range op.Chart.Resources {
			if rapid.IntRange(0, 6).Draw(t, "explicitNamespace") == 0 {
				op.Chart.Resources[k].NS = "other"
			}
		}
		// an upgrade to a chart version that renders no resource at all (everything switched off): all of the deployed
		// revision's resources are stale then
		if op.Kind == "upgrade" && rapid.IntRange(0, 9).Draw(t, "rendersNothing") == 0 {
			op.Chart.Resources = nil
		}
		// one object of a kind that the cluster serves under two API versions; charts move from one to the other
		if rapid.IntRange(0, 2).Draw(t, "withHPA") == 0 {
			op.Chart.Resources = append(op.Chart.Resources, world.Res{Kind: "HorizontalPodAutoscaler", Name: "hpa", Variant: rapid.IntRange(0, 2).Draw(t, "hpaVariant"),
				APIVer: rapid.SampledFrom([]string{"", "autoscaling/v2"}).Draw(t, "hpaAPIVersion")})
		}
		if !op.DisableHooks {
			op.Chart.Hooks = genSimpleHooks(t)
		}
	}
	// earlier operations may fail: a cluster-side fault at low weight (the faulted operation itself is not judged)
	// (an uninstall interrupted half-way - status uninstalling, some objects gone - is what the retry then has to finish)
	if n := rapid.IntRange(0, 5).Draw(t, "faulted"); n == 0 || (n == 1 && op.Kind == "uninstall") {
		op.Fault = world.Fault{Kind: rapid.SampledFrom([]string{"kube", "wait"}).Draw(t, "faultKind"), K: rapid.IntRange(0, 8).Draw(t, "faultK")}
	}
	return op
}

func annotationsOf(o map[string]interface{}) map[string]interface{} {
	md, _ := o["metadata"].(map[string]interface{})
	if md == nil {
		return nil
	}
	an, _ := md["annotations"].(map[string]interface{})
	return an
}

func livePolicy(o map[string]interface{}) (string, bool) {
	an := annotationsOf(o)
	if an == nil {
		return "", false
	}
	v, ok := an["helm.sh/resource-policy"].(string)
	return v, ok
}

// c02ApplyOOB performs an out-of-band action on a live object. It returns false if the object does not exist.
func c02ApplyOOB(c *world.Cluster, a *c02OOB) bool {
	o := c.Get(a.Path)
	if o == nil {
		return false
	}
	md, _ := o["metadata"].(map[string]interface{})
	if md == nil {
		md = map[string]interface{}{}
		o["metadata"] = md
	}
	setAnn := func(k string, v interface{}) {
		an, _ := md["annotations"].(map[string]interface{})
		if an == nil {
			an = map[string]interface{}{}
			md["annotations"] = an
		}
		if v == nil {
			delete(an, k)
		} else {
			an[k] = v
		}
	}
	switch a.Kind {
	case "delete":
		c.Remove(a.Path)
		return true
	case "set-keep":
		setAnn("helm.sh/resource-policy", "keep")
	case "unset-keep":
		setAnn("helm.sh/resource-policy", nil)
	case "add-foreign":
		lb, _ := md["labels"].(map[string]interface{})
		if lb == nil {
			lb = map[string]interface{}{}
			md["labels"] = lb
		}
		lb["foreign"] = "x"
		if d, ok := o["data"].(map[string]interface{}); ok {
			d["foreign"] = "y"
		}
	case "edit-field":
		switch o["kind"] {
		case "ConfigMap":
			if d, ok := o["data"].(map[string]interface{}); ok {
				d["v"] = "tampered"
			}
		case "Secret":
			if d, ok := o["stringData"].(map[string]interface{}); ok {
				d["v"] = "tampered"
			}
		case "ServiceAccount":
			if lb, ok := md["labels"].(map[string]interface{}); ok {
				lb["variant"] = "tampered"
			}
		case "Service":
			if sp, ok := o["spec"].(map[string]interface{}); ok {
				if ps, ok := sp["ports"].([]interface{}); ok && len(ps) > 0 {
					if p0, ok := ps[0].(map[string]interface{}); ok {
						p0["targetPort"] = float64(1)
					}
				}
			}
		case "Deployment":
			if sp, ok := o["spec"].(map[string]interface{}); ok {
				sp["replicas"] = float64(9)
				if tp, ok := sp["template"].(map[string]interface{}); ok {
					if ps, ok := tp["spec"].(map[string]interface{}); ok {
						if cs, ok := ps["containers"].([]interface{}); ok && len(cs) > 0 {
							if c0, ok := cs[0].(map[string]interface{}); ok {
								c0["image"] = "tampered:latest"
							}
						}
					}
				}
			}
		}
	}
	c.Put(a.Path, o)
	return true
}

type c02Judge struct {
	t     vt.TB
	w     *world.World
	steps []c02Step
	trace []string
	*revTracker
	allKeys    map[string]bool   // object paths named by a manifest or hook of any revision of this release (incl. attempted)
	bystanders map[string]string // path -> snapshot
	oobSince   map[string]string // path -> kind of the out-of-band action since the last operation
}

func newC02Judge(t vt.TB, w *world.World) *c02Judge {
	j := &c02Judge{t: t, w: w, revTracker: newRevTracker(), allKeys: map[string]bool{}, bystanders: map[string]string{}, oobSince: map[string]string{}}
	for p, o := range c02Bystanders() {
		w.Cluster.Put(p, o)
	}
	snap := w.Cluster.Snapshot()
	for p := range c02Bystanders() {
		j.bystanders[p] = snap[p]
	}
	return j
}

func (j *c02Judge) fail(sig, detail string) bool {
	return vt.Violation(j.t, sig, detail+"\n   "+traceOf(j.trace), map[string]interface{}{"backend": j.w.Backend.Kind, "steps": j.steps, "trace": j.trace})
}

func normPolicy(p string) string { return strings.ToLower(strings.TrimSpace(p)) }

// judge checks one executed operation. preCluster is the cluster snapshot taken right before it.
func (j *c02Judge) judge(op *world.Op, res *world.Result, preCluster map[string]string, preLive map[string]map[string]interface{}) (cut bool) {
	// the spec of the revision deployed before the operation (what the property calls "the previously deployed manifest")
	var prevSpec *world.ChartSpec
	if d := deployedRevs(res.Pre); len(d) == 1 {
		if s, ok := j.specOf[d[0]]; ok {
			prevSpec = &s
		}
	}
	var latestSpec *world.ChartSpec
	if len(res.Pre) > 0 {
		if s, ok := j.specOf[res.Pre[len(res.Pre)-1].Version]; ok {
			latestSpec = &s
		}
	}
	if op.Kind == "install" || op.Kind == "upgrade" {
		for _, r := range op.Chart.Resources {
			j.allKeys[r.Path()] = true
		}
		for _, h := range op.Chart.Hooks {
			j.allKeys[h.Path()] = true
		}
	}
	defer func() {
		j.observe(op, res)
		j.oobSince = map[string]string{}
	}()
	ctx := op.Kind
	if d := deployedRevs(res.Pre); op.Kind == "rollback" && len(d) == 1 && d[0] != maxRev(res.Pre) {
		ctx += "/last-revision-is-not-the-deployed-one" // rollback diffs against the last revision's manifest
	}
	hs := fmt.Sprintf("pre %s post %s", world.HistString(res.Pre), world.HistString(res.Post))

	// (c) always: bystanders untouched, and every accepted write targets an object of this release
	snap := j.w.Cluster.Snapshot()
	for p, want := range j.bystanders {
		if snap[p] != want {
			return j.fail("C02:bystander-changed/"+ctx, fmt.Sprintf("%s\n   before %s\n   after  %s", p, want, snap[p]))
		}
	}
	for _, e := range res.Mutations() {
		if e.Code < 300 && !j.allKeys[e.Key] {
			return j.fail("C02:write-to-object-outside-the-release/"+ctx, e.String())
		}
	}
	if res.Err != nil || res.Fired || op.DryRun {
		return false
	}
	for _, e := range res.Events {
		if e.Layer == "kube" && e.Code >= 400 && e.Code != 404 {
			return false // the cluster did not accept every request
		}
	}
	switch op.Kind {
	case "install", "upgrade", "rollback":
		if len(res.Post) == 0 {
			return false
		}
		top := res.Post[len(res.Post)-1]
		var newSpec world.ChartSpec
		if op.Kind == "rollback" {
			tv := op.Target
			if tv == 0 {
				tv = maxRev(res.Pre) - 1
			}
			s, ok := j.specOf[tv]
			if !ok {
				return false
			}
			newSpec = s
		} else {
			newSpec = op.Chart
		}
		_ = top
		// (a) every resource of the new manifest exists with every field the manifest specifies
		if d := clusterMatches(j.w.Cluster, newSpec); d != "" {
			oob := ""
			for _, r := range newSpec.Resources {
				if k, ok := j.oobSince[r.Path()]; ok && strings.HasPrefix(d, r.Key()) {
					oob = "/after-out-of-band-" + k
				}
			}
			return j.fail("C02:live-object-does-not-match-manifest/"+ctx+oob, d+"; "+hs)
		}
		// (b) resources of the previously deployed manifest that the new one no longer names
		if prevSpec != nil {
			nw := newSpec.ResByKey()
			for _, r := range prevSpec.Resources {
				if _, still := nw[r.Key()]; still {
					continue
				}
				before := preLive[r.Path()]
				after := j.w.Cluster.Get(r.Path())
				pol, has := "", false
				if before != nil {
					pol, has = livePolicy(before)
				}
				switch {
				case before == nil:
					// already gone before the operation
				case has && pol == "keep":
					if after == nil {
						return j.fail("C02:kept-resource-deleted/"+ctx, fmt.Sprintf("%s carried helm.sh/resource-policy: keep on the live object but was deleted; %s", r.Key(), hs))
					}
				case has && normPolicy(pol) == "keep":
					evid.Note("C02:not-judged/live-policy-spelled-" + fmt.Sprintf("%q", pol))
				default:
					if after != nil {
						return j.fail("C02:stale-resource-not-deleted/"+ctx, fmt.Sprintf("%s was in the previously deployed manifest, is not in the new one, has no keep policy (policy %q) and still exists; %s", r.Key(), pol, hs))
					}
				}
			}
		}
	case "uninstall":
		if latestSpec == nil {
			return false
		}
		if res.Pre[len(res.Pre)-1].Status == "uninstalled" {
			// the release had already been uninstalled (keep-history): this call only purges the records
			return false
		}
		info := ""
		if res.Uninst != nil {
			info = res.Uninst.Info
		}
		for _, r := range latestSpec.Resources {
			before := preLive[r.Path()]
			after := j.w.Cluster.Get(r.Path())
			manifestKeep := normPolicy(r.Policy) == "keep"
			if before != nil {
				if lp, has := livePolicy(before); (has && normPolicy(lp) == "keep") != manifestKeep {
					evid.Note("C02:not-judged/uninstall-live-and-manifest-policy-disagree")
					continue
				}
			}
			if manifestKeep {
				if before != nil && after == nil {
					return j.fail("C02:uninstall-deleted-kept-resource/uninstall", r.Key()+"; "+hs)
				}
				if before != nil && jsonOf(before) != jsonOf(after) {
					return j.fail("C02:uninstall-changed-kept-resource/uninstall", r.Key()+"; "+hs)
				}
				if !strings.Contains(info, "["+r.Kind+"] "+r.Name) {
					return j.fail("C02:uninstall-response-does-not-list-kept-resource/uninstall", fmt.Sprintf("%s not in %q; %s", r.Key(), info, hs))
				}
			} else if after != nil {
				return j.fail("C02:uninstall-left-resource/uninstall", fmt.Sprintf("%s (manifest policy %q) still exists; %s", r.Key(), r.Policy, hs))
			}
		}
	}
	return false
}

func c02Line(op *world.Op, res *world.Result) string {
	line := fmt.Sprintf("%s => err=%v fired=%v %s", op.Describe(), res.Err != nil, res.Fired, world.HistString(res.Post))
	if res.Err != nil {
		line += fmt.Sprintf("  (%.140s)", res.Err.Error())
	}
	return line
}

func (j *c02Judge) liveOf() map[string]map[string]interface{} {
	out := map[string]map[string]interface{}{}
	for _, p := range j.w.Cluster.Paths() {
		out[p] = j.w.Cluster.Get(p)
	}
	return out
}

func (j *c02Judge) runStep(s c02Step) (cut bool, res *world.Result) {
	j.steps = append(j.steps, s)
	if s.OOB != nil {
		if c02ApplyOOB(j.w.Cluster, s.OOB) {
			j.oobSince[s.OOB.Path] = s.OOB.Kind
			j.trace = append(j.trace, fmt.Sprintf("out-of-band %s %s", s.OOB.Kind, s.OOB.Key))
		} else {
			j.trace = append(j.trace, fmt.Sprintf("out-of-band %s %s (object absent, no effect)", s.OOB.Kind, s.OOB.Key))
		}
		return false, nil
	}
	pre := j.w.Cluster.Snapshot()
	preLive := j.liveOf()
	res = j.w.Run(s.Op)
	j.trace = append(j.trace, c02Line(s.Op, res))
	return j.judge(s.Op, res, pre, preLive), res
}

func c02RunCase(tb vt.TB, backend string, steps []c02Step) {
	w := world.New(backend)
	j := newC02Judge(tb, w)
	for _, s := range steps {
		if cut, _ := j.runStep(s); cut {
			return
		}
	}
}

func c02Prop(t *rapid.T) {
	backend := rapid.SampledFrom([]string{"memory", "secret"}).Draw(t, "backend")
	w := world.New(backend)
	j := newC02Judge(t, w)
	maxOps := 6
	if vt.Thorough() {
		maxOps = 10
	}
	nops := rapid.IntRange(1, maxOps).Draw(t, "nops")
	lbl := map[string]bool{}
	var fp []string
	nontrivial := false
	retryUninstall := false
	for i := 0; i < nops; i++ {
		// out-of-band actions on objects the release currently manages
		if len(w.History()) > 0 {
			for n := rapid.IntRange(0, 2).Draw(t, "nOOB"); n > 0; n-- {
				r := wgPool[rapid.IntRange(0, len(wgPool)-1).Draw(t, "oobRes")]
				a := &c02OOB{Kind: rapid.SampledFrom([]string{"edit-field", "add-foreign", "set-keep", "unset-keep", "delete"}).Draw(t, "oobKind"), Path: r.Path(), Key: r.Key()}
				j.runStep(c02Step{OOB: a})
				fp = append(fp, "oob:"+a.Kind+":"+a.Key)
			}
		}
		op := c02GenOp(t, len(w.History()) == 0, i+1)
		// an uninstall that failed half-way is usually simply run again
		if h := w.History(); retryUninstall && len(h) > 0 && rapid.IntRange(0, 2).Draw(t, "retryUninstall") > 0 {
			op = &world.Op{Kind: "uninstall", DisableHooks: op.DisableHooks, KeepHistory: rapid.IntRange(0, 3).Draw(t, "retryKeepHistory") == 0}
			lbl["uninstall-retried-after-a-failed-uninstall"] = true
		}
		if op.Kind == "uninstall" && op.Fault.Kind != "" {
			// fault positions that exist in this uninstall (it makes few requests)
			op.Fault = genPhasedFault(t, w, op)
		}
		// a quarter of the upgrades re-apply the chart of the deployed revision unchanged (drift correction)
		if op.Kind == "upgrade" {
			if d := deployedRevs(w.History()); len(d) == 1 && rapid.IntRange(0, 3).Draw(t, "sameChart") == 0 {
				if sp, ok := j.specOf[d[0]]; ok {
					op.Chart = sp
					lbl["unchanged-chart-upgrade"] = true
				}
			}
		}
		oobManaged := len(j.oobSince) > 0
		cut, res := j.runStep(c02Step{Op: op})
		retryUninstall = op.Kind == "uninstall" && res.Err != nil && res.Fired
		fp = append(fp, op.Describe())
		if res.Err == nil && !res.Fired {
			lbl["success:"+op.Kind] = true
			added, removed, keep := false, false, false
			if op.Kind != "uninstall" {
				for _, e := range res.Mutations() {
					if e.Verb == "POST" && !isHookKey(e.Key) {
						added = true
					}
					if e.Verb == "DELETE" && !isHookKey(e.Key) {
						removed = true
					}
				}
			}
			for _, r := range op.Chart.Resources {
				if r.Policy != "" {
					keep = true
				}
			}
			if added && removed {
				lbl["added-and-removed"] = true
			}
			if oobManaged {
				lbl["after-out-of-band-action"] = true
			}
			if keep {
				lbl["keep-policy-resource"] = true
			}
			if (added && removed) || oobManaged || keep {
				nontrivial = true
			}
		}
		if cut {
			lbl["cut-at-known-finding"] = true
			break
		}
	}
	var lbls []string
	for k := range lbl {
		lbls = append(lbls, k)
	}
	sort.Strings(lbls)
	evid.Case(lbls, backend+"|"+strings.Join(fp, ";"), nontrivial, map[string]interface{}{"backend": backend, "history": j.trace})
}

func TestC02(t *testing.T) {
	evid.Extra("rule", "C02: rapid-generated histories (1..6 operations quick, 1..10 thorough) of install/upgrade/rollback/uninstall over charts whose resource sets (1-4 of 8 pool resources of 5 kinds, content variant, helm.sh/resource-policy in {absent, keep, ' Keep ', other}) grow, shrink and change (one upgrade in ten moves to a chart that renders nothing at all) - a resource may name a namespace of its own, and one object is of a kind the cluster serves under two API versions (HorizontalPodAutoscaler autoscaling/v1 and /v2) between which charts move -, interleaved with out-of-band actions on live objects (edit a field the manifest specifies, add a foreign label/data key, set or remove the keep annotation, delete the object) and with bystander objects present (unrelated name, same name in another namespace, same name of another kind, objects owned by another release); one operation in six (uninstalls: one in three, with fault positions taken from the requests an uninstall really makes, and retried afterwards in two cases out of three) carries a cluster-side fault and is not judged itself. After every fault-free successful operation whose requests were all accepted: (a) manifest is a sub-object of live for every resource of the new manifest, (b) resources of the previously deployed manifest that the new one drops are gone unless the live object carried exactly the keep policy, in which case they must remain, (c) bystanders are byte-identical and every accepted write targets an object named by a manifest or hook of the release; after uninstall: everything of the latest manifest is gone except manifest-declared keep resources, which are unchanged and listed in the response. Non-trivial = a judged successful operation that both created and deleted a manifest resource, or followed an out-of-band action, or involved a resource-policy annotation; distinct by the full step sequence.")
	evid.Extra("assumptions", []string{
		"API-server simulator: existence and content only (no defaulting, admission, finalizers, garbage collection)",
		"built-in kinds only (ConfigMap, Secret, ServiceAccount, Service, Deployment): Helm's strategic three-way merge path; custom resources are not generated",
		"removal of live fields that no manifest mentions is not asserted",
		"on upgrade/rollback a live keep annotation spelled other than exactly 'keep' is counted, not judged; on uninstall cases where live and manifest policy disagree are counted, not judged",
	})
	rapid.Check(t, c02Prop)
}

func TestC02_Known(t *testing.T)  { runKnownStepCases(t, "C02") }
func TestC02_Replay(t *testing.T) { replayStepCase(t) }

type c02Case struct {
	Backend string    `json:"backend"`
	Steps   []c02Step `json:"steps"`
}

func runKnownStepCases(t *testing.T, prop string) {
	for _, e := range knownEntries(prop) {
		d, err := loadReplayDoc(e.Replay)
		if err != nil {
			fmt.Printf("KNOWN-GONE sig=%s :: replay unreadable: %v\n", e.Signature, err)
			continue
		}
		var c c02Case
		if err := json.Unmarshal(d.Case, &c); err != nil {
			fmt.Printf("KNOWN-GONE sig=%s :: replay undecodable: %v\n", e.Signature, err)
			continue
		}
		vt.CheckKnown(e.Signature, e.What, func(tb vt.TB) { c02RunCase(tb, c.Backend, c.Steps) })
	}
}

func replayStepCase(t *testing.T) {
	p := os.Getenv("VERIF_REPLAY_JSON")
	if p == "" {
		t.Skip("no VERIF_REPLAY_JSON")
	}
	d, err := loadReplayDoc(p)
	if err != nil {
		t.Fatal(err)
	}
	var c c02Case
	if err := json.Unmarshal(d.Case, &c); err != nil {
		t.Fatal(err)
	}
	c02RunCase(t, c.Backend, c.Steps)
}
