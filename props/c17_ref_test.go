package props

// C17 reference verifier: what "the provenance file vouches for this archive under this keyring" means, written from
// the property statement and RFC 4880 §7 (cleartext signature framework) with the OpenPGP library primitives only —
// no Helm code. It looks at every clearsigned block of the file, Helm's answer is compared against it.

import (
	"bytes"
	"crypto/sha256"
	"encoding/hex"
	"strings"

	"golang.org/x/crypto/openpgp"           //nolint
	"golang.org/x/crypto/openpgp/clearsign" //nolint
	"sigs.k8s.io/yaml"
)

// c17BlockVerdict is the reference's finding for one clearsigned block.
type c17BlockVerdict struct {
	SigOK  bool   // a key of the keyring made a valid signature over the block's canonical text
	Signer string // hex fingerprint of that key
	Listed bool   // the signed text's files map lists basename -> sha256:<digest of the actual archive bytes>
	Reason string // "ok" | "bad-signature" | "no-files-document" | "files-unparsable" | "name-not-listed" | "digest-differs"
}

func (v c17BlockVerdict) ok() bool { return v.SigOK && v.Listed }

// c17RefResult is the reference's finding for a whole provenance file.
type c17RefResult struct {
	Blocks []c17BlockVerdict
}

// First reports whether the first clearsigned block vouches for the archive (what a verifier that reads one block must find).
func (r c17RefResult) First() bool { return len(r.Blocks) > 0 && r.Blocks[0].ok() }

// Any reports whether any clearsigned block vouches for the archive.
func (r c17RefResult) Any() bool {
	for _, b := range r.Blocks {
		if b.ok() {
			return true
		}
	}
	return false
}

// Reason names why the first block does not vouch ("no-signed-block" when there is none).
func (r c17RefResult) Reason() string {
	if len(r.Blocks) == 0 {
		return "no-signed-block"
	}
	return r.Blocks[0].Reason
}

func c17SHA256Hex(b []byte) string {
	s := sha256.Sum256(b)
	return hex.EncodeToString(s[:])
}

// c17FilesOf extracts the files map of a provenance message: the YAML document that follows the first "..." line.
func c17FilesOf(plaintext []byte) (map[string]string, string) {
	lines := strings.Split(string(plaintext), "\n")
	start := -1
	for i, l := range lines {
		if i > 0 && l == "..." {
			start = i + 1
			break
		}
	}
	if start < 0 {
		return nil, "no-files-document"
	}
	end := len(lines)
	for i := start; i < len(lines)-1; i++ { // a later "..." line (followed by more text) ends the document
		if lines[i] == "..." {
			end = i
			break
		}
	}
	var doc struct {
		Files map[string]string `json:"files"`
	}
	if err := yaml.Unmarshal([]byte(strings.Join(lines[start:end], "\n")), &doc); err != nil {
		return nil, "files-unparsable"
	}
	return doc.Files, ""
}

// c17RefVerify judges prov for the archive bytes stored under basename against the keyring.
func c17RefVerify(archive, prov []byte, basename string, ring openpgp.EntityList) c17RefResult {
	var res c17RefResult
	want := "sha256:" + c17SHA256Hex(archive)
	rest := prov
	for len(res.Blocks) < 8 {
		var block *clearsign.Block
		block, rest = clearsign.Decode(rest)
		if block == nil {
			break
		}
		v := c17BlockVerdict{}
		signer, err := openpgp.CheckDetachedSignature(ring, bytes.NewReader(block.Bytes), block.ArmoredSignature.Body)
		if err == nil && signer != nil {
			v.SigOK = true
			v.Signer = strings.ToUpper(hex.EncodeToString(signer.PrimaryKey.Fingerprint[:]))
		}
		files, why := c17FilesOf(block.Plaintext)
		switch got, has := files[basename]; {
		case why != "":
			v.Reason = why
		case !has:
			v.Reason = "name-not-listed"
		case got != want:
			v.Reason = "digest-differs"
		default:
			v.Listed = true
			v.Reason = "ok"
		}
		if !v.SigOK {
			v.Reason = "bad-signature"
		}
		res.Blocks = append(res.Blocks, v)
	}
	return res
}
