package props

// C18 — version queries return the best matching chart from a well-formed index.
//
// Part A: repo.LoadIndexFile post-conditions. Part B: IndexFile.Get. Part C: registry.GetTagMatchingVersionOrConstraint.
// Part D: dependency resolution observed through the real downloader.Manager.Update (Chart.lock read back).

import (
	"archive/tar"
	"bytes"
	"compress/gzip"
	"encoding/json"
	"fmt"
	"io"
	"log"
	"log/slog"
	"os"
	"path"
	"path/filepath"
	"sort"
	"strings"
	"sync"
	"testing"

	"github.com/Masterminds/semver/v3"
	"pgregory.net/rapid"
	"sigs.k8s.io/yaml"

	chart "helm.sh/helm/v4/pkg/chart/v2"
	"helm.sh/helm/v4/pkg/downloader"
	"helm.sh/helm/v4/pkg/getter"
	"helm.sh/helm/v4/pkg/helmpath"
	"helm.sh/helm/v4/pkg/registry"
	"helm.sh/helm/v4/pkg/repo"

	"verif/internal/evid"
	"verif/internal/vt"
)

func init() {
	// loadIndex warns through slog for every entry it skips
	slog.SetDefault(slog.New(slog.NewTextHandler(io.Discard, nil)))
	log.SetOutput(io.Discard)
}

// c18Safely runs a call into Helm and returns the recovered panic value, if any.
func c18Safely(f func()) (p interface{}) {
	defer func() { p = recover() }()
	f()
	return nil
}

func c18IsNilDeref(p interface{}) bool {
	return strings.Contains(fmt.Sprint(p), "nil pointer dereference")
}

// ---------------------------------------------------------------------------------------------------------------
// Part A — load

// c18JudgeLoad writes the document to file, loads it with repo.LoadIndexFile and judges the post-conditions.
// cut=true: a listed known finding was hit, the case must not be judged further.
func c18JudgeLoad(tb vt.TB, cs *c18Case, file string) (idx *repo.IndexFile, cut bool) {
	ix := cs.Index
	doc := c18Render(ix)
	if err := os.WriteFile(file, doc, 0o644); err != nil {
		tb.Fatalf("harness: %v", err)
	}
	hasNull := c18HasNull(ix)
	var err error
	if p := c18Safely(func() { idx, err = repo.LoadIndexFile(file) }); p != nil {
		if hasNull && c18IsNilDeref(p) {
			return nil, vt.Violation(tb, "C18:load/null-entry-not-removed", fmt.Sprintf("LoadIndexFile panicked (%v) on a document with a null list item:\n%s", p, doc), cs)
		}
		return nil, vt.Violation(tb, "C18:load/panic", fmt.Sprintf("LoadIndexFile panicked (%v) on:\n%s", p, doc), cs)
	}
	if err != nil {
		return nil, vt.Violation(tb, "C18:load/error-on-well-formed-document", fmt.Sprintf("LoadIndexFile returned %q for:\n%s", err, doc), cs)
	}
	if idx == nil {
		return nil, vt.Violation(tb, "C18:load/nil-index-without-error", string(doc), cs)
	}
	specKeys := map[string]bool{}
	for ci, ch := range ix.Charts {
		specKeys[ch.Key] = true
		got := idx.Entries[ch.Key]
		valid := c18ValidOf(ix, ci)
		want := map[string]c18V{}
		for _, v := range valid {
			want[v.ID] = v
		}
		var gotDesc []string
		for _, g := range got {
			if g == nil {
				gotDesc = append(gotDesc, "<nil>")
			} else if g.Metadata == nil {
				gotDesc = append(gotDesc, "<no metadata>")
			} else {
				gotDesc = append(gotDesc, g.Version)
			}
		}
		ctx := fmt.Sprintf("chart %q: loaded %q, valid entries written %q\n%s", ch.Key, gotDesc, c18Strs(valid), doc)
		// (1) no nil entry
		for _, g := range got {
			if g == nil {
				if hasNull {
					return nil, vt.Violation(tb, "C18:load/null-entry-not-removed", "a nil entry is in the loaded list; "+ctx, cs)
				}
				return nil, vt.Violation(tb, "C18:load/nil-entry-appeared", ctx, cs)
			}
		}
		// (2) only valid entries, (3) exactly the valid entries that were written, unchanged
		seen := map[string]int{}
		for _, g := range got {
			if g.Metadata == nil {
				return nil, vt.Violation(tb, "C18:load/invalid-entry-kept", "entry without metadata; "+ctx, cs)
			}
			w, ok := want[g.Digest]
			if !ok {
				return nil, vt.Violation(tb, "C18:load/invalid-entry-kept", fmt.Sprintf("entry %s (name %q version %q type %q) is not a valid chart entry; %s", g.Digest, g.Name, g.Version, g.Type, ctx), cs)
			}
			if verr := g.Validate(); verr != nil {
				return nil, vt.Violation(tb, "C18:load/invalid-entry-kept", fmt.Sprintf("entry %s fails chart metadata validation: %v; %s", g.Digest, verr, ctx), cs)
			}
			seen[g.Digest]++
			if seen[g.Digest] > 1 {
				return nil, vt.Violation(tb, "C18:load/valid-entry-lost-or-changed", fmt.Sprintf("entry %s appears twice; %s", g.Digest, ctx), cs)
			}
			if g.Version != w.S || g.Name != w.Name || (len(g.URLs) > 0) != w.HasURLs {
				return nil, vt.Violation(tb, "C18:load/valid-entry-lost-or-changed", fmt.Sprintf("entry %s loaded as name %q version %q urls %q, written as name %q version %q; %s", g.Digest, g.Name, g.Version, g.URLs, w.Name, w.S, ctx), cs)
			}
		}
		for _, v := range valid {
			if seen[v.ID] == 0 {
				return nil, vt.Violation(tb, "C18:load/valid-entry-lost-or-changed", fmt.Sprintf("valid entry %s (version %q) is missing; %s", v.ID, v.S, ctx), cs)
			}
		}
		// (4) newest first
		for i := 0; i+1 < len(got); i++ {
			a, b := want[got[i].Digest].V, want[got[i+1].Digest].V
			if a.Compare(b) < 0 {
				return nil, vt.Violation(tb, "C18:load/not-sorted-newest-first", fmt.Sprintf("%q precedes %q; %s", got[i].Version, got[i+1].Version, ctx), cs)
			}
		}
	}
	var extra []string
	for k := range idx.Entries {
		if !specKeys[k] {
			extra = append(extra, k)
		}
	}
	if len(extra) > 0 {
		sort.Strings(extra)
		return nil, vt.Violation(tb, "C18:load/chart-name-appeared", fmt.Sprintf("%q\n%s", extra, doc), cs)
	}
	return idx, false
}

// sizes: quick 1-2 charts of 0-8 items, thorough 1-3 charts of 0-12 items
func c18MaxCharts() int {
	if vt.Thorough() {
		return 3
	}
	return 2
}

func c18MaxEntries() int {
	if vt.Thorough() {
		return 12
	}
	return 8
}

func c18TempDir(tb vt.TB) string {
	dir, err := os.MkdirTemp("", "c18-")
	if err != nil {
		tb.Fatalf("harness: %v", err)
	}
	return dir
}

func c18RunA(tb vt.TB, cs *c18Case) {
	dir := c18TempDir(tb)
	defer os.RemoveAll(dir)
	c18JudgeLoad(tb, cs, filepath.Join(dir, "index.yaml"))
}

func c18PropA(t *rapid.T) {
	cs := &c18Case{Part: "A", Index: c18GenIndex(t, c18MaxCharts(), c18MaxEntries(), 12)}
	c18RunA(t, cs)
	lbls := c18VersionLabels(cs.Index)
	nontrivial := false
	for ci, ch := range cs.Index.Charts {
		valid := c18ValidOf(cs.Index, ci)
		if c18Interesting(valid) && len(valid) < len(ch.Entries) {
			nontrivial = true
		}
	}
	evid.Case(lbls, c18JSON(cs), nontrivial, cs)
}

func TestC18A(t *testing.T) {
	evid.Extra("rule", "C18A: an index document (YAML or JSON, 1-2 charts of 0-8 list items each; thorough tier 1-3 charts of 0-12) is generated from a version grammar (release, pre-release, build metadata, both, leading v, partial/loose forms such as 1.2 or 01.2.3, neighbours of earlier items: identical string, other build metadata, other pre-release, toggled v, bumped patch; invalid strings) with malformed items (null item, {} item, item without any metadata, without/empty/path-like name, without version, bad type, name differing from the key, urls omitted/null/empty, null list) in drawn order, written to a file and loaded with repo.LoadIndexFile. Oracle (own classification of each written item, identity carried in the digest field): no panic, no error, no nil entry, every loaded entry is one of the valid written items (name is a base name, version parses as semver, type empty/application/library) and passes Metadata.Validate, every valid written item is present exactly once with unchanged name/version/urls, each list is non-increasing in semver precedence. Non-trivial = some chart has >=3 valid versions including a pre-release or a pair differing only in build metadata, not already newest-first in the file, and at least one item that has to be removed; distinct by the whole document.")
	evid.Extra("assumptions", []string{"a version string is valid iff Masterminds semver.NewVersion parses it (Helm's stated rule for chart versions)", "semver precedence and constraint satisfaction are taken from Masterminds/semver; maxima are computed by the harness", "version strings are written as quoted strings (an unquoted YAML 1.10 is a float, which is the author's error, not Helm's)", "entries whose dependencies repeat a name (deliberately tolerated by loadIndex) are not generated"})
	rapid.Check(t, c18PropA)
}

// ---------------------------------------------------------------------------------------------------------------
// Part B — IndexFile.Get

type c18QStat struct {
	class    string
	err      bool
	topOut   bool
	interest bool
}

// c18JudgeAnswer compares one answer (version string + identity, or an error) with what the statement allows.
// what names the interface ("get", "tags", "resolve") and becomes part of the signature.
func c18JudgeAnswer(tb vt.TB, cs *c18Case, what string, ex c18Expect, q string, gotErr error, gotVersion, gotID string, ctx string) bool {
	okStrs := c18Strs(ex.OK)
	desc := fmt.Sprintf("query %q (%s): ", q, ex.Class)
	if gotErr != nil {
		desc += fmt.Sprintf("error %q", gotErr)
	} else {
		desc += fmt.Sprintf("answer %q (%s)", gotVersion, gotID)
	}
	if ex.Err {
		desc += "; expected an error"
	} else {
		desc += fmt.Sprintf("; expected one of %q (satisfying: %q)", okStrs, c18Strs(ex.Sat))
	}
	desc += "\n" + ctx
	if ex.Err {
		if gotErr != nil {
			return false
		}
		switch ex.Class {
		case "empty":
			return vt.Violation(tb, "C18:"+what+"/empty-version/pre-release-returned-as-no-stable-version-exists", desc, cs)
		case "invalid-constraint":
			return vt.Violation(tb, "C18:"+what+"/unparsable-query-answered", desc, cs)
		case "unknown-chart":
			return vt.Violation(tb, "C18:"+what+"/unknown-chart-answered", desc, cs)
		}
		return vt.Violation(tb, "C18:"+what+"/constraint/answer-although-none-satisfies", desc, cs)
	}
	if gotErr != nil {
		switch ex.Class {
		case "empty":
			return vt.Violation(tb, "C18:"+what+"/empty-version/error-although-stable-version-exists", desc, cs)
		case "exact":
			return vt.Violation(tb, "C18:"+what+"/identical-version-string-not-returned", desc, cs)
		}
		return vt.Violation(tb, "C18:"+what+"/constraint/error-although-satisfiable", desc, cs)
	}
	// an answer is identified by the entry's identity where the interface returns the entry (get), by the tag
	// string (tags), and for the lock file by the version string or its normalised spelling (v1.2 and 1.2.0 name
	// the same indexed version; the statement speaks of versions there, not of strings)
	same := func(v c18V) bool {
		if gotID != "" {
			return v.ID == gotID
		}
		if v.S == gotVersion {
			return true
		}
		if what == "resolve" && v.V != nil {
			if g, err := semver.NewVersion(gotVersion); err == nil && g.String() == v.V.String() {
				return true
			}
		}
		return false
	}
	good := false
	for _, v := range ex.OK {
		good = good || same(v)
	}
	if good {
		return false
	}
	switch ex.Class {
	case "exact":
		return vt.Violation(tb, "C18:"+what+"/identical-version-string-not-returned", desc, cs)
	case "empty":
		if v, err := semver.NewVersion(gotVersion); err == nil && v.Prerelease() != "" {
			return vt.Violation(tb, "C18:"+what+"/empty-version/pre-release-returned", desc, cs)
		}
		return vt.Violation(tb, "C18:"+what+"/empty-version/not-the-highest-stable", desc, cs)
	}
	inSat := false
	for _, s := range ex.Sat {
		inSat = inSat || same(s)
	}
	if !inSat {
		return vt.Violation(tb, "C18:"+what+"/constraint/answer-does-not-satisfy", desc, cs)
	}
	return vt.Violation(tb, "C18:"+what+"/constraint/not-the-highest-satisfying", desc, cs)
}

func c18RunB(tb vt.TB, cs *c18Case) (stats []c18QStat) {
	dir := c18TempDir(tb)
	defer os.RemoveAll(dir)
	idx, cut := c18JudgeLoad(tb, cs, filepath.Join(dir, "index.yaml"))
	if cut || idx == nil {
		return nil
	}
	doc := c18Render(cs.Index)
	for _, q := range cs.Queries {
		ci := c18ChartIndex(cs.Index, q.Name)
		var cv *repo.ChartVersion
		var err error
		if p := c18Safely(func() { cv, err = idx.Get(q.Name, q.Version) }); p != nil {
			if vt.Violation(tb, "C18:get/panic", fmt.Sprintf("Get(%q,%q) panicked: %v\n%s", q.Name, q.Version, p, doc), cs) {
				return stats
			}
		}
		if ci < 0 {
			if err == nil {
				if vt.Violation(tb, "C18:get/unknown-chart-answered", fmt.Sprintf("Get(%q,%q) returned %v\n%s", q.Name, q.Version, cv, doc), cs) {
					return stats
				}
			}
			stats = append(stats, c18QStat{class: "unknown-chart", err: true})
			continue
		}
		valid := c18ValidOf(cs.Index, ci)
		ex := c18Reference(valid, q.Version)
		gotV, gotID := "", ""
		if err == nil {
			if cv == nil || cv.Metadata == nil {
				if vt.Violation(tb, "C18:get/nil-answer-without-error", fmt.Sprintf("Get(%q,%q)\n%s", q.Name, q.Version, doc), cs) {
					return stats
				}
			}
			gotV, gotID = cv.Version, cv.Digest
			if gotID == "" {
				gotID = "<no digest>"
			}
		}
		ctx := fmt.Sprintf("chart %q valid versions (file order) %q\n%s", q.Name, c18Strs(valid), doc)
		if c18JudgeAnswer(tb, cs, "get", ex, q.Version, err, gotV, gotID, ctx) {
			return stats
		}
		stats = append(stats, c18QStat{class: ex.Class, err: ex.Err, topOut: ex.TopOut, interest: c18Interesting(valid)})
	}
	return stats
}

func c18QueryLabels(stats []c18QStat) (lbls []string, nontrivial bool) {
	set := map[string]bool{}
	for _, s := range stats {
		l := "q:" + s.class
		if s.class == "constraint" || s.class == "empty" {
			if s.err {
				l += "/none-satisfies"
			} else {
				l += "/satisfiable"
			}
		}
		set[l] = true
		if s.topOut {
			set["q:excludes-the-top-version"] = true
		}
		if s.topOut && s.interest && s.class == "constraint" {
			nontrivial = true
			set["q:constraint-excludes-top-of-interesting-set"] = true
		}
	}
	for k := range set {
		lbls = append(lbls, k)
	}
	sort.Strings(lbls)
	return lbls, nontrivial
}

func c18PropB(t *rapid.T) {
	cs := &c18Case{Part: "B", Index: c18GenIndex(t, c18MaxCharts(), c18MaxEntries(), 3)}
	nq := 1 + c18Uniform(t, "nq", 4)
	for i := 0; i < nq; i++ {
		label := fmt.Sprintf("q%d", i)
		ci := c18Uniform(t, label+"Chart", len(cs.Index.Charts))
		name := cs.Index.Charts[ci].Key
		valid := c18ValidOf(cs.Index, ci)
		if c18Uniform(t, label+"Missing", 20) == 19 {
			name, valid = "missing", nil
		}
		useful := func(q string) bool { return !c18Reference(valid, q).Err }
		cs.Queries = append(cs.Queries, c18Query{Name: name, Version: c18GenSteered(t, label, c18AllVersionStrings(cs.Index, name), useful)})
	}
	stats := c18RunB(t, cs)
	ql, nontrivial := c18QueryLabels(stats)
	evid.Case(append(c18VersionLabels(cs.Index), ql...), c18JSON(cs), nontrivial, cs)
}

func TestC18B(t *testing.T) {
	evid.Extra("rule", "C18B: an index as in C18A (fewer null items) is loaded with repo.LoadIndexFile (load post-conditions judged as in C18A), then 1-4 queries IndexFile.Get(name, version) are made: name = a chart of the index or a missing one; version = empty, the identical string of a written item (valid or dropped), a neighbour of one (other build metadata / pre-release / leading v), an unparsable text, or a generated constraint (operators = != > < >= <= ~ ^ => =< ~>, full/partial/x/X/* versions, pre-release bounds such as -0, AND by space/comma, ||, hyphen ranges; bounds taken from the data's own versions two times in three). Reference over the harness's own list of valid written items: empty -> a version without pre-release with no strictly higher such version, error if there is none; an item with the identical string -> that item (by identity); otherwise the text must parse as a constraint and the answer must satisfy it with no strictly higher satisfying item; otherwise an error. Non-trivial = the queried chart has >=3 valid versions incl. a pre-release or build-metadata pair, not newest-first in the file, and a constraint query (not empty, not identical) that is satisfiable but excludes the highest version; distinct by document+queries.")
	evid.Extra("assumptions", []string{"Masterminds/semver decides parsing, precedence and constraint satisfaction (incl. its rule that a constraint without a pre-release part does not match pre-releases); the maximum is computed by the harness", "ties in precedence (build metadata) may be answered by any of the tied entries"})
	rapid.Check(t, c18PropB)
}

// ---------------------------------------------------------------------------------------------------------------
// Part C — registry.GetTagMatchingVersionOrConstraint

func c18RunC(tb vt.TB, cs *c18Case) *c18QStat {
	var valid []c18V
	exact := false
	for i, s := range cs.Tags {
		if s == cs.Query && cs.Query != "" {
			exact = true
		}
		if v, err := semver.NewVersion(s); err == nil {
			valid = append(valid, c18V{ID: fmt.Sprintf("tag%d", i), S: s, V: v})
		}
	}
	var got string
	var err error
	ctx := fmt.Sprintf("tags (newest first) %q", cs.Tags)
	if p := c18Safely(func() {
		got, err = registry.GetTagMatchingVersionOrConstraint(append([]string(nil), cs.Tags...), cs.Query)
	}); p != nil {
		vt.Violation(tb, "C18:tags/panic", fmt.Sprintf("query %q panicked: %v; %s", cs.Query, p, ctx), cs)
		return nil
	}
	var ex c18Expect
	if exact {
		// an identical tag wins whether or not it parses as a version
		ex = c18Expect{Class: "exact", OK: []c18V{{S: cs.Query}}, Sat: []c18V{{S: cs.Query}}}
	} else {
		ex = c18Reference(valid, cs.Query)
	}
	if c18JudgeAnswer(tb, cs, "tags", ex, cs.Query, err, got, "", ctx) {
		return nil
	}
	special := false
	for i, a := range valid {
		if a.V.Prerelease() != "" {
			special = true
		}
		for j, b := range valid {
			if i < j && a.V.Compare(b.V) == 0 && a.V.Metadata() != b.V.Metadata() {
				special = true
			}
		}
	}
	return &c18QStat{class: ex.Class, err: ex.Err, topOut: ex.TopOut, interest: len(valid) >= 3 && special}
}

func c18PropC(t *rapid.T) {
	cs := &c18Case{Part: "C", Tags: c18GenTags(t)}
	var tagVs []c18V
	for _, s := range cs.Tags {
		if v, err := semver.NewVersion(s); err == nil {
			tagVs = append(tagVs, c18V{S: s, V: v})
		}
	}
	cs.Query = c18GenSteered(t, "q", cs.Tags, func(q string) bool { return c18Contains(cs.Tags, q) || !c18Reference(tagVs, q).Err })
	st := c18RunC(t, cs)
	var lbls []string
	nontrivial := false
	if st != nil {
		lbls, nontrivial = c18QueryLabels([]c18QStat{*st})
	}
	for _, s := range cs.Tags {
		v, err := semver.NewVersion(s)
		switch {
		case err != nil:
			lbls = append(lbls, "has:non-version-tag")
		case v.Prerelease() != "":
			lbls = append(lbls, "has:prerelease")
		case v.Metadata() != "":
			lbls = append(lbls, "has:build-metadata")
		}
	}
	sort.Strings(lbls)
	lbls = c18Uniq(lbls)
	evid.Case(lbls, c18JSON(cs), nontrivial, cs)
}

func c18Uniq(ss []string) []string {
	var out []string
	for i, s := range ss {
		if i == 0 || ss[i-1] != s {
			out = append(out, s)
		}
	}
	return out
}

func TestC18C(t *testing.T) {
	evid.Extra("rule", "C18C: a tag list of 0-8 strict semantic versions (pre-releases, build metadata, neighbours and duplicates of earlier tags), ordered newest-first by the harness (order among equal precedence drawn), in one case of ten with 1-2 non-version tags (latest, stable, ...) at drawn positions, and a query as in C18B, are given to registry.GetTagMatchingVersionOrConstraint. Reference: an identical tag wins; empty -> highest tag without pre-release; otherwise the text must parse as a constraint and the answer must satisfy it with no strictly higher satisfying tag; otherwise an error. Non-trivial = >=3 version tags incl. a pre-release or build-metadata pair and a satisfiable constraint that excludes the highest tag; distinct by tags+query.")
	evid.Extra("assumptions", []string{"the tag list is newest-first, as registry.Client.Tags provides it (the function documents no ordering of its own)", "Masterminds/semver decides parsing, precedence and constraint satisfaction"})
	rapid.Check(t, c18PropC)
}

// ---------------------------------------------------------------------------------------------------------------
// Part D — dependency resolution through downloader.Manager.Update

// c18Getter is the local transport: it serves a chart archive for every pkg-c<i>e<j>.tgz URL of the case's index and
// records what was fetched.
type c18Getter struct {
	mu      sync.Mutex
	ix      *c18Index
	fetched []string
}

func c18Archive(name, version string) []byte {
	var buf bytes.Buffer
	gz, _ := gzip.NewWriterLevel(&buf, gzip.BestSpeed)
	tw := tar.NewWriter(gz)
	body := []byte(fmt.Sprintf("apiVersion: v2\nname: %s\nversion: %q\n", name, version))
	_ = tw.WriteHeader(&tar.Header{Name: name + "/Chart.yaml", Mode: 0o644, Size: int64(len(body)), Typeflag: tar.TypeReg})
	_, _ = tw.Write(body)
	_ = tw.Close()
	_ = gz.Close()
	return buf.Bytes()
}

func (g *c18Getter) Get(href string, _ ...getter.Option) (*bytes.Buffer, error) {
	g.mu.Lock()
	defer g.mu.Unlock()
	base := path.Base(href)
	g.fetched = append(g.fetched, href)
	var ci, ei int
	if _, err := fmt.Sscanf(base, "pkg-c%de%d.tgz", &ci, &ei); err != nil || ci >= len(g.ix.Charts) || ei >= len(g.ix.Charts[ci].Entries) {
		return nil, fmt.Errorf("c18 transport: 404 for %s", href)
	}
	e := g.ix.Charts[ci].Entries[ei]
	name, version := g.ix.Charts[ci].Key, "0.0.0"
	if e.Name != nil && *e.Name != "" && !strings.Contains(*e.Name, "/") {
		name = *e.Name
	}
	if e.Version != nil {
		version = *e.Version
	}
	return bytes.NewBuffer(c18Archive(name, version)), nil
}

type c18DStat struct {
	outcome  string
	stats    []c18QStat
	nontriv  bool
	fetchOdd bool
}

func c18RunD(tb vt.TB, cs *c18Case) (st c18DStat) {
	dir := c18TempDir(tb)
	defer os.RemoveAll(dir)
	cache := filepath.Join(dir, "cache")
	parent := filepath.Join(dir, "parent")
	for _, d := range []string{cache, parent} {
		if err := os.MkdirAll(d, 0o755); err != nil {
			tb.Fatalf("harness: %v", err)
		}
	}
	// the cached index is loaded (and judged) first exactly as the resolver will load it
	idxFile := filepath.Join(cache, helmpath.CacheIndexFile("c18repo"))
	if idx, cut := c18JudgeLoad(tb, cs, idxFile); cut || idx == nil {
		st.outcome = "cut-at-load"
		return st
	}
	doc := c18Render(cs.Index)
	rf := repo.NewFile()
	rf.Add(&repo.Entry{Name: "c18repo", URL: c18RepoURL})
	repoCfg := filepath.Join(dir, "repositories.yaml")
	if err := rf.WriteFile(repoCfg, 0o644); err != nil {
		tb.Fatalf("harness: %v", err)
	}
	md := &chart.Metadata{APIVersion: "v2", Name: "parent", Version: "0.1.0"}
	for _, d := range cs.Deps {
		md.Dependencies = append(md.Dependencies, &chart.Dependency{Name: d.Name, Alias: d.Alias, Version: d.Range, Repository: c18RepoURL})
	}
	chartYAML, err := yaml.Marshal(md)
	if err != nil {
		tb.Fatalf("harness: %v", err)
	}
	if err := os.WriteFile(filepath.Join(parent, "Chart.yaml"), chartYAML, 0o644); err != nil {
		tb.Fatalf("harness: %v", err)
	}
	g := &c18Getter{ix: cs.Index}
	m := &downloader.Manager{
		Out: io.Discard, ChartPath: parent, SkipUpdate: true,
		Getters:          getter.Providers{{Schemes: []string{"http", "https"}, New: func(...getter.Option) (getter.Getter, error) { return g, nil }}},
		RepositoryConfig: repoCfg, RepositoryCache: cache,
	}
	var uerr error
	if p := c18Safely(func() { uerr = m.Update() }); p != nil {
		vt.Violation(tb, "C18:resolve/panic", fmt.Sprintf("Manager.Update panicked: %v\ndeps %s\n%s", p, c18JSON(cs.Deps), doc), cs)
		st.outcome = "cut"
		return st
	}
	// reference, per dependency
	var exps []c18Expect
	anyErr := false
	for _, d := range cs.Deps {
		ci := c18ChartIndex(cs.Index, d.Name)
		var ex c18Expect
		if ci < 0 {
			ex = c18Expect{Class: "unknown-chart", Err: true}
		} else {
			var withURLs []c18V
			for _, v := range c18ValidOf(cs.Index, ci) {
				if v.HasURLs {
					withURLs = append(withURLs, v)
				}
			}
			ex = c18ReferenceRange(withURLs, d.Range)
		}
		exps = append(exps, ex)
		anyErr = anyErr || ex.Err
	}
	var lock *chart.Lock
	if b, rerr := os.ReadFile(filepath.Join(parent, "Chart.lock")); rerr == nil {
		lock = &chart.Lock{}
		if yerr := yaml.Unmarshal(b, lock); yerr != nil {
			vt.Violation(tb, "C18:resolve/unreadable-lock", fmt.Sprintf("%v\n%s", yerr, b), cs)
			st.outcome = "cut"
			return st
		}
	}
	ctxAll := fmt.Sprintf("deps %s; Update error: %v; fetched %q\n%s", c18JSON(cs.Deps), uerr, g.fetched, doc)
	if uerr != nil {
		st.outcome = "update-error"
		if lock != nil {
			vt.Violation(tb, "C18:resolve/lock-written-although-update-failed", ctxAll, cs)
			st.outcome = "cut"
			return st
		}
		if !anyErr {
			sig := "C18:resolve/error-although-every-range-satisfiable"
			if strings.Contains(uerr.Error(), "c18 transport") {
				sig = "C18:resolve/download-of-an-unindexed-url"
			}
			vt.Violation(tb, sig, ctxAll, cs)
			st.outcome = "cut"
			return st
		}
	} else {
		st.outcome = "locked"
		if lock == nil {
			vt.Violation(tb, "C18:resolve/no-lock-after-successful-update", ctxAll, cs)
			st.outcome = "cut"
			return st
		}
		if len(lock.Dependencies) != len(cs.Deps) {
			vt.Violation(tb, "C18:resolve/lock-has-wrong-number-of-dependencies", fmt.Sprintf("lock %s; %s", c18JSON(lock.Dependencies), ctxAll), cs)
			st.outcome = "cut"
			return st
		}
	}
	for i, d := range cs.Deps {
		ex := exps[i]
		if uerr == nil {
			ld := lock.Dependencies[i]
			if ld == nil || ld.Name != d.Name {
				vt.Violation(tb, "C18:resolve/lock-entry-for-another-dependency", fmt.Sprintf("lock %s; %s", c18JSON(lock.Dependencies), ctxAll), cs)
				st.outcome = "cut"
				return st
			}
			ctx := fmt.Sprintf("dependency %q range %q locked to %q; valid versions with URLs (file order) %q\n%s", d.Name, d.Range, ld.Version, c18Strs(ex.pool), ctxAll)
			if c18JudgeAnswer(tb, cs, "resolve", ex, d.Range, nil, ld.Version, "", ctx) {
				st.outcome = "cut"
				return st
			}
		}
		qs := c18QStat{class: ex.Class, err: ex.Err, topOut: ex.TopOut, interest: c18Interesting(ex.pool)}
		if ex.Class == "constraint" && !ex.Err {
			// in part D the non-trivial rule counts only dependencies that really were locked
			qs.interest = qs.interest && uerr == nil
		}
		st.stats = append(st.stats, qs)
	}
	// observed, not judged: the archive fetched for a locked version (the downloader looks the version up again)
	if uerr == nil {
		for i := range cs.Deps {
			want := c18IDs(exps[i].OK)
			hit := false
			for _, f := range g.fetched {
				for _, id := range want {
					if strings.Contains(f, strings.TrimPrefix(id, "sha256:")+".tgz") {
						hit = true
					}
				}
			}
			if !hit {
				st.fetchOdd = true
			}
		}
	}
	return st
}

func c18PropD(t *rapid.T) {
	cs := &c18Case{Part: "D", Index: c18GenIndex(t, c18MaxCharts(), c18MaxEntries(), 3)}
	nd := c18Pick(t, "ndeps", []int{1, 1, 2, 3})
	used := map[string]bool{}
	for i := 0; i < nd; i++ {
		label := fmt.Sprintf("d%d", i)
		ci := c18Uniform(t, label+"Chart", len(cs.Index.Charts))
		name := cs.Index.Charts[ci].Key
		var pool []c18V
		for _, v := range c18ValidOf(cs.Index, ci) {
			if v.HasURLs {
				pool = append(pool, v)
			}
		}
		if c18Uniform(t, label+"Missing", 40) == 39 {
			name, pool = "missing", nil
		}
		d := c18Dep{Name: name}
		if used[name] {
			d.Alias = fmt.Sprintf("%s-alias%d", name, i)
		}
		used[name] = true
		// ranges are mostly satisfiable so that most cases get as far as the lock file
		all := c18AllVersionStrings(cs.Index, name)
		d.Range = c18GenSteered(t, label, all, func(q string) bool { return strings.TrimSpace(q) != "" && !c18ReferenceRange(pool, q).Err })
		if strings.TrimSpace(d.Range) == "" {
			d.Range = c18Pick(t, label+"Any", []string{"*", ">=0.0.0-0", "x"})
		}
		cs.Deps = append(cs.Deps, d)
	}
	st := c18RunD(t, cs)
	ql, nontrivial := c18QueryLabels(st.stats)
	lbls := append(c18VersionLabels(cs.Index), ql...)
	lbls = append(lbls, "out:"+st.outcome, fmt.Sprintf("deps:%d", len(cs.Deps)))
	if st.fetchOdd {
		evid.Note("C18D: the archive downloaded for a locked dependency is not one of the highest satisfying entries (downloader looks the locked version up again, ignoring build metadata) - observed, not judged here")
	}
	evid.Case(lbls, c18JSON(cs), nontrivial && st.outcome == "locked", cs)
}

func TestC18D(t *testing.T) {
	evid.Extra("rule", "C18D: an index as in C18B is written as the cached index of a configured repository; a parent chart declares 1-3 dependencies (chart of the index, rarely a missing one; a second dependency on the same chart gets an alias) whose version field is drawn like the C18B queries (never empty). The real downloader.Manager.Update (SkipUpdate, local transport serving an archive for every indexed URL) runs and Chart.lock is read back. Reference per dependency over the harness's own list of valid written items that have a URL: the range must parse and the locked version string must be an item satisfying it with no strictly higher satisfying item; if any dependency has no such item (or its range does not parse, or its chart is missing) Update must fail and write no lock; otherwise it must succeed. Non-trivial = Update succeeded and some dependency's chart has >=3 valid URL-bearing versions incl. a pre-release or build-metadata pair, not newest-first in the file, with a range that excludes the highest version; distinct by document+dependencies.")
	evid.Extra("assumptions", []string{"entries without URLs cannot be locked (DESIGN: 'among entries that have URLs')", "a range that is the identical string of an indexed version is treated as a constraint like any other (resolution has no identical-string rule in the statement)", "Masterminds/semver decides parsing, precedence and constraint satisfaction"})
	rapid.Check(t, c18PropD)
}

// ---------------------------------------------------------------------------------------------------------------
// replay / known findings

type c18ReplayDoc struct {
	Signature string          `json:"signature"`
	Detail    string          `json:"detail"`
	Case      json.RawMessage `json:"case"`
}

type c18KnownEntry struct {
	Property  string `json:"property"`
	Signature string `json:"signature"`
	Status    string `json:"status"`
	What      string `json:"what"`
	Replay    string `json:"replay"`
}

func c18VerifRoot() string {
	if r := os.Getenv("VERIF_ROOT"); r != "" {
		return r
	}
	return "/verif"
}

func c18KnownEntries() []c18KnownEntry {
	b, err := os.ReadFile(filepath.Join(c18VerifRoot(), "known_findings.json"))
	if err != nil {
		return nil
	}
	var doc struct {
		Entries []c18KnownEntry `json:"entries"`
	}
	if json.Unmarshal(b, &doc) != nil {
		return nil
	}
	var out []c18KnownEntry
	for _, e := range doc.Entries {
		if e.Property == "C18" && e.Status == "known" {
			out = append(out, e)
		}
	}
	return out
}

func c18LoadReplay(p string) (*c18Case, error) {
	if !filepath.IsAbs(p) {
		p = filepath.Join(c18VerifRoot(), p)
	}
	b, err := os.ReadFile(p)
	if err != nil {
		return nil, err
	}
	var d c18ReplayDoc
	if err := json.Unmarshal(b, &d); err != nil {
		return nil, err
	}
	var cs c18Case
	if err := json.Unmarshal(d.Case, &cs); err != nil {
		return nil, err
	}
	return &cs, nil
}

// c18RunCase re-executes a stored case through the same judging code as the rapid properties.
func c18RunCase(tb vt.TB, cs *c18Case) {
	switch cs.Part {
	case "A":
		c18RunA(tb, cs)
	case "B":
		c18RunB(tb, cs)
	case "C":
		c18RunC(tb, cs)
	case "D":
		c18RunD(tb, cs)
	default:
		tb.Fatalf("harness: unknown part %q", cs.Part)
	}
}

func TestC18_Known(t *testing.T) {
	for _, e := range c18KnownEntries() {
		cs, err := c18LoadReplay(e.Replay)
		if err != nil {
			fmt.Printf("KNOWN-GONE sig=%s :: replay unreadable: %v\n", e.Signature, err)
			continue
		}
		vt.CheckKnown(e.Signature, e.What, func(tb vt.TB) { c18RunCase(tb, cs) })
	}
}

func TestC18_Replay(t *testing.T) {
	p := os.Getenv("VERIF_REPLAY_JSON")
	if p == "" {
		t.Skip("no VERIF_REPLAY_JSON")
	}
	cs, err := c18LoadReplay(p)
	if err != nil {
		t.Fatal(err)
	}
	c18RunCase(t, cs)
}
