package props

// C05 — rendering is deterministic and sees only the chart, values and release data.
// A: repetition / permutation / concurrency.   B: host independence (environment, cwd, host files, DNS, schema $ref).

import (
	"encoding/json"
	"fmt"
	"os"
	"path/filepath"
	"regexp"
	"sort"
	"strings"
	"sync"
	"sync/atomic"
	"testing"

	"pgregory.net/rapid"

	"helm.sh/helm/v4/pkg/action"
	chart "helm.sh/helm/v4/pkg/chart/v2"
	chartutil "helm.sh/helm/v4/pkg/chart/v2/util"

	"verif/internal/evid"
	"verif/internal/vt"
	"verif/internal/world"
)

// snippets restricted to functions documented as deterministic; %s is replaced by a per-document tag
var c05Snippets = []string{
	"{{- range $k, $v := .Values.m }}\n  {{ $k }}: {{ $v | quote }}\n{{- end }}",
	"{{ toYaml .Values.m | nindent 2 }}",
	"  x: {{ .Values.m | toJson | quote }}",
	"  keys: {{ keys .Values.m | sortAlpha | join \",\" | quote }}",
	"{{- range $p, $_ := .Files.Glob \"files/*\" }}\n  {{ base $p }}: {{ $.Files.Get $p | b64enc }}\n{{- end }}",
	"{{ (.Files.Glob \"files/*\").AsConfig | nindent 2 }}",
	"  lines: {{ .Files.Lines \"files/f1.txt\" | join \"|\" | quote }}",
	"  inc: {{ include \"helper\" . | quote }}",
	"  tpl: {{ tpl \"{{ .Values.s }}-{{ .Release.Name }}\" . | quote }}",
	"  merged: {{ merge (dict \"a\" 1) .Values.m | toJson | quote }}",
	"  sha: {{ .Values.m | toJson | sha256sum }}",
	"  pick: {{ pick .Values.m \"a\" \"b\" | toJson | quote }}",
	"  rel: {{ .Release.Name }}-{{ .Chart.Name }}-{{ .Template.Name | base }}",
	"  fromyaml: {{ (fromYaml (toYaml .Values.m)).a | quote }}",
	"  tern: {{ ternary \"y\" \"n\" (hasKey .Values.m \"a\") }}",
	"  caps: {{ .Capabilities.KubeVersion.Major }}",
	"  apis: {{ .Capabilities.APIVersions.Has \"alpha.example/v1\" }}/{{ .Capabilities.APIVersions.Has \"beta.example/v1\" }}/{{ .Capabilities.APIVersions.Has \"apps/v1\" }}",
	"  kube: {{ .Capabilities.KubeVersion.Version }}",
	// shared state across template files: deterministic only because files execute in a fixed order
	"  seen: {{ .Values.m.z | default \"none\" | quote }}",
	"{{- $_ := set .Values.m \"z\" \"%s\" }}\n  set: done",
	"  globals: {{ .Values.global | toJson | quote }}",
	// in-place change of a table that sits inside a default LIST (lists are replaced whole when values are coalesced,
	// so only a deep copy keeps the chart's own defaults out of reach)
	"{{- $p := index .Values.ports 0 }}{{- $_ := set $p \"name\" (printf \"web-%s\" $p.name) }}\n  port: {{ $p.name | quote }}",
}

// c05Fresh numbers the file patterns used by the concurrent "other" renders of this process.
var c05Fresh atomic.Int64

type c05File struct {
	Name string `json:"name"`
	Data string `json:"data"`
}

type c05Chart struct {
	Name      string      `json:"name"`
	Templates []c05File   `json:"templates"`
	Deps      []*c05Chart `json:"deps,omitempty"`
}

type c05ACase struct {
	Root     *c05Chart `json:"root"`
	SubNotes bool      `json:"subNotes"`
	// release options that reach .Capabilities (helm template --api-versions / --kube-version)
	APIVersions []string `json:"apiVersions,omitempty"`
	KubeVersion string   `json:"kubeVersion,omitempty"`
	// IncludeCRDs: every chart carries a crds/ file and the render includes them (helm template --include-crds);
	// SkipSchema: --skip-schema-validation
	IncludeCRDs bool `json:"includeCRDs,omitempty"`
	SkipSchema  bool `json:"skipSchemaValidation,omitempty"`
}

// c05Other is the same chart rendered under different release options: what it renders must not matter to c.
func c05Other(c c05ACase) c05ACase {
	o := c
	o.APIVersions = []string{"beta.example/v1"}
	if len(c.APIVersions) > 0 && c.APIVersions[0] == "beta.example/v1" {
		o.APIVersions = []string{"alpha.example/v1", "gamma.example/v2"}
	}
	o.KubeVersion = "v1.19.3"
	o.SkipSchema = !c.SkipSchema
	return o
}

// c05Poison is a chart whose render fails inside a named template, after that template has produced output.
func c05Poison() *chart.Chart {
	return &chart.Chart{Metadata: &chart.Metadata{APIVersion: "v2", Name: "poison", Version: "1.0.0"},
		Values: map[string]interface{}{"secret": "s3cr3t-of-another-release"},
		Templates: []*chart.File{
			{Name: "templates/_helpers.tpl", Data: []byte("{{- define \"helper\" -}}leftover {{ .Values.secret }} {{ required \"token is required\" .Values.token }}{{- end -}}")},
			{Name: "templates/cm.yaml", Data: []byte("apiVersion: v1\nkind: ConfigMap\nmetadata:\n  name: p\ndata:\n  v: {{ include \"helper\" . | quote }}\n")},
		}}
}

func c05GenChart(t *rapid.T, name string, depth int, notes bool) *c05Chart {
	c := &c05Chart{Name: name}
	c.Templates = append(c.Templates, c05File{"templates/_helpers.tpl", "{{- define \"helper\" -}}{{ .Chart.Name }}-{{ .Values.s }}{{- end -}}"})
	fileNames := []string{"a", "b", "dir/c", "z", "0first", "m"}
	nt := rapid.IntRange(1, 4).Draw(t, name+"nFiles")
	for i := 0; i < nt; i++ {
		var sb strings.Builder
		for d, nd := 0, rapid.IntRange(1, 3).Draw(t, name+"nDocs"); d < nd; d++ {
			kind := rapid.SampledFrom([]string{"ConfigMap", "Secret", "Service", "Zeta", "Alpha"}).Draw(t, "kind")
			hook := ""
			if rapid.IntRange(0, 3).Draw(t, "hook") == 0 {
				hook = fmt.Sprintf("  annotations:\n    \"helm.sh/hook\": pre-install\n    \"helm.sh/hook-weight\": \"%d\"\n", rapid.IntRange(-1, 1).Draw(t, "weight"))
			}
			snip := rapid.SampledFrom(c05Snippets).Draw(t, "snippet")
			if strings.Contains(snip, "%s") {
				snip = fmt.Sprintf(snip, fmt.Sprintf("%s-%d-%d", name, i, d))
			}
			fmt.Fprintf(&sb, "---\napiVersion: v1\nkind: %s\nmetadata:\n  name: %s-%d-%d\n%sdata:\n%s\n", kind, name, i, d, hook, snip)
		}
		if rapid.IntRange(0, 19).Draw(t, "failing") == 0 {
			fmt.Fprintf(&sb, "---\n{{ fail \"boom-%s-%d\" }}\n", name, i)
		}
		c.Templates = append(c.Templates, c05File{fmt.Sprintf("templates/%s%d.yaml", rapid.SampledFrom(fileNames).Draw(t, "fileName"), i), sb.String()})
	}
	if notes {
		c.Templates = append(c.Templates, c05File{"templates/NOTES.txt", "notes of " + name + " {{ .Values.s }}"})
	}
	if depth > 0 {
		for i, n := 0, rapid.IntRange(0, 3).Draw(t, name+"nSub"); i < n; i++ {
			// (named so that the order in which they are loaded is not the alphabetical one)
			c.Deps = append(c.Deps, c05GenChart(t, fmt.Sprintf("%ss%d", name, n-1-i), depth-1, rapid.IntRange(0, 3).Draw(t, "subNotesFile") > 0))
		}
	}
	return c
}

// build constructs the chart; perm (optional) permutes load order of templates, files and dependencies.
func (c *c05Chart) build(perm func(n int) []int) *chart.Chart {
	order := func(n int) []int {
		if perm != nil {
			return perm(n)
		}
		o := make([]int, n)
		for i := range o {
			o[i] = i
		}
		return o
	}
	ch := &chart.Chart{Metadata: &chart.Metadata{APIVersion: "v2", Name: c.Name, Version: "1.0.0"}}
	for _, i := range order(len(c.Templates)) {
		ch.Templates = append(ch.Templates, &chart.File{Name: c.Templates[i].Name, Data: []byte(c.Templates[i].Data)})
	}
	files := []*chart.File{{Name: "files/f1.txt", Data: []byte("one\nuno")}, {Name: "files/f2.txt", Data: []byte("two")}, {Name: "files/f3.txt", Data: []byte("three")}}
	for _, i := range order(len(files)) {
		ch.Files = append(ch.Files, files[i])
	}
	// values map built in (possibly) different insertion order
	m := map[string]interface{}{}
	ks := []string{"a", "b", "c", "d", "e"}
	for _, i := range order(len(ks)) {
		m[ks[i]] = fmt.Sprint(i*0 + strings.Index("abcde", ks[i]) + 1)
	}
	ch.Values = map[string]interface{}{"s": "sv", "m": m, "global": map[string]interface{}{"g": "gv"},
		"ports": []interface{}{map[string]interface{}{"name": "http", "port": float64(80)}}}
	ch.Files = append(ch.Files, &chart.File{Name: "crds/" + c.Name + ".yaml", Data: []byte("apiVersion: apiextensions.k8s.io/v1\nkind: CustomResourceDefinition\nmetadata:\n  name: things." + c.Name + ".example\n")})
	for _, i := range order(len(c.Deps)) {
		ch.AddDependency(c.Deps[i].build(perm))
	}
	return ch
}

type c05Out struct {
	Manifest, Hooks, Notes, Err string
}

func c05Render(c c05ACase, perm func(n int) []int) c05Out {
	return c05RenderChart(c, c.Root.build(perm))
}

// c05RenderChart renders the given chart object (which the caller may render again) under the case's release options.
func c05RenderChart(c c05ACase, ch *chart.Chart) c05Out {
	in := action.NewInstall(&action.Configuration{})
	in.ClientOnly, in.DryRun, in.ReleaseName, in.Namespace, in.SubNotes = true, true, "r", "default", c.SubNotes
	in.IncludeCRDs, in.SkipSchemaValidation = c.IncludeCRDs, c.SkipSchema
	in.APIVersions = chartutil.VersionSet(append([]string(nil), c.APIVersions...))
	if c.KubeVersion != "" {
		kv, err := chartutil.ParseKubeVersion(c.KubeVersion)
		if err != nil {
			return c05Out{Err: "harness: " + err.Error()}
		}
		in.KubeVersion = kv
	}
	rel, err := in.Run(ch, map[string]interface{}{})
	if err != nil {
		return c05Out{Err: err.Error()}
	}
	var hs []string
	for _, h := range rel.Hooks {
		hs = append(hs, fmt.Sprintf("%s|%s|%s|%d|%v|%s", h.Path, h.Name, h.Kind, h.Weight, h.Events, h.Manifest))
	}
	return c05Out{Manifest: rel.Manifest, Hooks: strings.Join(hs, "\n"), Notes: rel.Info.Notes}
}

func c05Diff(a, b c05Out) string {
	switch {
	case a.Err != b.Err:
		return "error"
	case a.Manifest != b.Manifest:
		return "manifest"
	case a.Hooks != b.Hooks:
		return "hooks"
	case a.Notes != b.Notes:
		return "notes"
	}
	return ""
}

func c05JudgeA(tb vt.TB, c c05ACase, permSeeds [][]int) {
	base := c05Render(c, nil)
	fail := func(sig, what string, other c05Out) {
		vt.Violation(tb, sig, fmt.Sprintf("%s differs\n--- first\n%.1500s\n--- other\n%.1500s\ncase %s", what, c05Field(base, what), c05Field(other, what), jsonOf(c)), c)
	}
	ctx := ""
	if c.SubNotes {
		ctx = "/sub-notes"
	}
	// (1) repetition: every run draws fresh map iteration orders
	for i := 0; i < 5; i++ {
		if o := c05Render(c, nil); c05Diff(base, o) != "" {
			fail("C05:A/repeated-render-differs/"+c05Diff(base, o)+ctx, c05Diff(base, o), o)
			return
		}
	}
	// (1b) the same loaded chart OBJECT rendered three times (as an SDK user or a long-running process does)
	same := c.Root.build(nil)
	for i := 0; i < 3; i++ {
		if o := c05RenderChart(c, same); c05Diff(base, o) != "" {
			fail("C05:A/repeated-render-of-the-same-chart-object-differs/"+c05Diff(base, o)+ctx, c05Diff(base, o), o)
			return
		}
	}
	// (1c) ... and once more after the same object was rendered under other release options
	c05RenderChart(c05Other(c), same)
	if o := c05RenderChart(c, same); c05Diff(base, o) != "" {
		fail("C05:A/render-of-a-chart-object-depends-on-an-earlier-render-of-it-with-other-options/"+c05Diff(base, o)+ctx, c05Diff(base, o), o)
		return
	}
	// (2) permutation of load order
	for _, seed := range permSeeds {
		perm := func(n int) []int {
			o := make([]int, n)
			for i := range o {
				o[i] = i
			}
			for i := n - 1; i > 0; i-- {
				j := seed[(i+n)%len(seed)] % (i + 1)
				o[i], o[j] = o[j], o[i]
			}
			return o
		}
		// (the CRD section lists the subcharts' CRDs in the order the chart holds its dependencies - for a chart directory
		// the alphabetical one - so this clause is judged without it)
		cNoCRDs, baseNoCRDs := c, base
		if c.IncludeCRDs {
			cNoCRDs.IncludeCRDs = false
			baseNoCRDs = c05Render(cNoCRDs, nil)
		}
		if o := c05Render(cNoCRDs, perm); c05Diff(baseNoCRDs, o) != "" {
			base = baseNoCRDs
			fail("C05:A/render-depends-on-load-order/"+c05Diff(base, o)+ctx, c05Diff(base, o), o)
			return
		}
	}
	// (3) a render of the same chart under OTHER release options in between changes nothing
	other := c05Other(c)
	c05Render(other, nil)
	if o := c05Render(c, nil); c05Diff(base, o) != "" {
		fail("C05:A/render-depends-on-an-earlier-render-with-other-options/"+c05Diff(base, o)+ctx, c05Diff(base, o), o)
		return
	}
	// (3b) ... and neither does a render of another chart that failed half way through a named template
	if p := c05RenderChart(c, c05Poison()); p.Err == "" {
		tb.Fatalf("harness: the poison chart rendered")
	}
	if o := c05Render(c, nil); c05Diff(base, o) != "" {
		fail("C05:A/render-depends-on-an-earlier-failed-render/"+c05Diff(base, o)+ctx, c05Diff(base, o), o)
		return
	}
	// (4) concurrency: private copies rendered at the same time, next to renders under other release options
	outs := make([]c05Out, 8)
	var wg sync.WaitGroup
	for i := range outs {
		wg.Add(2)
		go func(i int) {
			defer wg.Done()
			outs[i] = c05Render(c, nil)
		}(i)
		go func(i int) {
			defer wg.Done()
			// ... each with a file pattern of its own that nothing in this process has used before
			ch := other.Root.build(nil)
			n := c05Fresh.Add(1)
			pat := fmt.Sprintf("files/f[1-%d].t[x%c]t*", 1+i%3, 'a'+rune(n%26)) + strings.Repeat("*", int(n/26)%5)
			ch.Templates = append(ch.Templates, &chart.File{Name: "templates/zz-other.yaml", Data: []byte("apiVersion: v1\nkind: ConfigMap\nmetadata:\n  name: zz\ndata:\n  n: \"{{ (.Files.Glob \"" + pat + "\") | len }}\"\n")})
			c05RenderChart(other, ch)
		}(i)
	}
	wg.Wait()
	for _, o := range outs {
		if c05Diff(base, o) != "" {
			fail("C05:A/concurrent-render-differs/"+c05Diff(base, o)+ctx, c05Diff(base, o), o)
			return
		}
	}
}

func c05Field(o c05Out, what string) string {
	switch what {
	case "manifest":
		return o.Manifest
	case "hooks":
		return o.Hooks
	case "notes":
		return o.Notes
	}
	return o.Err
}

func c05AProp(t *rapid.T) {
	c := c05ACase{Root: c05GenChart(t, "root", 2, true), SubNotes: rapid.Bool().Draw(t, "subNotes")}
	c.APIVersions = rapid.SampledFrom([][]string{nil, {"alpha.example/v1"}, {"beta.example/v1"}, {"alpha.example/v1", "beta.example/v1"}}).Draw(t, "apiVersions")
	c.KubeVersion = rapid.SampledFrom([]string{"", "", "v1.28.0", "v1.31.2"}).Draw(t, "kubeVersion")
	c.IncludeCRDs = rapid.IntRange(0, 2).Draw(t, "includeCRDs") == 0
	c.SkipSchema = rapid.IntRange(0, 2).Draw(t, "skipSchemaValidation") == 0
	seeds := [][]int{rapid.SliceOfN(rapid.IntRange(0, 1000), 6, 6).Draw(t, "perm1"), rapid.SliceOfN(rapid.IntRange(0, 1000), 6, 6).Draw(t, "perm2")}
	c05JudgeA(t, c05ACaseWith(c), seeds)
	files, notes, ranged, subs := 0, 0, false, 0
	var walk func(x *c05Chart)
	walk = func(x *c05Chart) {
		for _, f := range x.Templates {
			if strings.HasSuffix(f.Name, ".yaml") {
				files++
			}
			if strings.HasSuffix(f.Name, "NOTES.txt") {
				notes++
			}
			if strings.Contains(f.Data, "range $k") || strings.Contains(f.Data, "toYaml .Values.m") {
				ranged = true
			}
		}
		for _, d := range x.Deps {
			subs++
			walk(d)
		}
	}
	walk(c.Root)
	lbls := []string{fmt.Sprintf("subcharts:%d", min(subs, 4))}
	if len(c.APIVersions) > 0 {
		lbls = append(lbls, "extra-api-versions")
	}
	if c.SubNotes && notes >= 2 {
		lbls = append(lbls, "sub-notes-with-several-notes-files")
	}
	evid.Case(lbls, jsonOf(c), files >= 2 && (ranged || notes >= 2 || subs > 0), map[string]interface{}{"subNotes": c.SubNotes, "templates": c.Root.Templates, "subcharts": subs})
}

func c05ACaseWith(c c05ACase) c05ACase { return c }

// TestC05ARace is TestC05A in a binary built with the race detector: renders under different release options running
// at the same time must not touch shared state (a report is a violation: the outcome of one render would depend on another).
func TestC05ARace(t *testing.T) {
	rapid.Check(t, c05AProp)
}

func TestC05A(t *testing.T) {
	evid.Extra("rule", "C05A: charts with 1-4 template files per chart (1-3 documents each, hooks with weights, unknown kinds), partials, 0-3 subcharts on two levels each with or without NOTES.txt, SubNotes on/off, a crds/ file in every chart and --include-crds in a third of the cases, --skip-schema-validation in a third, subcharts named so that load order is not alphabetical, built from a grammar of snippets limited to functions documented as deterministic (ranged maps, toYaml/toJson/fromYaml, Files.Get/Glob/Lines/AsConfig, include, tpl, merge, pick, sha256sum, set on shared values read by other files, fail, .Capabilities.APIVersions.Has / KubeVersion), rendered under generated release options (extra API versions, kube version). Oracles: 6 renders of freshly built copies are identical (manifest, hooks with order, notes, or the error text); 2 renders with templates, files, dependencies and the values map loaded in permuted order equal the first; the same chart OBJECT rendered three times, and once more after it was rendered under other release options (other API versions, kube version, schema validation switched the other way), equals the first; a render of the same chart under OTHER release options in between changes nothing, nor does a render of another chart that fails half way through a named template (the load-order clause is judged without the CRD section, which follows the order in which the chart holds its dependencies); 8 concurrent renders of private copies, next to 8 renders under other release options, equal the first (TestC05ARace: the same in a race-detector binary). Non-trivial = at least two template files and a ranged map, several NOTES files or a subchart; distinct by the chart.")
	evid.Extra("assumptions", []string{"functions documented as random / time / cluster dependent (now, rand*, uuidv4, gen*, htpasswd, encrypt*, lookup) and unsorted keys/values are not in the grammar: a chart using them is nondeterministic by its own doing"})
	rapid.Check(t, c05AProp)
}

// ------------------------------------------------------------------ B: host independence

type c05BCase struct {
	Kind     string `json:"kind"` // template | schema | dns
	Template string `json:"template,omitempty"`
	Schema   string `json:"schema,omitempty"` // with @CANARY@ / @CANARYDIR@ placeholders
	Values   string `json:"values,omitempty"` // JSON
}

var c05HostTemplates = []string{
	"v: {{ .Files.Get \"../../canary.txt\" | quote }}",
	"v: {{ .Files.Get \"@CANARY@\" | quote }}",
	"v: {{ .Files.Get \"/etc/hostname\" | quote }}",
	"v: {{ (.Files.Glob \"@CANARYDIR@/*\") | len }}",
	"v: {{ (.Files.Glob \"../**\") | len }}",
	"v: {{ .Files.Lines \"@CANARY@\" | len }}",
	"v: {{ (.Files.Glob \"**\").AsConfig | quote }}",
	"v: {{ env \"C05_CANARY\" | quote }}",
	"v: {{ expandenv \"$C05_CANARY\" | quote }}",
	"v: {{ \"$C05_CANARY\" | quote }}-{{ .Values.s }}",
	"v: {{ osBase \"a/b\" }}-{{ base \"a/b\" }}",
	"v: {{ getHostByName \"localhost\" | quote }}",
	"v: {{ getHostByName \"canary.invalid\" | quote }}",
	// the same functions reached through tpl, nested tpl, and a named template included from tpl text
	"v: {{ tpl \"{{ getHostByName \\\"localhost\\\" }}\" . | quote }}",
	"v: {{ tpl \"{{ tpl \\\"{{ getHostByName `localhost` }}\\\" . }}\" . | quote }}",
	"v: {{ tpl \"{{ include \\\"dnshelper\\\" . }}\" . | quote }}",
	"v: {{ tpl \"{{ .Files.Get \\\"@CANARY@\\\" }}\" . | quote }}",
	"v: {{ .Files.Get \"files/f1.txt\" | quote }}",
	"v: {{ include \"nohelper\" . | default \"x\" }}",
}

var c05Schemas = []string{
	`{"type":"object","properties":{"a":{"$ref":"#/definitions/str"}},"definitions":{"str":{"type":"string"}}}`,
	`{"type":"object","properties":{"a":{"$ref":"file://@CANARY@"}}}`,
	`{"$ref":"file://@CANARY@"}`,
	`{"type":"object","properties":{"a":{"$ref":"@CANARYBASE@"}}}`,
	`{"type":"object","properties":{"a":{"$ref":"../@CANARYBASE@"}}}`,
	`{"type":"object","properties":{"a":{"$ref":"@CANARY@"}}}`,
	`{"type":"object","properties":{"a":{"$ref":"http://127.0.0.1:1/schema.json"}}}`,
	`{"type":"object","properties":{"a":{"$ref":"https://canary.invalid/schema.json"}}}`,
	`{"$id":"file://@CANARYDIR@/base.json","type":"object","properties":{"a":{"$ref":"@CANARYBASE@"}}}`,
}

var c05IPLike = regexp.MustCompile(`\d+\.\d+\.\d+\.\d+|::1|[0-9a-f]+:[0-9a-f:]+:[0-9a-f]+`)

type c05Host struct {
	dir    string // sandbox: <dir>/canary.json, <dir>/canary.txt, <dir>/cwdA, <dir>/cwdB
	origWD string
}

func c05NewHost() (*c05Host, error) {
	d, err := os.MkdirTemp("", "c05host")
	if err != nil {
		return nil, err
	}
	wd, _ := os.Getwd()
	for _, s := range []string{"cwdA", "cwdB/deeper"} {
		_ = os.MkdirAll(filepath.Join(d, s), 0o755)
	}
	return &c05Host{dir: d, origWD: wd}, nil
}

func (h *c05Host) close() {
	_ = os.Chdir(h.origWD)
	os.Unsetenv("C05_CANARY")
	_ = os.RemoveAll(h.dir)
}

// world sets the host state for one of the two twin runs.
func (h *c05Host) world(variant int) {
	accept := `{}`
	reject := `{"not":{}}`
	txt := "host-content-A"
	cwd := filepath.Join(h.dir, "cwdA")
	env := "env-A"
	schema := accept
	if variant == 1 {
		txt, cwd, env, schema = "host-content-B\nsecond line", filepath.Join(h.dir, "cwdB", "deeper"), "env-B", reject
	}
	_ = os.WriteFile(filepath.Join(h.dir, "canary.txt"), []byte(txt), 0o644)
	_ = os.WriteFile(filepath.Join(h.dir, "canary.json"), []byte(schema), 0o644)
	// the same canaries also relative to the working directories
	for _, wd := range []string{filepath.Join(h.dir, "cwdA"), filepath.Join(h.dir, "cwdB", "deeper")} {
		_ = os.WriteFile(filepath.Join(wd, "canary.txt"), []byte(txt), 0o644)
		_ = os.WriteFile(filepath.Join(wd, "canary.json"), []byte(schema), 0o644)
		_ = os.WriteFile(filepath.Join(filepath.Dir(wd), "canary.json"), []byte(schema), 0o644)
	}
	_ = os.Chdir(cwd)
	os.Setenv("C05_CANARY", env)
}

func (h *c05Host) subst(s string, ext string) string {
	s = strings.ReplaceAll(s, "@CANARYDIR@", h.dir)
	s = strings.ReplaceAll(s, "@CANARYBASE@", "canary."+ext)
	return strings.ReplaceAll(s, "@CANARY@", filepath.Join(h.dir, "canary."+ext))
}

func c05JudgeB(tb vt.TB, c c05BCase) {
	h, err := c05NewHost()
	if err != nil {
		tb.Fatalf("harness: %v", err)
	}
	defer h.close()
	fail := func(sig, d string) { vt.Violation(tb, sig, d+"\ncase "+jsonOf(c), c) }
	switch c.Kind {
	case "template":
		run := func(variant int) c05Out {
			h.world(variant)
			ch := &chart.Chart{Metadata: &chart.Metadata{APIVersion: "v2", Name: "c", Version: "1.0.0"}, Values: map[string]interface{}{"s": "sv"},
				Templates: []*chart.File{{Name: "templates/t.yaml", Data: []byte("apiVersion: v1\nkind: ConfigMap\nmetadata:\n  name: t\ndata:\n  " + h.subst(c.Template, "txt") + "\n")},
					{Name: "templates/_h.tpl", Data: []byte("{{- define \"dnshelper\" -}}{{ getHostByName \"localhost\" }}{{- end -}}")}},
				Files: []*chart.File{{Name: "files/f1.txt", Data: []byte("chart-own-file")}}}
			in := action.NewInstall(&action.Configuration{})
			in.ClientOnly, in.DryRun, in.ReleaseName, in.Namespace = true, true, "r", "default"
			rel, err := in.Run(ch, map[string]interface{}{})
			if err != nil {
				return c05Out{Err: err.Error()}
			}
			return c05Out{Manifest: rel.Manifest}
		}
		a, b := run(0), run(1)
		if strings.Contains(c.Template, "env ") || strings.Contains(c.Template, "expandenv") {
			if a.Err == "" || b.Err == "" {
				fail("C05:B/template-can-read-process-environment", fmt.Sprintf("env/expandenv did not fail to parse: %q / %q", a.Manifest, b.Manifest))
				return
			}
		}
		// error texts may mention nothing host specific either, but only outputs are judged for equality of success
		if (a.Err == "") != (b.Err == "") || a.Manifest != b.Manifest {
			fail("C05:B/render-depends-on-host-state", fmt.Sprintf("variant A: %q %q\nvariant B: %q %q", a.Manifest, a.Err, b.Manifest, b.Err))
			return
		}
		for _, leak := range []string{"host-content", "env-A", "env-B"} {
			if strings.Contains(a.Manifest+b.Manifest, leak) {
				fail("C05:B/host-content-visible-in-render", leak)
				return
			}
		}
		if (strings.Contains(c.Template, "getHostByName") || strings.Contains(c.Template, "dnshelper")) && a.Err == "" && c05IPLike.MatchString(a.Manifest) {
			fail("C05:B/dns-lookup-although-not-enabled", a.Manifest)
			return
		}
	case "schema":
		var vals map[string]interface{}
		_ = json.Unmarshal([]byte(c.Values), &vals)
		run := func(variant int) string {
			h.world(variant)
			ch := &chart.Chart{Metadata: &chart.Metadata{APIVersion: "v2", Name: "c", Version: "1.0.0"}, Values: map[string]interface{}{},
				Templates: []*chart.File{{Name: "templates/t.yaml", Data: []byte("apiVersion: v1\nkind: ConfigMap\nmetadata:\n  name: t\n")}},
				Schema:    []byte(h.subst(c.Schema, "json"))}
			in := action.NewInstall(&action.Configuration{})
			in.ClientOnly, in.DryRun, in.ReleaseName, in.Namespace = true, true, "r", "default"
			_, err := in.Run(ch, deepCopyVal(vals).(map[string]interface{}))
			if err != nil {
				return "reject"
			}
			return "accept"
		}
		a, b := run(0), run(1)
		if a != b {
			form := "other"
			switch {
			case strings.Contains(c.Schema, `"file://@CANARY@"`):
				form = "absolute-file-url"
			case strings.Contains(c.Schema, `"$id"`):
				form = "relative-to-file-id"
			case strings.Contains(c.Schema, `"@CANARY@"`):
				form = "absolute-path"
			case strings.Contains(c.Schema, `../@CANARYBASE@`):
				form = "parent-relative"
			case strings.Contains(c.Schema, `"@CANARYBASE@"`):
				form = "relative"
			}
			fail("C05:B/schema-outcome-follows-host-file/"+form, fmt.Sprintf("host file accepts -> %s, host file rejects -> %s", a, b))
		}
	case "dns":
		// install then upgrade for real (the upgrade path renders separately)
		w := world.New("memory")
		cs := func() *chart.Chart {
			return &chart.Chart{Metadata: &chart.Metadata{APIVersion: "v2", Name: "c", Version: "1.0.0"}, Values: map[string]interface{}{},
				Templates: []*chart.File{{Name: "templates/t.yaml", Data: []byte("apiVersion: v1\nkind: ConfigMap\nmetadata:\n  name: dns\ndata:\n  addr: {{ getHostByName \"localhost\" | quote }}\n")}}}
		}
		for _, kind := range []string{"install", "upgrade", "upgrade"} {
			op := &world.Op{Kind: kind, DisableHooks: true, ChartFn: cs}
			if kind == "upgrade" && c.Template == "dry" {
				op.DryRunOption = "server"
			}
			res := w.Run(op)
			if res.Err != nil || res.Rel == nil {
				fail("C05:B/harness/dns-case-failed", fmt.Sprint(res.Err))
				return
			}
			if !strings.Contains(res.Rel.Manifest, `addr: ""`) {
				fail("C05:B/dns-lookup-although-not-enabled/"+kind, res.Rel.Manifest)
				return
			}
		}
	}
}

func c05BProp(t *rapid.T) {
	var c c05BCase
	switch rapid.IntRange(0, 9).Draw(t, "kind") {
	case 0:
		c = c05BCase{Kind: "dns", Template: rapid.SampledFrom([]string{"real", "dry"}).Draw(t, "dnsMode")}
	case 1, 2, 3:
		c = c05BCase{Kind: "schema", Schema: rapid.SampledFrom(c05Schemas).Draw(t, "schema"), Values: rapid.SampledFrom([]string{`{"a":"x"}`, `{"a":1}`, `{}`}).Draw(t, "values")}
	default:
		n := rapid.IntRange(1, 2).Draw(t, "nLines")
		var ls []string
		for i := 0; i < n; i++ {
			ls = append(ls, strings.Replace(rapid.SampledFrom(c05HostTemplates).Draw(t, "line"), "v:", fmt.Sprintf("v%d:", i), 1))
		}
		c = c05BCase{Kind: "template", Template: strings.Join(ls, "\n  ")}
	}
	c05JudgeB(t, c)
	nontrivial := c.Kind != "template" || strings.Contains(c.Template, "CANARY") || strings.Contains(c.Template, "env") || strings.Contains(c.Template, "..")
	if c.Kind == "schema" {
		nontrivial = !strings.Contains(c.Schema, "#/definitions")
	}
	evid.Case([]string{"kind:" + c.Kind}, jsonOf(c), nontrivial, c)
}

func TestC05B(t *testing.T) {
	evid.Extra("rule", "C05B: twin renders of the same chart under two host states that differ in the environment variable the templates try to read, the working directory, and the contents of canary files at every path the chart tries to reach (Files.Get/Glob/Lines with ../.. and absolute paths; schema $ref as #/definitions, file:// URL, absolute path, relative, ../relative, relative to a file:// $id, http(s)://): outputs and accept/reject outcomes must be identical, no canary content may appear, env/expandenv must fail to parse, getHostByName must yield \"\" when DNS is not enabled, called directly or through tpl, nested tpl and a named template included from tpl text (also through a real install followed by real and server-dry-run upgrades). Non-trivial = a case that reaches for something outside the chart; distinct by the case.")
	evid.Extra("assumptions", []string{"process-wide state (cwd, environment) is changed and restored by the test; the test functions of this property never run in parallel"})
	rapid.Check(t, c05BProp)
}

// ------------------------------------------------------------------ replay / known

func c05Dispatch(tb vt.TB, d *replayDoc) {
	if strings.HasPrefix(d.Signature, "C05:B/") {
		var c c05BCase
		if err := json.Unmarshal(d.Case, &c); err != nil {
			tb.Fatalf("bad case: %v", err)
		}
		c05JudgeB(tb, c)
		return
	}
	var c c05ACase
	if err := json.Unmarshal(d.Case, &c); err != nil {
		tb.Fatalf("bad case: %v", err)
	}
	c05JudgeA(tb, c, [][]int{{3, 1, 4, 1, 5, 9}, {2, 7, 1, 8, 2, 8}})
}

func TestC05_Replay(t *testing.T) {
	p := os.Getenv("VERIF_REPLAY_JSON")
	if p == "" {
		t.Skip("no VERIF_REPLAY_JSON")
	}
	d, err := loadReplayDoc(p)
	if err != nil {
		t.Fatal(err)
	}
	c05Dispatch(t, d)
}

func TestC05_Known(t *testing.T) {
	for _, e := range knownEntries("C05") {
		d, err := loadReplayDoc(e.Replay)
		if err != nil {
			fmt.Printf("KNOWN-GONE sig=%s :: replay unreadable: %v\n", e.Signature, err)
			continue
		}
		vt.CheckKnown(e.Signature, e.What, func(tb vt.TB) { c05Dispatch(tb, d) })
	}
}

var _ = sort.Strings
