package props

// Native fuzz targets for C16: the input bytes are decoded into a structured archive case (entries, planted
// layout, framing) and judged by the same snapshot oracle as TestC16A.

import (
	"fmt"
	"os"
	"path/filepath"
	"strconv"
	"strings"
	"testing"
)

type c16Cursor struct {
	b []byte
	i int
}

func (c *c16Cursor) next() int {
	if c.i >= len(c.b) {
		return 0
	}
	v := c.b[c.i]
	c.i++
	return int(v)
}

func (c *c16Cursor) left() int { return len(c.b) - c.i }

func (c *c16Cursor) raw(n int) string {
	if n > c.left() {
		n = c.left()
	}
	s := string(c.b[c.i : c.i+n])
	c.i += n
	return s
}

var c16FuzzComps = append(append([]string{}, c16Benign...), c16Hostile...)
var c16FuzzTypes = []string{"0", "0", "0", "0", "", "5", "2", "2", "1", "3", "6", "7", "g", "Z", "S", "x"}
var c16FuzzEncs = []string{"", "", "", "gnu", "pax", "v7"}

// c16Decode maps fuzz bytes to a case:
//
//	[opts: bit0 clear = announce parent directories (extract)] [chartName] [nPlants%3] {plantAt plantKind plantTo}* [nEntries%6+1] {prefix nComps%5+1 {comp | 0xff len raw} sepBits type link enc flags}* {mutOffLo mutOffHi xor}*
func c16Decode(data []byte, target string) *c16ACase {
	cur := &c16Cursor{b: data}
	c := &c16ACase{Target: target}
	pick := func(list []string) string { return list[cur.next()%len(list)] }
	opts := cur.next()
	chartName := pick(c16ChartNm)
	for i, n := 0, cur.next()%3; i < n; i++ {
		p := c16Plant{Path: pick(c16PlantAt)}
		switch cur.next() % 6 {
		case 0:
			p.Kind = "dir"
		case 1:
			p.Kind = "file"
		default:
			p.Kind = "symlink"
		}
		p.Target = pick(c16PlantTo)
		if strings.HasPrefix(p.Target, "REL/") {
			p.Target = strings.Repeat("../", strings.Count(p.Path, "/")+2) + strings.TrimPrefix(p.Target, "REL/")
		}
		c.Plants = append(c.Plants, p)
	}
	c.Entries = append(c.Entries, c16Entry{Name: "mychart/Chart.yaml", Type: "0", Body: c16S(c16ChartYAML(chartName))})
	last := ""
	for i, n := 0, cur.next()%6+1; i < n && cur.left() > 0; i++ {
		var sb strings.Builder
		pfx := cur.next()
		if pfx == 0xfe && last != "" {
			sb.WriteString(last + "/")
		} else {
			sb.WriteString(c16Prefix[pfx%len(c16Prefix)])
		}
		nc := cur.next()%5 + 1
		seps := cur.next()
		for j := 0; j < nc; j++ {
			if j > 0 {
				if seps&(1<<uint(j)) != 0 {
					sb.WriteByte('\\')
				} else {
					sb.WriteByte('/')
				}
			}
			k := cur.next()
			if k == 0xff {
				sb.WriteString(cur.raw(cur.next() % 24))
			} else {
				sb.WriteString(c16FuzzComps[k%len(c16FuzzComps)])
			}
		}
		e := c16Entry{Name: c16S(sb.String()), Type: pick(c16FuzzTypes), Body: "PWNED\n"}
		e.Link = c16S(pick(c16Links))
		e.Enc = pick(c16FuzzEncs)
		flags := cur.next()
		if e.Type == "1" || e.Type == "2" {
			e.Body = ""
			last = string(e.Name)
		} else if e.Type != "g" && e.Type != "x" {
			e.Link = ""
		}
		if e.Type == "S" {
			e.RealSize = int64(len(e.Body)) + int64(flags)
		}
		if flags&0xc0 == 0xc0 {
			v := int64(flags&0x3f) * 20
			e.DeclSize = &v
		}
		if flags&0x30 == 0x30 {
			e.Mode = 0o4777
		}
		c.Entries = append(c.Entries, e)
	}
	for cur.left() >= 3 && len(c.Muts) < 8 {
		off := cur.next() | cur.next()<<8
		c.Muts = append(c.Muts, c16Mut{Off: off, Xor: byte(cur.next())})
	}
	c.FixSums = len(c.Muts)%2 == 1
	if opts&1 == 0 && target == "extract" {
		c.Entries = c16WithDirs(c.Entries, c.Plants)
	}
	return c
}

// ---- seed corpus: assembled with a small encoder for the grammar above ------------------------------------------

func c16Idx(list []string, v string) byte {
	for i, x := range list {
		if x == v {
			return byte(i)
		}
	}
	panic("c16 seed: " + v + " not in vocabulary")
}

type c16SeedEntry struct {
	prefix string   // from c16Prefix; "<last>" = route through the previous link entry
	comps  []string // from c16FuzzComps; a component starting with "raw:" is emitted literally
	bslash byte     // bit j set = backslash before component j
	typ    string
	link   string
	enc    string
	flags  byte
}

func c16Seed(chartName string, plants [][3]string, entries []c16SeedEntry, muts ...[3]byte) []byte {
	b := []byte{0, c16Idx(c16ChartNm, chartName), byte(len(plants))}
	for _, p := range plants {
		kind := map[string]byte{"dir": 0, "file": 1, "symlink": 2}[p[1]]
		b = append(b, c16Idx(c16PlantAt, p[0]), kind, c16Idx(c16PlantTo, p[2]))
	}
	b = append(b, byte(len(entries)-1))
	for _, e := range entries {
		if e.prefix == "<last>" {
			b = append(b, 0xfe)
		} else {
			b = append(b, c16Idx(c16Prefix, e.prefix))
		}
		b = append(b, byte(len(e.comps)-1), e.bslash)
		for _, c := range e.comps {
			if strings.HasPrefix(c, "raw:") {
				b = append(b, 0xff, byte(len(c)-4))
				b = append(b, c[4:]...)
			} else {
				b = append(b, c16Idx(c16FuzzComps, c))
			}
		}
		link := e.link
		if link == "" {
			link = c16Links[0]
		}
		b = append(b, c16Idx(c16FuzzTypes, e.typ), c16Idx(c16Links, link), c16Idx(c16FuzzEncs, e.enc), e.flags)
	}
	for _, m := range muts {
		b = append(b, m[:]...)
	}
	return b
}

var c16FuzzSeeds = [][]byte{
	// benign chart, one regular file
	c16Seed("mychart", nil, []c16SeedEntry{{prefix: "mychart/", comps: []string{"templates", "f.txt"}, typ: "0"}}),
	// dest/mychart is a planted link to the outside directory; archive writes mychart/canary
	c16Seed("mychart", [][3]string{{"mychart", "symlink", "$OUT"}}, []c16SeedEntry{{prefix: "mychart/", comps: []string{"canary"}, typ: "0"}}),
	// planted file link mychart/values.yaml -> outside canary; archive writes values.yaml
	c16Seed("mychart", [][3]string{{"mychart/values.yaml", "symlink", "$OUT/canary"}}, []c16SeedEntry{{prefix: "mychart/", comps: []string{"values.yaml"}, typ: "0"}}),
	// planted relative directory link mychart/templates -> ../../../outside
	c16Seed("mychart", [][3]string{{"mychart/templates", "symlink", "REL/outside"}}, []c16SeedEntry{{prefix: "mychart/", comps: []string{"templates", "canary"}, typ: "0"}}),
	// chart name escapes: name "../../outside"
	c16Seed("../../outside", nil, []c16SeedEntry{{prefix: "mychart/", comps: []string{"canary"}, typ: "0"}}),
	// chart name absolute
	c16Seed("$OUT", nil, []c16SeedEntry{{prefix: "mychart/", comps: []string{"canary"}, typ: "0"}}),
	// classic traversal names
	c16Seed("mychart", nil, []c16SeedEntry{{prefix: "mychart/../../../outside/", comps: []string{"canary"}, typ: "0"}}),
	c16Seed("mychart", nil, []c16SeedEntry{{prefix: "../../outside/", comps: []string{"canary"}, typ: "0"}}),
	c16Seed("mychart", nil, []c16SeedEntry{{prefix: "mychart\\..\\..\\..\\outside\\", comps: []string{"canary"}, typ: "0"}}),
	c16Seed("mychart", nil, []c16SeedEntry{{prefix: "mychart/", comps: []string{"a", "..", "..", "..", "outside"}, bslash: 0x14, typ: "0"}}),
	// absolute names, plain and in GNU / PAX long-name members
	c16Seed("mychart", nil, []c16SeedEntry{{prefix: "$OUT/", comps: []string{"canary"}, typ: "0"}}),
	c16Seed("mychart", nil, []c16SeedEntry{{prefix: "$OUT/", comps: []string{strings.Repeat("n", 120), "canary"}, typ: "0", enc: "gnu"}}),
	c16Seed("mychart", nil, []c16SeedEntry{{prefix: "/tmp/c16-abs-escape/", comps: []string{"x"}, typ: "0", enc: "pax"}}),
	// drive prefixes
	c16Seed("mychart", nil, []c16SeedEntry{{prefix: "c:\\", comps: []string{"..", "..", "outside", "canary"}, bslash: 0x0e, typ: "0"}}),
	c16Seed("mychart", nil, []c16SeedEntry{{prefix: "mychart/", comps: []string{"C:", "..", "canary"}, typ: "0"}}),
	// symlink member followed by a member routed through it
	c16Seed("mychart", nil, []c16SeedEntry{
		{prefix: "mychart/", comps: []string{"lnk"}, typ: "2", link: "$OUT"},
		{prefix: "<last>", comps: []string{"canary"}, typ: "0"}}),
	// hard link member to the outside canary, then overwrite through it
	c16Seed("mychart", nil, []c16SeedEntry{
		{prefix: "mychart/", comps: []string{"lnk"}, typ: "1", link: "$OUT/canary"},
		{prefix: "mychart/", comps: []string{"lnk"}, typ: "0"}}),
	// raw bytes: NUL, invalid UTF-8, dot-dot with trailing space
	c16Seed("mychart", nil, []c16SeedEntry{{prefix: "mychart/", comps: []string{"raw:..\x00/../x", "raw:\xff\xfe.. ", "canary"}, typ: "0", enc: "pax"}}),
	// directory member on top of a planted link, fifo and device members
	c16Seed("mychart", [][3]string{{"lnk", "symlink", "$OUT/missing"}}, []c16SeedEntry{
		{prefix: "", comps: []string{"lnk"}, typ: "5"},
		{prefix: "", comps: []string{"lnk", "raw:pwned"}, typ: "0"},
		{prefix: "mychart/", comps: []string{"x"}, typ: "6"},
		{prefix: "mychart/", comps: []string{"a"}, typ: "3"}}),
	// lying size field, setuid mode, header byte flips with checksum repair
	c16Seed("mychart", nil, []c16SeedEntry{{prefix: "mychart/", comps: []string{"f.txt"}, typ: "0", flags: 0xf5}, {prefix: "mychart/", comps: []string{"x"}, typ: "S", flags: 9}},
		[3]byte{0x7c, 0x02, 0x31}, [3]byte{0x9c, 0x02, 0x35}, [3]byte{0x05, 0x04, 0x2e}),
}

func c16AddSeeds(f *testing.F) {
	for _, s := range c16FuzzSeeds {
		f.Add(s)
	}
}

func FuzzC16Expand(f *testing.F) {
	c16AddSeeds(f)
	f.Fuzz(func(t *testing.T, data []byte) {
		if len(data) > 4096 {
			return
		}
		c16JudgeA(t, c16Decode(data, "expand"))
	})
}

func FuzzC16Extract(f *testing.F) {
	c16AddSeeds(f)
	f.Fuzz(func(t *testing.T, data []byte) {
		if len(data) > 4096 {
			return
		}
		c16JudgeA(t, c16Decode(data, "extract"))
	})
}

// TestC16_WriteSeedCorpus regenerates testdata/fuzz/FuzzC16*/seed-NN from c16FuzzSeeds (only with C16_WRITE_CORPUS=1).
func TestC16_WriteSeedCorpus(t *testing.T) {
	if os.Getenv("C16_WRITE_CORPUS") != "1" {
		t.Skip("set C16_WRITE_CORPUS=1 to rewrite the seed corpus files")
	}
	for i, s := range c16FuzzSeeds {
		if os.Getenv("C16_SHOW_SEEDS") == "1" {
			fmt.Printf("SEED %d %s\n", i, c16JSON(c16Decode(s, "expand")))
		}
		for _, tgt := range []string{"FuzzC16Expand", "FuzzC16Extract"} {
			dir := filepath.Join("testdata", "fuzz", tgt)
			if err := os.MkdirAll(dir, 0o755); err != nil {
				t.Fatal(err)
			}
			body := "go test fuzz v1\n[]byte(" + strconv.Quote(string(s)) + ")\n"
			if err := os.WriteFile(filepath.Join(dir, fmt.Sprintf("seed-%02d", i)), []byte(body), 0o644); err != nil {
				t.Fatal(err)
			}
		}
	}
}
