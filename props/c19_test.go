package props

// C19 — repository credentials are sent only to the repository's own origin.
//
// Every case configures one (sometimes two) chart repositories with a username/password, lets one of Helm's
// download paths run against local capture listeners that impersonate every host, and then judges the captured
// requests alone: a request whose Authorization header equals a repository's configured credentials must have been
// sent to that repository's scheme/host/port, unless that repository has pass-credentials enabled.

import (
	"encoding/json"
	"fmt"
	"io"
	"net/http"
	"net/url"
	"os"
	"path/filepath"
	"sort"
	"strings"
	"testing"
	"time"

	"pgregory.net/rapid"

	"helm.sh/helm/v4/pkg/action"
	chart "helm.sh/helm/v4/pkg/chart/v2"
	chartutil "helm.sh/helm/v4/pkg/chart/v2/util"
	"helm.sh/helm/v4/pkg/cli"
	"helm.sh/helm/v4/pkg/downloader"
	"helm.sh/helm/v4/pkg/getter"
	"helm.sh/helm/v4/pkg/helmpath"
	"helm.sh/helm/v4/pkg/repo"

	"verif/internal/evid"
	"verif/internal/vt"
)

const (
	c19Chart = "c19dep"
	c19File  = "c19dep-1.0.0.tgz"
)

// ---------------------------------------------------------------------------------------------------------------
// the replayable case

type c19Repo struct {
	Name     string `json:"name"`
	URL      string `json:"url"`
	User     string `json:"user,omitempty"`
	Pass     string `json:"pass,omitempty"`
	PassAll  bool   `json:"pass_credentials_all,omitempty"`
	ChartURL string `json:"chart_url"` // urls[0] of chart c19dep 1.0.0 in this repository's index
}

type c19Redirect struct {
	Kind  string   `json:"kind"` // which request gets redirected: index | chart | prov
	Repo  int      `json:"repo"` // for index: whose index
	Hops  []string `json:"hops"` // literal Location values; each path contains /c19rd/<redirect>/<hop>/
	Class []string `json:"class,omitempty"`
}

type c19Case struct {
	Path          string    `json:"path"` // getter | downloader | locate | pull | manager
	Mode          string    `json:"mode"` // reponame | reponame-flag-creds | absolute-url | repo-flag | direct-url | (manager) how the dependency names its repository
	Repos         []c19Repo `json:"repos"`
	Main          int       `json:"main"`  // the repository the operation addresses
	Class         string    `json:"class"` // relation of the chart URL to the repository URL, as generated (label only)
	Hrefs         []string  `json:"hrefs,omitempty"`
	Ref           string    `json:"ref,omitempty"`
	Verify        string    `json:"verify,omitempty"` // never | ifpossible | later | always
	DepRepository string    `json:"dep_repository,omitempty"`
	DepVersion    string    `json:"dep_version,omitempty"`
	SkipUpdate    bool      `json:"skip_update,omitempty"`
	UpdateFirst   bool      `json:"update_first,omitempty"` // downloader: refresh the repository's index first (helm repo update)
	// ThenPull (pull): a second reference pulled with the same Pull object afterwards, as `helm pull a b` does
	ThenPull  string        `json:"then_pull,omitempty"`
	Redirects []c19Redirect `json:"redirects,omitempty"`
}

func c19JSON(v interface{}) string {
	b, _ := json.Marshal(v)
	return string(b)
}

func (cs *c19Case) modeName() string {
	if cs.Path == "getter" || cs.Path == "manager" {
		return cs.Path
	}
	return cs.Path + "/" + cs.Mode
}

// ---------------------------------------------------------------------------------------------------------------
// execution

type c19Env struct {
	base    string
	n       int
	archive []byte
}

func c19NewEnv(base string) (*c19Env, error) {
	c := &chart.Chart{Metadata: &chart.Metadata{APIVersion: "v2", Name: c19Chart, Version: "1.0.0"}}
	p, err := chartutil.Save(c, filepath.Join(base, "arch"))
	if err != nil {
		return nil, err
	}
	b, err := os.ReadFile(p)
	if err != nil {
		return nil, err
	}
	return &c19Env{base: base, archive: b}, nil
}

func c19Index(chartURL string) []byte {
	return []byte(fmt.Sprintf("apiVersion: v1\nentries:\n  %s:\n  - name: %s\n    version: 1.0.0\n    urls: [%q]\ngenerated: \"2020-01-01T00:00:00Z\"\n", c19Chart, c19Chart, chartURL))
}

func c19Verify(s string) downloader.VerificationStrategy {
	switch s {
	case "ifpossible":
		return downloader.VerifyIfPossible
	case "later":
		return downloader.VerifyLater
	case "always":
		return downloader.VerifyAlways
	}
	return downloader.VerifyNever
}

// c19Exec runs the operation of the case against the capture listeners and returns what they saw.
func c19Exec(env *c19Env, cs *c19Case) (reqs []c19Req, opErr error, harness error) {
	if cs.Main < 0 || cs.Main >= len(cs.Repos) {
		return nil, nil, fmt.Errorf("case has no main repository")
	}
	cp := c19Capture()
	env.n++
	dir := filepath.Join(env.base, fmt.Sprintf("case%d", env.n))
	cache, dest := filepath.Join(dir, "cache"), filepath.Join(dir, "dest")
	for _, d := range []string{cache, dest, filepath.Join(dir, "plugins")} {
		if err := os.MkdirAll(d, 0o755); err != nil {
			return nil, nil, err
		}
	}
	defer os.RemoveAll(dir)
	main := cs.Repos[cs.Main]
	flagMode := cs.Mode == "repo-flag" || cs.Mode == "direct-url" // nothing configured: URL and credentials come from flags
	flagCreds := flagMode || cs.Mode == "reponame-flag-creds"     // credentials come from --username/--password
	proxied := cs.Path == "locate" || cs.Path == "pull"

	index := make([][]byte, len(cs.Repos))
	rf := repo.NewFile()
	for i, r := range cs.Repos {
		index[i] = c19Index(r.ChartURL)
		if flagMode {
			continue // credentials come from flags; nothing is configured
		}
		e := &repo.Entry{Name: r.Name, URL: r.URL, Username: r.User, Password: r.Pass, PassCredentialsAll: r.PassAll, InsecureSkipTLSverify: proxied}
		if flagCreds && i == cs.Main {
			e.Username, e.Password, e.PassCredentialsAll = "", "", false
		}
		rf.Add(e)
		if err := os.WriteFile(filepath.Join(cache, helmpath.CacheIndexFile(r.Name)), index[i], 0o644); err != nil {
			return nil, nil, err
		}
	}
	repoConfig := filepath.Join(dir, "repositories.yaml")
	if err := rf.WriteFile(repoConfig, 0o644); err != nil {
		return nil, nil, err
	}
	providers := getter.Providers{{Schemes: []string{"http", "https"}, New: func(o ...getter.Option) (getter.Getter, error) {
		return getter.NewHTTPGetter(append(o, getter.WithTransport(cp.tr))...)
	}}}

	cp.begin(cs, index, env.archive)
	defer func() {
		if reqs == nil {
			reqs = cp.end()
		}
	}()

	switch cs.Path {
	case "getter":
		g, err := getter.NewHTTPGetter(getter.WithTransport(cp.tr))
		if err != nil {
			return nil, nil, err
		}
		for i, h := range cs.Hrefs {
			if i == 0 {
				_, opErr = g.Get(h, getter.WithURL(main.URL), getter.WithBasicAuth(main.User, main.Pass), getter.WithPassCredentialsAll(main.PassAll))
			} else {
				_, opErr = g.Get(h) // as DownloadTo does for the provenance file: the getter keeps its options
			}
		}
	case "downloader":
		if cs.UpdateFirst {
			if r, err := repo.NewChartRepository(&repo.Entry{Name: main.Name, URL: main.URL, Username: main.User, Password: main.Pass, PassCredentialsAll: main.PassAll}, providers); err == nil {
				r.CachePath = cache
				_, _ = r.DownloadIndexFile()
			}
		}
		dl := downloader.ChartDownloader{Out: io.Discard, Getters: providers, RepositoryConfig: repoConfig, RepositoryCache: cache, Verify: c19Verify(cs.Verify), Keyring: filepath.Join(dir, "no-keyring")}
		_, _, opErr = dl.DownloadTo(cs.Ref, "", dest)
	case "locate", "pull":
		settings := cli.New()
		settings.RepositoryConfig, settings.RepositoryCache, settings.PluginsDirectory = repoConfig, cache, filepath.Join(dir, "plugins")
		cpo := action.ChartPathOptions{InsecureSkipTLSverify: true, Keyring: filepath.Join(dir, "no-keyring")}
		if flagCreds {
			cpo.Username, cpo.Password, cpo.PassCredentialsAll = main.User, main.Pass, main.PassAll
		}
		if cs.Mode == "repo-flag" {
			cpo.RepoURL = main.URL
		}
		if cs.Path == "locate" {
			cpo.Verify = cs.Verify == "always"
			_, opErr = cpo.LocateChart(cs.Ref, settings)
		} else {
			p := action.NewPull(action.WithConfig(&action.Configuration{}))
			p.ChartPathOptions = cpo
			p.Settings = settings
			p.DestDir = dest
			p.Verify = cs.Verify == "always"
			p.VerifyLater = cs.Verify == "later"
			_, opErr = p.Run(cs.Ref)
			if cs.ThenPull != "" {
				// the error of the second pull is not the case's outcome; what it sends is judged like everything else
				_, _ = p.Run(cs.ThenPull)
			}
		}
	case "manager":
		ch := filepath.Join(dir, "parent")
		if err := os.MkdirAll(ch, 0o755); err != nil {
			return nil, nil, err
		}
		y := fmt.Sprintf("apiVersion: v2\nname: parent\nversion: 0.1.0\ndependencies:\n- name: %s\n  version: %q\n  repository: %q\n", c19Chart, cs.DepVersion, cs.DepRepository)
		if err := os.WriteFile(filepath.Join(ch, "Chart.yaml"), []byte(y), 0o644); err != nil {
			return nil, nil, err
		}
		m := &downloader.Manager{Out: io.Discard, ChartPath: ch, SkipUpdate: cs.SkipUpdate, Getters: providers, RepositoryConfig: repoConfig, RepositoryCache: cache, Verify: c19Verify(cs.Verify), Keyring: filepath.Join(dir, "no-keyring")}
		opErr = m.Update()
	default:
		return nil, nil, fmt.Errorf("unknown path %q", cs.Path)
	}
	reqs = cp.end()
	return reqs, opErr, nil
}

// ---------------------------------------------------------------------------------------------------------------
// the oracle

type c19Outcome struct {
	requests, credsOwn, crossOrigin, crossWithCredsAllowed, sameDomainRedirectKept int
	cut                                                                            bool
	labels                                                                         []string
	sig                                                                            string // probe mode: the violation that would be reported
}

// c19Judge looks only at the captured requests and the configured repositories.
func c19Judge(tb vt.TB, cs *c19Case, reqs []c19Req, opErr error) (out c19Outcome) {
	return c19JudgeMode(tb, cs, reqs, opErr, true)
}

// c19JudgeMode with report=false only names the violation (out.sig) instead of reporting it.
func c19JudgeMode(tb vt.TB, cs *c19Case, reqs []c19Req, opErr error, report bool) (out c19Outcome) {
	type secret struct {
		repo   int
		header string
		what   string
	}
	var secrets []secret
	orgs := make([]c19Org, len(cs.Repos))
	okOrg := make([]bool, len(cs.Repos))
	for i, r := range cs.Repos {
		u, err := url.Parse(r.URL)
		if err != nil {
			continue
		}
		orgs[i], okOrg[i] = c19OriginOf(u.Scheme, u.Host)
		if r.User != "" && r.Pass != "" {
			secrets = append(secrets, secret{i, c19Basic(r.User, r.Pass), "repo-credentials"})
		}
		if u.User != nil {
			if pw, has := u.User.Password(); has {
				secrets = append(secrets, secret{i, c19Basic(u.User.Username(), pw), "repo-url-userinfo"})
			}
		}
	}
	fail := func(sig, detail string) bool {
		if !report {
			out.sig = sig
			return true
		}
		var lines []string
		for _, r := range reqs {
			lines = append(lines, "   "+c19ReqLine(r))
		}
		return vt.Violation(tb, sig, fmt.Sprintf("%s\n  case: %s\n  operation error: %v\n  captured requests:\n%s", detail, c19JSON(cs), opErr, strings.Join(lines, "\n")), cs)
	}
	mainOrg, mainOK := orgs[cs.Main], okOrg[cs.Main]
	out.requests = len(reqs)
	for _, r := range reqs {
		org, ok := c19OriginOf(r.Scheme, r.Dest)
		if !ok {
			out.cut = fail("C19:harness/request-without-destination", c19ReqLine(r))
			return
		}
		if mainOK && org != mainOrg {
			out.crossOrigin++
		}
		for _, s := range secrets {
			if r.Auth != s.header {
				continue
			}
			rp := cs.Repos[s.repo]
			if !okOrg[s.repo] {
				continue
			}
			ro := orgs[s.repo]
			if org == ro {
				out.credsOwn++
				continue
			}
			if rp.PassAll {
				out.crossWithCredsAllowed++
				continue
			}
			if r.Follow && c19DomainOrSub(org.Host, ro.Host) {
				// net/http keeps Authorization across redirects within a domain; the statement only names redirects
				// to an unrelated domain: recorded, not judged
				how := "subdomain"
				if org.Host == ro.Host {
					how = "other-port"
					if org.Scheme != ro.Scheme {
						how = "other-scheme"
						if org.Scheme == "http" {
							how = "https-to-http"
						}
					}
				}
				evid.Note("credentials kept across a redirect inside the repository's own domain (" + how + "); not judged")
				out.sameDomainRedirectKept++
				continue
			}
			ctx := cs.modeName() + "/" + r.Kind + "-request"
			if r.Follow {
				ctx += "/after-redirect"
			}
			for j := range cs.Repos {
				if j != s.repo && okOrg[j] && orgs[j] == org {
					ctx += "/origin-of-another-configured-repository"
					break
				}
			}
			out.cut = fail("C19:"+s.what+"-sent-to-foreign-origin/"+ctx,
				fmt.Sprintf("request %s carries the credentials of repository %q (%s, origin %s, pass-credentials off) but went to origin %s", c19ReqLine(r), rp.Name, rp.URL, ro, org))
			return
		}
	}
	return
}

// c19RunCase executes and judges one concrete case (rapid property, replay and known-finding tests alike).
func c19RunCase(tb vt.TB, env *c19Env, cs *c19Case) c19Outcome {
	reqs, opErr, herr := c19Exec(env, cs)
	if herr != nil {
		tb.Fatalf("C19 harness error: %v", herr)
	}
	probe := c19JudgeMode(tb, cs, reqs, opErr, false)
	if probe.sig == "" {
		return probe
	}
	// The operations of this check are deterministic functions of the case, so a violation shows again when the case is
	// executed again. One that does not (seen once in 300 000 cases on a machine with a load above 100: a request
	// captured with the host of one repository and the path of another) is counted and not reported.
	time.Sleep(30 * time.Millisecond)
	reqs2, opErr2, herr := c19Exec(env, cs)
	if herr != nil {
		tb.Fatalf("C19 harness error: %v", herr)
	}
	if again := c19JudgeMode(tb, cs, reqs2, opErr2, false); again.sig != probe.sig {
		evid.Note("C19:not-reproduced/" + probe.sig)
		if again.sig == "" {
			return again
		}
	}
	return c19JudgeMode(tb, cs, reqs2, opErr2, true)
}

// ---------------------------------------------------------------------------------------------------------------
// environment of the test process

// c19Setenv isolates Helm's directories and (for the paths that build their own transport) routes the default
// transport through the capture proxy. Restored by t.Setenv when the test ends; t.Setenv also forbids t.Parallel.
func c19Setenv(t *testing.T, base string) {
	for _, k := range []string{"HELM_NAMESPACE", "HELM_KUBECONTEXT", "HELM_KUBETOKEN", "HELM_KUBEASUSER", "HELM_KUBEASGROUPS", "HELM_KUBEAPISERVER", "HELM_KUBECAFILE",
		"HELM_KUBETLS_SERVER_NAME", "HELM_KUBEINSECURE_SKIP_TLS_VERIFY", "HELM_PLUGINS", "HELM_REGISTRY_CONFIG", "HELM_REPOSITORY_CONFIG", "HELM_REPOSITORY_CACHE", "HELM_DEBUG"} {
		if _, ok := os.LookupEnv(k); ok {
			t.Setenv(k, "")
		}
	}
	t.Setenv("HELM_CACHE_HOME", filepath.Join(base, "helm-cache"))
	t.Setenv("HELM_CONFIG_HOME", filepath.Join(base, "helm-config"))
	t.Setenv("HELM_DATA_HOME", filepath.Join(base, "helm-data"))
	cp := c19Capture()
	for _, k := range []string{"HTTP_PROXY", "http_proxy", "HTTPS_PROXY", "https_proxy"} {
		t.Setenv(k, cp.proxyURL)
	}
	for _, k := range []string{"NO_PROXY", "no_proxy", "REQUEST_METHOD"} {
		t.Setenv(k, "")
	}
}

// c19ProxyWorks checks that the default transport's proxy settings really lead to the capture proxy (net/http
// reads the environment once per process; a test that ran earlier may have frozen other settings).
func c19ProxyWorks() error {
	cp := c19Capture()
	cp.begin(nil, nil, nil)
	tr := &http.Transport{Proxy: http.ProxyFromEnvironment, DisableKeepAlives: true}
	resp, err := (&http.Client{Transport: tr}).Get("http://c19-probe.example.test/c19probe")
	if err == nil {
		io.Copy(io.Discard, resp.Body)
		resp.Body.Close()
	}
	reqs := cp.end()
	if err != nil || len(reqs) != 1 || reqs[0].Dest != "c19-probe.example.test:80" {
		return fmt.Errorf("HTTP_PROXY does not lead to the capture proxy in this process (err=%v, captured=%v)", err, reqs)
	}
	return nil
}

func c19Setup(t *testing.T, needProxy bool) *c19Env {
	base := t.TempDir()
	c19Setenv(t, base)
	env, err := c19NewEnv(base)
	if err != nil {
		t.Fatalf("C19 harness: %v", err)
	}
	if needProxy {
		if err := c19ProxyWorks(); err != nil {
			t.Fatalf("C19 harness: %v", err)
		}
	}
	return env
}

// ---------------------------------------------------------------------------------------------------------------
// generators

type c19Auth struct {
	scheme, user, host, port string
	emptyPort                bool
}

func (a c19Auth) String() string {
	s := a.scheme + "://"
	if a.user != "" {
		s += a.user + "@"
	}
	s += a.host
	if a.port != "" {
		s += ":" + a.port
	} else if a.emptyPort {
		s += ":"
	}
	return s
}

func c19DefPort(scheme string) string {
	if strings.EqualFold(scheme, "https") {
		return "443"
	}
	return "80"
}

func (a c19Auth) effPort() string {
	if a.port != "" {
		return a.port
	}
	return c19DefPort(a.scheme)
}

func c19Flip(scheme string) string {
	if strings.EqualFold(scheme, "https") {
		return "http"
	}
	return "https"
}

func c19IsIP(host string) bool {
	return strings.HasPrefix(host, "[") || (host[0] >= '0' && host[0] <= '9')
}

var (
	c19RepoHosts  = []string{"repo.example.test", "repo.example.test", "charts.corp.test", "192.0.2.10", "[2001:db8::10]"}
	c19OtherHosts = []string{"other.example.test", "cdn.other.test", "198.51.100.7", "[2001:db8::99]"}
)

func c19Respell(t *rapid.T, host string) string {
	switch {
	case strings.HasPrefix(host, "["):
		return rapid.SampledFrom([]string{strings.ToUpper(host), strings.Replace(host, "::", ":0:0:0:0:0:", 1)}).Draw(t, "respellV6")
	case c19IsIP(host):
		return host
	}
	labels := strings.Split(host, ".")
	switch rapid.IntRange(0, 3).Draw(t, "respell") {
	case 0:
		labels[0] = strings.ToUpper(labels[0])
		return strings.Join(labels, ".")
	case 1:
		return strings.ToUpper(host)
	case 2:
		return host + "."
	}
	labels[0] = strings.ToUpper(labels[0])
	return strings.Join(labels, ".") + "."
}

// c19AffixHost returns a host that merely contains the repository host textually.
func c19AffixHost(t *rapid.T, host string) (string, string) {
	switch {
	case strings.HasPrefix(host, "["):
		return strings.Replace(host, "]", "0]", 1), "affix-host"
	case c19IsIP(host):
		return host + "0", "affix-host"
	}
	switch rapid.IntRange(0, 3).Draw(t, "affix") {
	case 0:
		return "sub." + host, "subdomain"
	case 1:
		return host + ".evil.test", "affix-host"
	case 2:
		return "evil" + host, "affix-host"
	}
	return "evil-" + strings.TrimSuffix(host, ".") + ".test", "affix-host"
}

func c19JoinPath(base, file string) string {
	return strings.TrimSuffix(base, "/") + "/" + file
}

// c19Resolve resolves an index URL against the repository URL the RFC 3986 way (used only to produce inputs).
func c19Resolve(base, ref string) string {
	r, err := url.Parse(ref)
	if err != nil {
		return ref
	}
	if r.IsAbs() {
		return ref
	}
	b, err := url.Parse(base)
	if err != nil {
		return ref
	}
	b.Path = strings.TrimSuffix(b.Path, "/") + "/"
	b.RawPath = ""
	b.RawQuery = ""
	return b.ResolveReference(r).String()
}

type c19Pair struct {
	repoURL  string
	ra       c19Auth
	rpath    string
	chartURL string
	class    string
}

// c19GenPair draws a repository URL and the URL its index gives for the chart, by relation class.
func c19GenPair(t *rapid.T) c19Pair {
	ra := c19Auth{scheme: rapid.SampledFrom([]string{"http", "https"}).Draw(t, "scheme"), host: rapid.SampledFrom(c19RepoHosts).Draw(t, "host")}
	switch rapid.IntRange(0, 9).Draw(t, "repoSpelling") {
	case 0:
		ra.host = c19Respell(t, ra.host)
	case 1:
		ra.scheme = strings.ToUpper(ra.scheme)
	case 2:
		ra.user = "ru:rp"
	}
	switch rapid.IntRange(0, 9).Draw(t, "repoPort") {
	case 0, 1:
		ra.port = c19DefPort(ra.scheme)
	case 2, 3:
		ra.port = rapid.SampledFrom([]string{"8080", "8443"}).Draw(t, "port")
	case 4:
		ra.emptyPort = true
	}
	rpath := rapid.SampledFrom([]string{"", "/", "/charts", "/charts", "/charts/", "/a/b"}).Draw(t, "repoPath")
	p := c19Pair{ra: ra, rpath: rpath, repoURL: ra.String() + rpath}
	if rapid.IntRange(0, 19).Draw(t, "repoQuery") == 0 {
		p.repoURL += "?tok=1"
	}
	other := func() string { return rapid.SampledFrom(c19OtherHosts).Draw(t, "otherHost") }
	classes := []string{"relative", "relative", "same-exact", "same-respelled", "same-respelled", "other-port", "other-scheme", "other-scheme", "other-host", "other-host", "affix-host", "affix-host", "userinfo-trick", "protocol-relative", "odd"}
	p.class = rapid.SampledFrom(classes).Draw(t, "class")
	ca := ra
	ca.user = ""
	cpath := c19JoinPath(rpath, c19File)
	switch p.class {
	case "relative":
		p.chartURL = rapid.SampledFrom([]string{c19File, "sub/" + c19File, "./" + c19File, "../" + c19File, "/abs/" + c19File, "charts/../" + c19File}).Draw(t, "rel")
		return p
	case "same-exact":
		ca.user = ra.user
	case "same-respelled":
		switch rapid.IntRange(0, 5).Draw(t, "how") {
		case 0:
			if ca.scheme == strings.ToLower(ca.scheme) {
				ca.scheme = strings.ToUpper(ca.scheme)
			} else {
				ca.scheme = strings.ToLower(ca.scheme)
			}
		case 1:
			h := c19Respell(t, strings.ToLower(strings.TrimSuffix(ca.host, ".")))
			if h == ca.host {
				h = strings.ToLower(strings.TrimSuffix(ca.host, "."))
			}
			ca.host = h
		case 2:
			if ca.port == "" {
				ca.port, ca.emptyPort = c19DefPort(ca.scheme), false
			} else if ca.port == c19DefPort(ca.scheme) {
				ca.port = ""
			} else {
				ca.port = "0" + ca.port
			}
		case 3:
			ca.user = "cu:cp"
		case 4:
			if ca.port == "" {
				ca.emptyPort = !ca.emptyPort
			} else {
				ca.user = "cu:cp"
			}
		case 5:
			cpath = "/x/.." + cpath
		}
	case "other-port":
		var ports []string
		for _, q := range []string{"8080", "8443", "81", c19DefPort(c19Flip(ra.scheme))} {
			if q != ra.effPort() {
				ports = append(ports, q)
			}
		}
		ca.port, ca.emptyPort = rapid.SampledFrom(ports).Draw(t, "otherPort"), false
	case "other-scheme":
		ca.scheme = c19Flip(ra.scheme)
	case "other-host":
		ca.host = other()
		if rapid.Bool().Draw(t, "otherHostSpelled") {
			ca.host = c19Respell(t, ca.host)
		}
	case "affix-host":
		ca.host, p.class = c19AffixHost(t, ra.host)
	case "userinfo-trick":
		o := other()
		bare := ra.host
		switch rapid.IntRange(0, 5).Draw(t, "trick") {
		case 0:
			p.chartURL = ra.scheme + "://" + bare + "@" + o + cpath
		case 1:
			p.chartURL = ra.scheme + "://" + bare + ":" + ra.effPort() + "@" + o + cpath
		case 2:
			p.chartURL = ra.scheme + "://" + o + "#@" + bare + cpath
		case 3:
			p.chartURL = ra.scheme + "://" + o + "?@" + bare + cpath
		case 4:
			p.chartURL = ra.scheme + "://" + o + "/@" + bare + cpath
		case 5:
			p.chartURL = ra.scheme + "://cu:cp@" + o + cpath
		}
		return p
	case "protocol-relative":
		h := rapid.SampledFrom([]string{other(), ra.host, ra.host + ":" + ra.effPort(), ra.host + ":8081", "sub." + ra.host}).Draw(t, "prHost")
		p.chartURL = "//" + h + cpath
		return p
	case "odd":
		o := other()
		p.chartURL = rapid.SampledFrom([]string{
			"http://" + o + "\\@" + ra.host + cpath,
			" http://" + o + cpath,
			"http:/" + ra.host + cpath,
			"http:" + c19File,
			"hTTp://" + o + cpath,
			"ftp://" + o + cpath,
			"http://" + o + ":80" + cpath,
			"https://" + o + ":443" + cpath,
			"http://" + o + "/a%2F..%2F" + c19File,
			"http://" + ra.host + "%2e" + o + cpath,
			"http://" + o + "/" + c19File + "?x=http://" + ra.host + "/",
			"http://" + o + "/" + c19File + "#frag",
			"///" + c19File,
			"",
		}).Draw(t, "odd")
		if p.chartURL == "" {
			p.chartURL = "./"
		}
		return p
	}
	p.chartURL = ca.String() + cpath
	return p
}

// c19GenCreds fills the credentials of the main repository.
func c19GenCreds(t *rapid.T, r *c19Repo) {
	r.User = "u0"
	r.Pass = rapid.SampledFrom([]string{"p0", "p0", "s3cr:et@/x"}).Draw(t, "pass")
	r.PassAll = rapid.IntRange(0, 5).Draw(t, "passAll") == 0
}

// c19GenSecond adds (sometimes) a second configured repository: on the chart URL's own origin and listing the very
// same URL (a mirror / CDN that is also configured as a repository), or an unrelated one.
func c19GenSecond(t *rapid.T, cs *c19Case, p c19Pair) string {
	if rapid.IntRange(0, 9).Draw(t, "second") > 3 {
		return "one-repo"
	}
	sec := c19Repo{Name: "second", URL: "http://second.example.test/charts", ChartURL: c19File}
	kind := "second-repo:unrelated"
	if u, err := url.Parse(p.chartURL); err == nil && u.IsAbs() && u.Host != "" {
		so, ok1 := c19OriginOf(u.Scheme, u.Host)
		mo, ok2 := c19OriginOf(p.ra.scheme, p.ra.host+":"+p.ra.effPort())
		if ok1 && ok2 && so != mo {
			switch rapid.IntRange(0, 4).Draw(t, "mirror") {
			case 0:
			case 1:
				// another repository, on an origin of its own, whose index lists the very same absolute URL (both point at
				// a third host): whichever entry is taken for the URL's owner, nobody's secret belongs on that host
				sec.ChartURL = p.chartURL
				kind = "second-repo:lists-same-url-on-a-third-origin"
			default:
				sec.URL = u.Scheme + "://" + u.Host + rapid.SampledFrom([]string{"", "/", "/mirror"}).Draw(t, "secondPath")
				sec.ChartURL = p.chartURL
				kind = "second-repo:lists-same-url-on-its-own-origin"
			}
		}
	}
	if rapid.IntRange(0, 2).Draw(t, "secondCreds") == 0 || (strings.HasSuffix(kind, "third-origin") && rapid.Bool().Draw(t, "thirdOriginCreds")) {
		sec.User, sec.Pass = "u1", "p1"
		kind += "+creds"
	}
	if rapid.Bool().Draw(t, "secondFirst") {
		cs.Repos = append([]c19Repo{sec}, cs.Repos...)
		cs.Main = 1
		kind += "+listed-first"
	} else {
		cs.Repos = append(cs.Repos, sec)
	}
	return kind
}

// c19GenRedirects scripts (sometimes) redirects for the request kinds the path can make.
func c19GenRedirects(t *rapid.T, cs *c19Case, p c19Pair, kinds []string) []string {
	if len(kinds) == 0 || rapid.IntRange(0, 9).Draw(t, "redirect") > 3 {
		return []string{"redirect:none"}
	}
	var labels []string
	n := 1
	if len(kinds) > 1 && rapid.IntRange(0, 3).Draw(t, "twoRedirects") == 0 {
		n = 2
	}
	used := map[string]bool{}
	for ri := 0; ri < n; ri++ {
		kind := rapid.SampledFrom(kinds).Draw(t, "redirectKind")
		if used[kind] {
			continue
		}
		used[kind] = true
		rd := c19Redirect{Kind: kind, Repo: cs.Main}
		file := c19File
		switch kind {
		case "index":
			file = "index.yaml"
		case "prov":
			file = c19File + ".prov"
		}
		hops := rapid.IntRange(1, 2).Draw(t, "hops")
		for h := 0; h < hops; h++ {
			a := p.ra
			a.user = ""
			class := rapid.SampledFrom([]string{"unrelated", "unrelated", "affix", "subdomain", "other-port", "other-scheme", "same-origin"}).Draw(t, "hopClass")
			if c19IsIP(a.host) && (class == "subdomain") {
				class = "unrelated"
			}
			switch class {
			case "unrelated":
				a.host = rapid.SampledFrom(c19OtherHosts).Draw(t, "hopHost")
			case "affix":
				var k string
				a.host, k = c19AffixHost(t, p.ra.host)
				if k == "subdomain" {
					class = k
				}
			case "subdomain":
				a.host = "sub." + p.ra.host
			case "other-port":
				a.port, a.emptyPort = "8081", false
			case "other-scheme":
				a.scheme = c19Flip(a.scheme)
			}
			loc := a.String() + fmt.Sprintf("%s%d/%d/%s", c19Marker, len(cs.Redirects), h, file)
			if rapid.IntRange(0, 9).Draw(t, "hopProtocolRelative") == 0 {
				loc = strings.TrimPrefix(loc, a.scheme+":")
			}
			rd.Hops = append(rd.Hops, loc)
			rd.Class = append(rd.Class, class)
		}
		cs.Redirects = append(cs.Redirects, rd)
		labels = append(labels, "redirect:"+kind, fmt.Sprintf("redirect-hops:%d", len(rd.Hops)))
		for _, c := range rd.Class {
			labels = append(labels, "redirect-to:"+c)
		}
	}
	return labels
}

func c19VerifyKinds(verify string) []string {
	if verify == "never" {
		return []string{"chart"}
	}
	return []string{"chart", "prov"}
}

// c19Finish records the evidence of one generated case.
func c19Finish(cs *c19Case, out c19Outcome, labels []string) {
	labels = append(labels, "mode:"+cs.modeName(), "class:"+cs.Class)
	if cs.Repos[cs.Main].PassAll {
		labels = append(labels, "pass-credentials:on")
	} else {
		labels = append(labels, "pass-credentials:off")
	}
	if cs.Verify != "" {
		labels = append(labels, "verify:"+cs.Verify)
	}
	if out.requests == 0 {
		labels = append(labels, "seen:no-request")
	}
	if out.credsOwn > 0 {
		labels = append(labels, "seen:credentials-at-own-origin")
	}
	if out.crossOrigin > 0 {
		labels = append(labels, "seen:cross-origin-request")
	}
	if out.crossWithCredsAllowed > 0 {
		labels = append(labels, "seen:cross-origin-with-credentials(pass-credentials)")
	}
	if out.sameDomainRedirectKept > 0 {
		labels = append(labels, "seen:same-domain-redirect-kept-credentials(not judged)")
	}
	if out.cut {
		labels = append(labels, "cut-at-known-finding")
	}
	nontrivial := out.crossOrigin > 0 && (out.credsOwn+out.crossWithCredsAllowed+out.sameDomainRedirectKept) > 0
	if nontrivial {
		labels = append(labels, "nontrivial")
	}
	sort.Strings(labels)
	evid.Case(labels, c19JSON(cs), nontrivial, cs)
}

const c19Oracle = " Oracle (captured requests only): every request whose Authorization header equals the Basic credentials configured for a repository (or the userinfo of its URL) must have been sent to the normalised scheme/host/port of that repository's URL (lower case, trailing dot dropped, IP literals canonical, default port explicit) unless that repository has pass-credentials on; credentials that net/http keeps across a redirect to another port/scheme/subdomain of the repository's own host are counted, not judged; Authorization produced by userinfo written in a chart URL is not the repository's secret. Non-trivial = the case produced a request to an origin other than the repository's AND at least one request carried repository credentials; distinct by the full case."

var c19Assumptions = []string{
	"hosts are impersonated by local listeners: the destination of a request is the address the client dialled (custom transport) or asked the proxy for (HTTP_PROXY / CONNECT)",
	"https through the custom transport is spoken in clear to a listener that marks the scheme; https through the proxy is real TLS with certificate verification switched off",
	"a host name with and without trailing dot, in any letter case, and equal IP literals in different spelling count as the same host",
	"provenance files are answered 404 (only the request matters)",
}

// ---------------------------------------------------------------------------------------------------------------
// the properties

// TestC19A: HTTPGetter.Get with scoped options, reused for index, chart and provenance requests.
func TestC19A(t *testing.T) {
	env := c19Setup(t, false)
	evid.Extra("rule", "C19A: one HTTPGetter (custom transport whose dialers lead every host to local capture listeners) receives WithURL(repository URL)+WithBasicAuth+WithPassCredentialsAll on its first Get and is then reused without options (as ChartDownloader does), for [repository index.yaml]? + chart URL + [chart URL.prov]?. (repository URL, chart URL) pairs come from a URL grammar in relation classes relative / same-exact / same-respelled (scheme or host case, trailing dot, default-port spelling, userinfo, empty port, dot segments) / other-port / other-scheme / other-host / subdomain / affix-host / userinfo-trick / protocol-relative / odd; names, IPv4 and IPv6 literals; redirects (1-2 hops) of any request to unrelated, affix, subdomain, other-port, other-scheme or same-origin targets."+c19Oracle)
	evid.Extra("assumptions", c19Assumptions)
	rapid.Check(t, func(rt *rapid.T) {
		p := c19GenPair(rt)
		cs := &c19Case{Path: "getter", Class: p.class, Repos: []c19Repo{{Name: "myrepo", URL: p.repoURL, ChartURL: p.chartURL}}}
		c19GenCreds(rt, &cs.Repos[0])
		var kinds []string
		if rapid.Bool().Draw(rt, "withIndex") {
			cs.Hrefs = append(cs.Hrefs, c19Resolve(p.repoURL, "index.yaml"))
			kinds = append(kinds, "index")
		}
		href := c19Resolve(p.repoURL, p.chartURL)
		cs.Hrefs = append(cs.Hrefs, href)
		kinds = append(kinds, "chart")
		if rapid.Bool().Draw(rt, "withProv") {
			cs.Hrefs = append(cs.Hrefs, href+".prov")
			kinds = append(kinds, "prov")
		}
		labels := c19GenRedirects(rt, cs, p, kinds)
		out := c19RunCase(rt, env, cs)
		c19Finish(cs, out, labels)
	})
}

// TestC19B: ChartDownloader.DownloadTo with repositories.yaml and cached indexes.
func TestC19B(t *testing.T) {
	env := c19Setup(t, false)
	evid.Extra("rule", "C19B: ChartDownloader.DownloadTo('myrepo/c19dep' | the absolute chart URL) with a generated repositories.yaml (the repository with credentials; in 40% of the cases a second repository, unrelated or sitting on the chart URL's origin and listing the very same URL, with or without own credentials, before or after) and cached index files; in 60% of the cases the repository's index.yaml is refreshed first through ChartRepository.DownloadIndexFile (helm repo update); Verify never / if-possible / later (provenance request). URL pairs, redirects and capture as in C19A."+c19Oracle)
	evid.Extra("assumptions", c19Assumptions)
	rapid.Check(t, func(rt *rapid.T) {
		p := c19GenPair(rt)
		cs := &c19Case{Path: "downloader", Class: p.class, Repos: []c19Repo{{Name: "myrepo", URL: p.repoURL, ChartURL: p.chartURL}}}
		c19GenCreds(rt, &cs.Repos[0])
		labels := []string{c19GenSecond(rt, cs, p)}
		cs.Mode = rapid.SampledFrom([]string{"reponame", "reponame", "absolute-url"}).Draw(rt, "mode")
		cs.Ref = "myrepo/" + c19Chart
		if cs.Mode == "absolute-url" {
			cs.Ref = c19Resolve(p.repoURL, p.chartURL)
		}
		cs.Verify = rapid.SampledFrom([]string{"never", "ifpossible", "later"}).Draw(rt, "verify")
		kinds := c19VerifyKinds(cs.Verify)
		if cs.UpdateFirst = rapid.IntRange(0, 4).Draw(rt, "updateFirst") < 3; cs.UpdateFirst {
			kinds = append(kinds, "index")
			labels = append(labels, "repo-update:first")
		}
		labels = append(labels, c19GenRedirects(rt, cs, p, kinds)...)
		out := c19RunCase(rt, env, cs)
		c19Finish(cs, out, labels)
	})
}

func c19FlagPathProp(env *c19Env, path string, verifies []string) func(rt *rapid.T) {
	return func(rt *rapid.T) {
		p := c19GenPair(rt)
		cs := &c19Case{Path: path, Class: p.class, Repos: []c19Repo{{Name: "myrepo", URL: p.repoURL, ChartURL: p.chartURL}}}
		c19GenCreds(rt, &cs.Repos[0])
		cs.Mode = rapid.SampledFrom([]string{"repo-flag", "repo-flag", "repo-flag", "repo-flag", "repo-flag", "repo-flag", "reponame", "reponame", "reponame-flag-creds", "direct-url"}).Draw(rt, "mode")
		cs.Verify = rapid.SampledFrom(verifies).Draw(rt, "verify")
		var labels []string
		kinds := c19VerifyKinds(cs.Verify)
		switch cs.Mode {
		case "repo-flag":
			cs.Ref = c19Chart
			kinds = append(kinds, "index")
		case "reponame", "reponame-flag-creds":
			// reponame-flag-creds: the repository is configured without credentials, they are given as --username/--password
			cs.Ref = "myrepo/" + c19Chart
			labels = append(labels, c19GenSecond(rt, cs, p))
			if path == "pull" && cs.Mode == "reponame" && rapid.Bool().Draw(rt, "thenPullAnother") {
				// `helm pull a b`: the same Pull object goes on to a chart that is not the first repository's business
				cs.ThenPull = "http://elsewhere.example.test/other-1.0.0.tgz"
				if len(cs.Repos) == 2 && rapid.Bool().Draw(rt, "thenPullFromSecond") {
					cs.ThenPull = "second/" + c19Chart
				}
				labels = append(labels, "second-reference-pulled-with-the-same-pull-object")
			}
		case "direct-url":
			// --username/--password given together with a plain chart URL: that URL is what the credentials are for
			cs.Ref = c19Resolve(p.repoURL, c19File)
			cs.Repos[0].URL, cs.Repos[0].ChartURL, cs.Class = cs.Ref, cs.Ref, "direct-url"
		}
		labels = append(labels, c19GenRedirects(rt, cs, p, kinds)...)
		out := c19RunCase(rt, env, cs)
		c19Finish(cs, out, labels)
	}
}

// TestC19C: ChartPathOptions.LocateChart (install/upgrade/show/template ... --repo, repo/name, plain URL).
func TestC19C(t *testing.T) {
	env := c19Setup(t, true)
	evid.Extra("rule", "C19C: action.ChartPathOptions.LocateChart with --repo URL --username --password [--pass-credentials] (60%; the index is downloaded from the capture server), with 'myrepo/c19dep' and a repositories.yaml (30%; credentials in the repository entry or, one in three, as --username/--password), or with a plain chart URL plus --username/--password (10%; the credentials are then that URL's); [--verify]. The real default transport is used; every request is captured by a local HTTP proxy installed through HTTP_PROXY/HTTPS_PROXY (https = CONNECT + real TLS with verification off). URL pairs and redirects as in C19A."+c19Oracle)
	evid.Extra("assumptions", c19Assumptions)
	rapid.Check(t, c19FlagPathProp(env, "locate", []string{"never", "never", "always"}))
}

// TestC19E: action.Pull.Run (helm pull), the direct-download command, same capture as C19C.
func TestC19E(t *testing.T) {
	env := c19Setup(t, true)
	evid.Extra("rule", "C19E: action.Pull.Run (helm pull) with --repo URL --username --password [--pass-credentials] (60%), 'myrepo/c19dep' with repositories.yaml (30%; credentials in the entry or as flags) or a plain chart URL with --username/--password (10%); --verify / --prov (verify later) / neither. Capture through the HTTP_PROXY listener as in C19C; URL pairs and redirects as in C19A."+c19Oracle)
	evid.Extra("assumptions", c19Assumptions)
	rapid.Check(t, c19FlagPathProp(env, "pull", []string{"never", "never", "later", "always"}))
}

// TestC19D: downloader.Manager.Update (helm dependency update) with the real Manager.
func TestC19D(t *testing.T) {
	env := c19Setup(t, false)
	evid.Extra("rule", "C19D (in 40% of the cases with a second configured repository: unrelated, a mirror on the chart URL's own origin listing the same URL, or a repository on an origin of its own listing the same absolute URL on a third origin): the real downloader.Manager.Update on a parent chart with one dependency c19dep (version 1.0.0 | ^1.0.0 | >=0.1.0) whose repository field is the configured URL, the URL with the trailing slash toggled, @myrepo or alias:myrepo; repositories.yaml and cached indexes as in C19B (second repository in 40% of the cases); SkipUpdate on/off (off: every repository's index.yaml is fetched from the capture server first); Verify never / if-possible / later. URL pairs, redirects and capture as in C19A."+c19Oracle)
	evid.Extra("assumptions", c19Assumptions)
	rapid.Check(t, func(rt *rapid.T) {
		p := c19GenPair(rt)
		cs := &c19Case{Path: "manager", Class: p.class, Repos: []c19Repo{{Name: "myrepo", URL: p.repoURL, ChartURL: p.chartURL}}}
		c19GenCreds(rt, &cs.Repos[0])
		labels := []string{c19GenSecond(rt, cs, p)}
		cs.Mode = rapid.SampledFrom([]string{"url", "url", "url-slash-toggled", "@name", "alias:name"}).Draw(rt, "depRepository")
		switch cs.Mode {
		case "url":
			cs.DepRepository = p.repoURL
		case "url-slash-toggled":
			cs.DepRepository = p.repoURL + "/"
			if strings.HasSuffix(p.repoURL, "/") {
				cs.DepRepository = strings.TrimSuffix(p.repoURL, "/")
			}
		case "@name":
			cs.DepRepository = "@myrepo"
		case "alias:name":
			cs.DepRepository = "alias:myrepo"
		}
		labels = append(labels, "dep-repository:"+cs.Mode)
		cs.DepVersion = rapid.SampledFrom([]string{"1.0.0", "^1.0.0", ">=0.1.0"}).Draw(rt, "depVersion")
		cs.SkipUpdate = rapid.Bool().Draw(rt, "skipUpdate")
		cs.Verify = rapid.SampledFrom([]string{"never", "never", "ifpossible", "later"}).Draw(rt, "verify")
		kinds := c19VerifyKinds(cs.Verify)
		if !cs.SkipUpdate {
			kinds = append(kinds, "index")
			labels = append(labels, "repo-update:on")
		}
		labels = append(labels, c19GenRedirects(rt, cs, p, kinds)...)
		out := c19RunCase(rt, env, cs)
		c19Finish(cs, out, labels)
	})
}

// ---------------------------------------------------------------------------------------------------------------
// replay and known findings

type c19ReplayDoc struct {
	Signature string          `json:"signature"`
	Detail    string          `json:"detail"`
	Case      json.RawMessage `json:"case"`
}

func c19VerifRoot() string {
	if r := os.Getenv("VERIF_ROOT"); r != "" {
		return r
	}
	return "/verif"
}

type c19KnownEntry struct {
	Property  string `json:"property"`
	Signature string `json:"signature"`
	Status    string `json:"status"`
	What      string `json:"what"`
	Replay    string `json:"replay"`
}

func c19KnownEntries() []c19KnownEntry {
	b, err := os.ReadFile(filepath.Join(c19VerifRoot(), "known_findings.json"))
	if err != nil {
		return nil
	}
	var doc struct {
		Entries []c19KnownEntry `json:"entries"`
	}
	if json.Unmarshal(b, &doc) != nil {
		return nil
	}
	var out []c19KnownEntry
	for _, e := range doc.Entries {
		if e.Property == "C19" && e.Status == "known" {
			out = append(out, e)
		}
	}
	return out
}

func c19LoadReplay(path string) (*c19Case, error) {
	if !filepath.IsAbs(path) {
		path = filepath.Join(c19VerifRoot(), path)
	}
	b, err := os.ReadFile(path)
	if err != nil {
		return nil, err
	}
	var d c19ReplayDoc
	if err := json.Unmarshal(b, &d); err != nil {
		return nil, err
	}
	var cs c19Case
	if err := json.Unmarshal(d.Case, &cs); err != nil {
		return nil, err
	}
	return &cs, nil
}

func TestC19_Known(t *testing.T) {
	entries := c19KnownEntries()
	if len(entries) == 0 {
		return
	}
	env := c19Setup(t, false)
	proxyErr := c19ProxyWorks()
	for _, e := range entries {
		cs, err := c19LoadReplay(e.Replay)
		if err != nil {
			fmt.Printf("KNOWN-GONE sig=%s :: replay unreadable: %v\n", e.Signature, err)
			continue
		}
		if (cs.Path == "locate" || cs.Path == "pull") && proxyErr != nil {
			fmt.Printf("KNOWN-GONE sig=%s :: %v\n", e.Signature, proxyErr)
			continue
		}
		vt.CheckKnown(e.Signature, e.What, func(tb vt.TB) { c19RunCase(tb, env, cs) })
	}
}

func TestC19_Replay(t *testing.T) {
	p := os.Getenv("VERIF_REPLAY_JSON")
	if p == "" {
		t.Skip("no VERIF_REPLAY_JSON")
	}
	cs, err := c19LoadReplay(p)
	if err != nil {
		t.Fatal(err)
	}
	env := c19Setup(t, cs.Path == "locate" || cs.Path == "pull")
	c19RunCase(t, env, cs)
}
