package props

// C13 — upgrade carries user values forward exactly as the chosen flag says.

import (
	"encoding/json"
	"fmt"
	"sort"
	"strings"
	"testing"

	"pgregory.net/rapid"

	"verif/internal/evid"
	"verif/internal/vt"
	"verif/internal/world"
)

// c13GenTree draws a small value tree over a fixed key space so that consecutive steps collide on paths, with
// nulls, empty tables, lists and type changes (JSON-native types: the record format is JSON).
func c13GenTree(t *rapid.T, depth int, label string) map[string]interface{} {
	m := map[string]interface{}{}
	n := rapid.IntRange(0, 3).Draw(t, label+"N")
	for i := 0; i < n; i++ {
		k := rapid.SampledFrom([]string{"a", "b", "c", "d"}).Draw(t, label+"K")
		switch rapid.IntRange(0, 8).Draw(t, label+"V") {
		case 0:
			m[k] = nil
		case 1:
			m[k] = rapid.SampledFrom([]string{"x", "y", ""}).Draw(t, label+"S")
		case 2:
			m[k] = float64(rapid.IntRange(0, 3).Draw(t, label+"I"))
		case 3:
			m[k] = rapid.Bool().Draw(t, label+"B")
		case 4:
			m[k] = []interface{}{float64(rapid.IntRange(1, 3).Draw(t, label+"L"))}
		case 5:
			m[k] = map[string]interface{}{}
		default:
			if depth > 0 {
				m[k] = c13GenTree(t, depth-1, label+k)
			} else {
				m[k] = "leaf"
			}
		}
	}
	return m
}

// c13Vary derives new values from earlier ones: the same paths again, with a leaf changed, nulled, turned into a table,
// or a table turned into a scalar (what a user re-running an upgrade with an edited values file produces).
func c13Vary(t *rapid.T, prev map[string]interface{}, label string) map[string]interface{} {
	out, _ := deepCopyVal(prev).(map[string]interface{})
	if out == nil {
		out = map[string]interface{}{}
	}
	ks := make([]string, 0, len(out))
	for k := range out {
		ks = append(ks, k)
	}
	sort.Strings(ks)
	for _, k := range ks {
		switch rapid.IntRange(0, 6).Draw(t, label+k) {
		case 0:
			out[k] = nil
		case 1:
			out[k] = rapid.SampledFrom([]string{"x", "y", "z"}).Draw(t, label+k+"S")
		case 2:
			delete(out, k)
		case 3:
			if sub, ok := out[k].(map[string]interface{}); ok {
				out[k] = c13Vary(t, sub, label+k+".")
			} else {
				out[k] = map[string]interface{}{"a": "nested"}
			}
		case 4:
			out[k] = map[string]interface{}{}
		}
	}
	return out
}

// refMerge overlays src on dst key by key: tables merge, everything else (scalars, lists, null) replaces.
func refMerge(over, base map[string]interface{}) map[string]interface{} {
	out := map[string]interface{}{}
	for k, v := range base {
		out[k] = deepCopyVal(v)
	}
	for k, v := range over {
		if vm, ok := v.(map[string]interface{}); ok {
			if bm, ok := out[k].(map[string]interface{}); ok {
				out[k] = refMerge(vm, bm)
				continue
			}
		}
		out[k] = deepCopyVal(v)
	}
	return out
}

// refCoalesce is what a template sees: defaults overridden by user values; tables merge, a null removes the key.
func refCoalesce(user, defaults map[string]interface{}) map[string]interface{} {
	out := map[string]interface{}{}
	for k, v := range defaults {
		out[k] = deepCopyVal(v)
	}
	for k, v := range user {
		if v == nil {
			delete(out, k)
			continue
		}
		if vm, ok := v.(map[string]interface{}); ok {
			if bm, ok := out[k].(map[string]interface{}); ok {
				out[k] = refCoalesce(vm, bm)
				continue
			}
			out[k] = refCoalesce(vm, map[string]interface{}{})
			continue
		}
		out[k] = deepCopyVal(v)
	}
	return out
}

func deepCopyVal(v interface{}) interface{} {
	b, _ := json.Marshal(v)
	var o interface{}
	_ = json.Unmarshal(b, &o)
	return o
}

// leafPaths flattens a tree to path -> JSON of the leaf; null, absent and empty tables are the same thing to a template.
func leafPaths(v interface{}, prefix string, out map[string]string) {
	switch x := v.(type) {
	case nil:
	case map[string]interface{}:
		for k, e := range x {
			leafPaths(e, prefix+"/"+k, out)
		}
	default:
		out[prefix] = jsonOf(x)
	}
}

func sameLeaves(a, b interface{}) (bool, string) {
	la, lb := map[string]string{}, map[string]string{}
	leafPaths(a, "", la)
	leafPaths(b, "", lb)
	var keys []string
	for k := range la {
		keys = append(keys, k)
	}
	for k := range lb {
		if _, ok := la[k]; !ok {
			keys = append(keys, k)
		}
	}
	sort.Strings(keys)
	for _, k := range keys {
		if la[k] != lb[k] {
			return false, fmt.Sprintf("path %s: got %s, want %s", k, orAbsent(la[k]), orAbsent(lb[k]))
		}
	}
	return true, ""
}

func orAbsent(s string) string {
	if s == "" {
		return "<absent>"
	}
	return s
}

func hasNull(v interface{}) bool {
	switch x := v.(type) {
	case nil:
		return true
	case map[string]interface{}:
		for _, e := range x {
			if hasNull(e) {
				return true
			}
		}
	}
	return false
}

type c13Rev struct {
	config   map[string]interface{}
	defaults map[string]interface{}
	// Two models of Helm's mechanism, used only to NAME a root cause in a signature, never as the oracle:
	// baked / stored: "the defaults in force" are implemented by storing the previous revision's fully coalesced values as
	// the new chart's parent defaults (stored = the parent chart's values as recorded with the revision), and the chart
	// recorded with a revision does not contain its subcharts (they are not serialised), so a subchart that is not listed
	// under dependencies contributes nothing to what is rebuilt from the record;
	// bakedV / storedV: the same, supposing the recorded chart did contain its subcharts.
	baked, stored   map[string]interface{}
	bakedV, storedV map[string]interface{}
	sub             map[string]interface{} // the subchart defaults of this revision's chart
}

func c13WithSub(vals, sub map[string]interface{}) map[string]interface{} {
	if sub == nil {
		return vals
	}
	return refCoalesce(vals, map[string]interface{}{"sub": deepCopyVal(sub)})
}

type c13Judge struct {
	t      vt.TB
	w      *world.World
	ops    []*world.Op
	trace  []string
	ledger map[int]c13Rev
}

func (j *c13Judge) fail(sig, detail string) bool {
	return vt.Violation(j.t, sig, detail+"\n   "+traceOf(j.trace), map[string]interface{}{"backend": j.w.Backend.Kind, "ops": j.ops, "trace": j.trace})
}

func c13Mode(op *world.Op) string {
	switch {
	case op.ResetValues:
		return "reset-values"
	case op.ReuseValues:
		return "reuse-values"
	case op.ResetThenReuse:
		return "reset-then-reuse-values"
	}
	return "default"
}

func (j *c13Judge) run(op *world.Op) (cut bool, mode string, overlap bool) {
	j.ops = append(j.ops, op)
	res := j.w.Run(op)
	mode = op.Kind
	if op.Kind == "upgrade" {
		mode = c13Mode(op)
	}
	subShape := "sub-defaults"
	if op.Chart.SubUndeclared {
		subShape = "undeclared-sub-defaults"
	}
	line := fmt.Sprintf("%s values=%s defaults=%s "+subShape+"=%s fault=%s => err=%v %s", op.Kind+"["+mode+"]", jsonOf(op.Values), jsonOf(op.Chart.Defaults), jsonOf(op.Chart.SubDefaults), op.Fault, res.Err != nil, world.HistString(res.Post))
	if op.Kind == "rollback" {
		line = fmt.Sprintf("rollback to=%d => err=%v %s", op.Target, res.Err != nil, world.HistString(res.Post))
	}
	j.trace = append(j.trace, line)
	preSet := revSet(res.Pre)
	var created []world.Rev
	for _, r := range res.Post {
		if _, ok := preSet[r.Version]; !ok {
			created = append(created, r)
		}
	}
	if len(created) != 1 {
		if res.Err == nil {
			return j.fail("C13:harness/unexpected-revision-count", fmt.Sprintf("%d revisions created", len(created))), mode, false
		}
		return false, mode, false
	}
	rev := created[0]
	newVals := op.Values
	if newVals == nil {
		newVals = map[string]interface{}{}
	}
	// the revision whose values are carried forward: the deployed one (the last one when none is deployed)
	var base *c13Rev
	if d := deployedRevs(res.Pre); len(d) > 0 {
		b := j.ledger[d[len(d)-1]]
		base = &b
	} else if len(res.Pre) > 0 {
		b := j.ledger[res.Pre[len(res.Pre)-1].Version]
		base = &b
	}
	var want c13Rev
	switch op.Kind {
	case "install":
		want = c13Rev{config: newVals, defaults: c13Defaults(op.Chart)}
	case "upgrade":
		if base == nil {
			return false, mode, false
		}
		switch mode {
		case "reset-values":
			want = c13Rev{config: newVals, defaults: c13Defaults(op.Chart)}
		case "reuse-values":
			want = c13Rev{config: refMerge(newVals, base.config), defaults: base.defaults}
		case "reset-then-reuse-values":
			want = c13Rev{config: refMerge(newVals, base.config), defaults: c13Defaults(op.Chart)}
		default:
			if len(newVals) > 0 {
				want = c13Rev{config: newVals, defaults: c13Defaults(op.Chart)}
			} else {
				want = c13Rev{config: base.config, defaults: c13Defaults(op.Chart)}
			}
		}
		la, lb := map[string]string{}, map[string]string{}
		leafPaths(newVals, "", la)
		leafPaths(base.config, "", lb)
		for k := range la {
			if _, ok := lb[k]; ok {
				overlap = true
			}
		}
	case "rollback":
		tv := op.Target
		if tv == 0 {
			tv = maxRev(res.Pre) - 1
		}
		tgt, ok := j.ledger[tv]
		if !ok {
			return false, mode, false
		}
		want = tgt
	}
	if op.Kind != "rollback" {
		// the mechanism models (see c13Rev)
		chartVals, chartValsV := op.Chart.Defaults, op.Chart.Defaults
		if mode == "reuse-values" && base != nil {
			chartVals = refCoalesce(base.config, base.stored)
			chartValsV = refCoalesce(base.config, c13WithSub(base.storedV, base.sub))
		}
		want.sub = op.Chart.SubDefaults
		want.stored, want.storedV = chartVals, chartValsV
		if !op.Chart.SubUndeclared {
			// a listed dependency's defaults are folded into the parent's values when dependencies are processed
			want.stored, want.storedV = c13WithSub(chartVals, want.sub), c13WithSub(chartValsV, want.sub)
		}
		want.baked = refCoalesce(want.config, c13WithSub(chartVals, want.sub))
		want.bakedV = refCoalesce(want.config, c13WithSub(chartValsV, want.sub))
	}
	j.ledger[rev.Version] = want
	ctx := op.Kind + "/" + mode
	nullCtx := ""
	if (mode == "reuse-values" || mode == "reset-then-reuse-values") && base != nil && (hasNull(newVals) || hasNull(base.config)) {
		nullCtx = "/null-involved"
	}
	// recorded user values
	if ok, d := sameLeaves(rev.Rel.Config, want.config); !ok {
		return j.fail("C13:recorded-values-differ/"+ctx+nullCtx, fmt.Sprintf("revision %d Config %s, expected %s (%s)", rev.Version, jsonOf(rev.Rel.Config), jsonOf(want.config), d)), mode, overlap
	}
	// what the templates saw (only for operations that render and succeed)
	if res.Err == nil && op.Kind != "rollback" {
		probe := j.w.Cluster.Get(world.Path("ConfigMap", "probe", "default"))
		if probe == nil {
			return j.fail("C13:harness/probe-missing", ""), mode, overlap
		}
		raw, _ := probe["data"].(map[string]interface{})["values"].(string)
		var seen map[string]interface{}
		if err := json.Unmarshal([]byte(raw), &seen); err != nil {
			return j.fail("C13:harness/probe-unparsable", raw), mode, overlap
		}
		exp := refCoalesce(want.config, want.defaults)
		if ok, d := sameLeaves(seen, exp); !ok {
			if same, _ := sameLeaves(seen, want.bakedV); same && mode == "reuse-values" {
				return j.fail("C13:rendered-values-differ/upgrade/reuse-values/explained-by-effective-values-baked-into-chart-defaults", fmt.Sprintf("revision %d templates saw %s, expected %s = user values %s over defaults in force %s (%s)", rev.Version, raw, jsonOf(exp), jsonOf(want.config), jsonOf(want.defaults), d)), mode, overlap
			}
			if same, _ := sameLeaves(seen, want.baked); same && mode == "reuse-values" && j.w.Backend.Kind != "memory-live" {
				return j.fail("C13:rendered-values-differ/upgrade/reuse-values/explained-by-subcharts-missing-from-the-recorded-chart", fmt.Sprintf("revision %d templates saw %s, expected %s = user values %s over defaults in force %s (%s)", rev.Version, raw, jsonOf(exp), jsonOf(want.config), jsonOf(want.defaults), d)), mode, overlap
			}
			return j.fail("C13:rendered-values-differ/"+ctx+nullCtx, fmt.Sprintf("revision %d templates saw %s, expected %s = user values %s over defaults in force %s (%s) [mechanism models: %s | %s]", rev.Version, raw, jsonOf(exp), jsonOf(want.config), jsonOf(want.defaults), d, jsonOf(want.baked), jsonOf(want.bakedV))), mode, overlap
		}
	}
	return false, mode, overlap
}

func c13RunCase(tb vt.TB, backend string, ops []*world.Op) {
	w := world.New(backend)
	j := &c13Judge{t: tb, w: w, ledger: map[int]c13Rev{}}
	for _, op := range ops {
		if cut, _, _ := j.run(op); cut {
			return
		}
	}
}

// c13PrevSub is the subchart default tree of the chart version generated last in the current case (two versions in
// three ship the subchart unchanged; a changed one under --reuse-values mostly lands on a recorded finding).
var c13PrevSub map[string]interface{}
var c13SubUndeclared bool
var c13PrevVersion int

func c13Chart(t *rapid.T, ver int) world.ChartSpec {
	cs := world.ChartSpec{Version: ver, ValuesProbe: true, Resources: []world.Res{{Kind: "ConfigMap", Name: "a", Variant: ver % 3}}, Defaults: c13GenTree(t, 1, "def")}
	// every chart version ships a subchart "sub" with defaults of its own (often different from the previous version's)
	// (scalars only: which keys exist and what they hold changes from version to version)
	opt := map[string]interface{}{}
	for _, k := range []string{"a", "b", "c"} {
		if rapid.Bool().Draw(t, "subHas"+k) {
			opt[k] = rapid.SampledFrom([]string{"x", "y", "z"}).Draw(t, "subVal"+k)
		}
	}
	cs.SubDefaults = map[string]interface{}{"port": float64(80 + rapid.IntRange(0, 2).Draw(t, "subPort")), "opt": opt}
	if ver > 1 && c13PrevSub != nil && rapid.IntRange(0, 2).Draw(t, "subUnchanged") > 0 {
		cs.SubDefaults = deepCopyVal(c13PrevSub).(map[string]interface{})
	}
	c13PrevSub = cs.SubDefaults
	// the subchart is listed under dependencies in Chart.yaml, or merely lies in charts/
	// (one shape per case: a changed subchart under --reuse-values lands on a recorded finding when it is unlisted)
	cs.SubUndeclared = c13SubUndeclared
	// one chart in four keeps the version number of the chart generated before it although its defaults differ (a chart
	// edited without a version bump, or a freshly loaded copy of the same version)
	if ver > 1 && c13PrevVersion > 0 && rapid.IntRange(0, 3).Draw(t, "sameChartVersion") == 0 {
		cs.Version = c13PrevVersion
	}
	c13PrevVersion = cs.Version
	return cs
}

// c13Defaults is the chart's whole default tree as the parent sees it: its own values.yaml over the subchart's defaults
// under the subchart's name.
func c13Defaults(cs world.ChartSpec) map[string]interface{} {
	if cs.SubDefaults == nil {
		return cs.Defaults
	}
	return refCoalesce(cs.Defaults, map[string]interface{}{"sub": deepCopyVal(cs.SubDefaults)})
}

func c13Prop(t *rapid.T) {
	c13PrevSub = nil
	c13PrevVersion = 0
	c13SubUndeclared = rapid.IntRange(0, 3).Draw(t, "subchartNotListedUnderDependencies") == 0
	// values survive a JSON round trip, as in production; one case in four runs on Helm's memory driver as it is, which
	// keeps live chart objects (subcharts included) instead of a serialised record
	backend := rapid.SampledFrom([]string{"secret", "secret", "secret", "memory-live"}).Draw(t, "backend")
	w := world.New(backend)
	j := &c13Judge{t: t, w: w, ledger: map[int]c13Rev{}}
	maxOps := 6
	if vt.Thorough() {
		maxOps = 9
	}
	nops := rapid.IntRange(2, maxOps).Draw(t, "nops")
	modes := map[string]bool{}
	anyOverlap := false
	var lastVals map[string]interface{}
	for i := 0; i < nops; i++ {
		var op *world.Op
		if i == 0 {
			op = &world.Op{Kind: "install", DisableHooks: true, Chart: c13Chart(t, 1), Values: c13GenTree(t, 2, "val")}
		} else if rapid.IntRange(0, 4).Draw(t, "rollback") == 0 {
			op = &world.Op{Kind: "rollback", DisableHooks: true, Target: rapid.IntRange(0, i).Draw(t, "target")}
		} else {
			op = &world.Op{Kind: "upgrade", DisableHooks: true, Chart: c13Chart(t, i+1), Values: c13GenTree(t, 2, "val")}
			switch rapid.IntRange(0, 5).Draw(t, "newValues") {
			case 0:
				op.Values = map[string]interface{}{}
			case 1, 2:
				if lastVals != nil {
					op.Values = c13Vary(t, lastVals, "vary")
				}
			}
			switch rapid.IntRange(0, 5).Draw(t, "mode") {
			case 1:
				op.ResetValues = true
			case 2:
				op.ReuseValues = true
			case 3:
				op.ResetThenReuse = true
			case 4:
				op.ResetValues, op.ReuseValues = true, true // documented: reset wins
			case 5:
				op.ReuseValues, op.ResetThenReuse = true, true // documented: reuse wins
			}
			// some upgrades fail after their revision was recorded: the deployed revision stays the base
			if rapid.IntRange(0, 5).Draw(t, "failing") == 0 {
				op.Fault = world.Fault{Kind: "wait", K: 0}
			} else if h := w.History(); len(h) > 0 && h[len(h)-1].Status == "failed" && rapid.IntRange(0, 2).Draw(t, "deployedLookupFails") == 0 {
				// the last revision is a failed upgrade and the lookup of the deployed one fails: the upgrade must not
				// carry on from the failed revision's values
				op.Fault = genDeployedLookupFault(t, w, op)
				modes["deployed-lookup-fault-after-failed-upgrade"] = true
			}
		}
		if len(op.Values) > 0 {
			lastVals = op.Values
		}
		cut, mode, overlap := j.run(op)
		modes[mode] = true
		anyOverlap = anyOverlap || overlap
		if cut {
			modes["cut-at-known-finding"] = true
			break
		}
	}
	var lbls []string
	for m := range modes {
		lbls = append(lbls, "mode:"+m)
	}
	sort.Strings(lbls)
	flagModes := 0
	for _, m := range []string{"default", "reset-values", "reuse-values", "reset-then-reuse-values"} {
		if modes[m] {
			flagModes++
		}
	}
	nontrivial := flagModes >= 2 && anyOverlap
	evid.Case(lbls, strings.Join(j.trace, ";"), nontrivial, map[string]interface{}{"chain": j.trace})
}

func TestC13(t *testing.T) {
	evid.Extra("rule", "C13: install with a generated value tree followed by chains (2..6 steps quick, 2..9 thorough) of upgrade{default | reset-values | reuse-values | reset-then-reuse-values | reset+reuse | reuse+reset-then-reuse} with a fresh value tree or an edited copy of the values given last (possibly empty; nulls, empty tables, lists, type changes over keys a..d, depth <= 3) and a new chart version with fresh defaults, and rollback{to k}; one upgrade in six fails after its revision was recorded. Runs on the Secret backend. A reference ledger gives, per revision, the expected user values (reset: new; reuse / reset-then-reuse: deployed revision's values overlaid key by key with the new ones; default: new if any else the deployed revision's; rollback: the target's) and the defaults in force (reuse: those of the deployed revision; otherwise the new chart's). Compared by leaf paths with the stored Release.Config of every created revision, and with what the templates really saw (a probe template emitting toJson .Values). Non-trivial = a chain using at least two different flag modes in which new values define a path the carried-forward values also define; distinct by the full chain.")
	evid.Extra("assumptions", []string{"single-level charts (stored charts do not keep subcharts)", "values are JSON-native (the record format is JSON)", "null, absent and empty table are compared as equal (a template cannot tell them apart)"})
	rapid.Check(t, c13Prop)
}

func TestC13_Known(t *testing.T)  { runKnownWorldCases(t, "C13", c13RunCase) }
func TestC13_Replay(t *testing.T) { replayWorldCase(t, c13RunCase) }
