package props

// C07 — Helm never takes over or deletes resources it does not own.

import (
	"encoding/json"
	"fmt"
	"os"
	"sort"
	"strings"
	"testing"

	"pgregory.net/rapid"

	"verif/internal/evid"
	"verif/internal/vt"
	"verif/internal/world"
)

var c07Variants = []string{"no-metadata", "other-release", "other-namespace", "label-only", "missing-name-annotation", "missing-namespace-annotation", "annotations-but-no-label", "wrong-label-value", "other-release-keep-policy", "label-only-keep-policy", "owned"}

// c07Preexisting builds a pre-existing object for resource r in ownership variant v.
func c07Preexisting(r world.Res, v string) map[string]interface{} {
	o := normObj(world.Res{Kind: r.Kind, Name: r.Name, Variant: 7}.Object()) // content differs from anything a chart generates
	md := o["metadata"].(map[string]interface{})
	md["namespace"] = r.Namespace()
	lb := map[string]interface{}{}
	an := map[string]interface{}{}
	switch v {
	case "other-release":
		lb["app.kubernetes.io/managed-by"] = "Helm"
		an["meta.helm.sh/release-name"], an["meta.helm.sh/release-namespace"] = "other", "default"
	case "other-namespace":
		lb["app.kubernetes.io/managed-by"] = "Helm"
		an["meta.helm.sh/release-name"], an["meta.helm.sh/release-namespace"] = "r", "other"
	case "other-release-keep-policy":
		// a resource another (live) release marked "keep": kept is not orphaned
		lb["app.kubernetes.io/managed-by"] = "Helm"
		an["meta.helm.sh/release-name"], an["meta.helm.sh/release-namespace"] = "other", "default"
		an["helm.sh/resource-policy"] = "keep"
	case "label-only-keep-policy":
		lb["app.kubernetes.io/managed-by"] = "Helm"
		an["helm.sh/resource-policy"] = "keep"
	case "label-only":
		lb["app.kubernetes.io/managed-by"] = "Helm"
	case "missing-name-annotation":
		lb["app.kubernetes.io/managed-by"] = "Helm"
		an["meta.helm.sh/release-namespace"] = "default"
	case "missing-namespace-annotation":
		lb["app.kubernetes.io/managed-by"] = "Helm"
		an["meta.helm.sh/release-name"] = "r"
	case "annotations-but-no-label":
		an["meta.helm.sh/release-name"], an["meta.helm.sh/release-namespace"] = "r", "default"
	case "wrong-label-value":
		lb["app.kubernetes.io/managed-by"] = "Tiller"
		an["meta.helm.sh/release-name"], an["meta.helm.sh/release-namespace"] = "r", "default"
	case "owned":
		lb["app.kubernetes.io/managed-by"] = "Helm"
		an["meta.helm.sh/release-name"], an["meta.helm.sh/release-namespace"] = "r", "default"
	}
	if len(lb) > 0 {
		if old, ok := md["labels"].(map[string]interface{}); ok {
			for k, v := range lb {
				old[k] = v
			}
		} else {
			md["labels"] = lb
		}
	}
	if len(an) > 0 {
		md["annotations"] = an
	}
	return o
}

// ownedByRelease is the documented ownership test: managed-by label and both release annotations of this very release.
func ownedByRelease(o map[string]interface{}, name, ns string) bool {
	md, _ := o["metadata"].(map[string]interface{})
	if md == nil {
		return false
	}
	lb, _ := md["labels"].(map[string]interface{})
	an, _ := md["annotations"].(map[string]interface{})
	return lb != nil && an != nil && lb["app.kubernetes.io/managed-by"] == "Helm" && an["meta.helm.sh/release-name"] == name && an["meta.helm.sh/release-namespace"] == ns
}

const c07SkippedSig = "C07:ownership-check-skipped/upgrade/conflicting-object-is-listed-by-the-base-revision-manifest"

type c07Step struct {
	Op    *world.Op `json:"op,omitempty"`
	Place *c07Place `json:"place,omitempty"`
}

type c07Place struct {
	Res     world.Res `json:"res"`
	Variant string    `json:"variant"`
}

type c07Judge struct {
	t       vt.TB
	w       *world.World
	steps   []c07Step
	trace   []string
	allKeys map[string]bool
	placed  map[string]string // path -> variant, objects placed by the harness that still have their placed content
	*revTracker
}

func (j *c07Judge) fail(sig, detail string) bool {
	return vt.Violation(j.t, sig, detail+"\n   "+traceOf(j.trace), map[string]interface{}{"backend": j.w.Backend.Kind, "steps": j.steps, "trace": j.trace})
}

func (j *c07Judge) place(p *c07Place) {
	j.steps = append(j.steps, c07Step{Place: p})
	if j.w.Cluster.Get(p.Res.Path()) != nil {
		j.trace = append(j.trace, fmt.Sprintf("place %s as %s (already exists, skipped)", p.Res.Key(), p.Variant))
		return
	}
	j.w.Cluster.Put(p.Res.Path(), c07Preexisting(p.Res, p.Variant))
	j.placed[p.Res.Path()] = p.Variant
	j.trace = append(j.trace, fmt.Sprintf("place %s as %s", p.Res.Key(), p.Variant))
}

func (j *c07Judge) runOp(op *world.Op) (cut bool, conflict bool, preexisting int) {
	j.steps = append(j.steps, c07Step{Op: op})
	if op.Kind == "install" || op.Kind == "upgrade" {
		for _, r := range op.Chart.Resources {
			j.allKeys[r.Path()] = true
		}
		for _, h := range op.Chart.Hooks {
			j.allKeys[h.Path()] = true
		}
	}
	// independent conflict determination, before the operation runs
	var conflicts []string
	preLive := map[string]map[string]interface{}{}
	if op.Kind == "install" || op.Kind == "upgrade" {
		for _, r := range op.Chart.Resources {
			if live := j.w.Cluster.Get(r.Path()); live != nil {
				preLive[r.Path()] = live
				if _, ours := j.placed[r.Path()]; ours {
					preexisting++
				}
				if !ownedByRelease(live, "r", "default") {
					conflicts = append(conflicts, r.Key()+"("+j.placed[r.Path()]+")")
				}
			}
		}
	}
	preCluster, preStore := j.w.Cluster.Snapshot(), j.w.Backend.Snapshot()
	res := j.w.Run(op)
	defer j.observe(op, res)
	line := fmt.Sprintf("%s => err=%v %s", op.Describe(), res.Err != nil, world.HistString(res.Post))
	if res.Err != nil {
		line += fmt.Sprintf("  (%.160s)", res.Err.Error())
	}
	if len(conflicts) > 0 {
		line += fmt.Sprintf("  [conflicts: %v]", conflicts)
	}
	j.trace = append(j.trace, line)
	ctx := op.Kind
	if op.Replace && len(res.Pre) > 0 {
		ctx += "-replace"
	}
	if op.TakeOwnership {
		ctx += "-take-ownership"
	}
	skipped := false
	// The ownership check only looks at resources that the base revision's manifest (the deployed revision, or the last
	// one when none is deployed) does not list. An object that manifest merely lists - never created, or deleted again
	// by a failed upgrade - is assumed to belong to the release. Named separately: one specific root cause.
	var baseSpec *world.ChartSpec
	if op.Kind == "upgrade" && len(res.Pre) > 0 {
		bv := res.Pre[len(res.Pre)-1].Version
		if d := deployedRevs(res.Pre); len(d) > 0 {
			bv = d[len(d)-1]
		}
		if s, ok := j.specOf[bv]; ok {
			baseSpec = &s
		}
	}
	if baseSpec != nil && len(conflicts) > 0 {
		named := baseSpec.ResByKey()
		all := true
		for _, r := range op.Chart.Resources {
			if live := preLive[r.Path()]; live != nil && !ownedByRelease(live, "r", "default") {
				if _, ok := named[r.Key()]; !ok {
					all = false
				}
			}
		}
		skipped = all
	}
	// always: deletes only hit objects named by a manifest or hook of this release
	for _, e := range res.Events {
		if e.Layer == "kube" && e.Verb == "DELETE" && !j.allKeys[e.Key] {
			return j.fail("C07:delete-of-object-not-named-by-the-release/"+ctx, e.String()), len(conflicts) > 0, preexisting
		}
	}
	// an object another actor created while the operation ran must not be written by it (unless take-ownership)
	if ij := op.Interject; ij != nil && ij.Done && !op.TakeOwnership {
		ijSkipped := false
		if baseSpec != nil {
			for _, r := range baseSpec.Resources {
				if r.Path() == ij.Path {
					ijSkipped = true
				}
			}
		}
		if ijSkipped {
			changed := res.Err == nil
			for _, e := range res.Events {
				if e.Layer == "kube" && e.Key == ij.Path && (e.Verb == "PATCH" || e.Verb == "PUT") && e.Code < 300 {
					changed = true
				}
			}
			if changed {
				return j.fail(c07SkippedSig, "the object appeared during the operation: "+ij.Path), len(conflicts) > 0, preexisting
			}
			return false, len(conflicts) > 0, preexisting
		}
		for _, e := range res.Events {
			if e.Layer == "kube" && e.Key == ij.Path && (e.Verb == "PATCH" || e.Verb == "PUT") && e.Code < 300 {
				return j.fail("C07:write-to-foreign-object-that-appeared-during-the-operation/"+op.Kind, e.String()), len(conflicts) > 0, preexisting
			}
		}
		deletedByOp := false
		for _, e := range res.Events {
			if e.Layer == "kube" && e.Key == ij.Path && e.Verb == "DELETE" && e.Code < 300 {
				deletedByOp = true
			}
		}
		if deletedByOp {
			// e.g. cleanup-on-fail deletes what it tried to create; the object is named in the release's manifest, which
			// the statement's third sentence allows to be deleted - recorded, not judged
			evid.Note("C07:not-judged/foreign-object-that-appeared-during-the-operation-deleted-by-cleanup")
		} else if live := j.w.Cluster.Get(ij.Path); live == nil || jsonOf(live) != jsonOf(normObj(ij.Object)) {
			return j.fail("C07:foreign-object-that-appeared-during-the-operation-was-changed/"+op.Kind, fmt.Sprintf("%s\n   placed %s\n   now    %s", ij.Path, jsonOf(ij.Object), jsonOf(live))), len(conflicts) > 0, preexisting
		}
		if res.Err == nil {
			return j.fail("C07:operation-succeeded-over-foreign-object-that-appeared-during-it/"+op.Kind, ij.Path), len(conflicts) > 0, preexisting
		}
		return false, len(conflicts) > 0, preexisting
	}
	// was the operation refused before it got to the ownership question (name in use, no deployed release, ...)?
	reached := false
	for _, e := range res.Events {
		if e.Layer == "kube" && e.Key != "/version" {
			reached = true
		}
	}
	if len(conflicts) > 0 && !op.TakeOwnership && skipped {
		// one root cause whatever clause it trips: the ownership check never looked at the conflicting object
		changed := res.Err == nil || diffSnap(preCluster, j.w.Cluster.Snapshot()) != "" || diffSnap(preStore, j.w.Backend.Snapshot()) != ""
		for _, e := range res.Events {
			if e.Mutating() {
				changed = true
			}
		}
		if changed {
			return j.fail(c07SkippedSig, fmt.Sprintf("conflicts %v, err=%v", conflicts, res.Err)), true, preexisting
		}
		return false, true, preexisting
	}
	if len(conflicts) > 0 && !op.TakeOwnership && (op.Kind == "install" || op.Kind == "upgrade") {
		if res.Err == nil {
			return j.fail("C07:foreign-object-taken-over/"+ctx, fmt.Sprintf("operation succeeded although %v exist and do not belong to this release", conflicts)), true, preexisting
		}
		for _, e := range res.Events {
			if e.Mutating() {
				return j.fail("C07:cluster-write-before-refusing/"+ctx, fmt.Sprintf("%s ; conflicts %v", e.String(), conflicts)), true, preexisting
			}
		}
		if d := diffSnap(preCluster, j.w.Cluster.Snapshot()); d != "" {
			return j.fail("C07:cluster-changed-by-refused-operation/"+ctx, d), true, preexisting
		}
		if d := diffSnap(preStore, j.w.Backend.Snapshot()); d != "" {
			return j.fail("C07:history-changed-by-refused-operation/"+ctx, d), true, preexisting
		}
		return false, true, preexisting
	}
	if res.Err == nil && reached && (op.Kind == "install" || op.Kind == "upgrade") {
		for _, r := range op.Chart.Resources {
			live := j.w.Cluster.Get(r.Path())
			if live == nil {
				return j.fail("C07:manifest-resource-missing-after-success/"+ctx, r.Key()), false, preexisting
			}
			if !ownedByRelease(live, "r", "default") {
				return j.fail("C07:resource-without-ownership-metadata-after-success/"+ctx, fmt.Sprintf("%s: %s", r.Key(), jsonOf(live["metadata"]))), false, preexisting
			}
			delete(j.placed, r.Path())
		}
	}
	// forget placed objects that are gone
	for p := range j.placed {
		if j.w.Cluster.Get(p) == nil {
			delete(j.placed, p)
		}
	}
	return false, false, preexisting
}

func c07RunCase(tb vt.TB, backend string, steps []c07Step) {
	w := world.New(backend)
	j := &c07Judge{t: tb, w: w, allKeys: map[string]bool{}, placed: map[string]string{}, revTracker: newRevTracker()}
	for _, s := range steps {
		if s.Place != nil {
			j.place(s.Place)
			continue
		}
		if cut, _, _ := j.runOp(s.Op); cut {
			return
		}
	}
}

func c07Prop(t *rapid.T) {
	backend := rapid.SampledFrom([]string{"memory", "secret"}).Draw(t, "backend")
	w := world.New(backend)
	j := &c07Judge{t: t, w: w, allKeys: map[string]bool{}, placed: map[string]string{}, revTracker: newRevTracker()}
	maxOps := 4
	if vt.Thorough() {
		maxOps = 7
	}
	nops := rapid.IntRange(1, maxOps).Draw(t, "nops")
	lbl := map[string]bool{}
	nontrivial := false
	var lastFailedChart *world.ChartSpec
	for i := 0; i < nops; i++ {
		// place pre-existing objects for pool resources that do not exist yet (biased towards what a failed upgrade named)
		for n := rapid.IntRange(0, 3).Draw(t, "nPlace"); n > 0; n-- {
			r := wgPool[rapid.IntRange(0, len(wgPool)-1).Draw(t, "placeRes")]
			if rapid.IntRange(0, 4).Draw(t, "placeInOtherNamespace") == 0 {
				r.NS = "other"
			}
			if lastFailedChart != nil && rapid.Bool().Draw(t, "placeFromFailed") {
				r = lastFailedChart.Resources[rapid.IntRange(0, len(lastFailedChart.Resources)-1).Draw(t, "placeFailedRes")]
				r.Variant, r.Policy = 0, ""
			}
			j.place(&c07Place{Res: r, Variant: rapid.SampledFrom(c07Variants).Draw(t, "variant")})
		}
		kinds := []string{"upgrade", "upgrade", "upgrade", "uninstall", "install", "rollback"}
		if len(w.History()) == 0 {
			kinds = []string{"install"}
		}
		op := &world.Op{Kind: rapid.SampledFrom(kinds).Draw(t, "op")}
		op.DisableHooks = rapid.Bool().Draw(t, "noHooks")
		switch op.Kind {
		case "install":
			op.Replace = len(w.History()) > 0
			op.TakeOwnership = rapid.IntRange(0, 3).Draw(t, "takeOwnership") == 0
			// --create-namespace: one more object Helm may create - but not before it has decided to go ahead
			op.CreateNS = rapid.IntRange(0, 2).Draw(t, "createNamespace") == 0
		case "upgrade":
			op.TakeOwnership = rapid.IntRange(0, 3).Draw(t, "takeOwnership") == 0
			op.CleanupOnFail = rapid.Bool().Draw(t, "cleanup")
		case "uninstall":
			op.KeepHistory = rapid.Bool().Draw(t, "keepHistory")
		case "rollback":
			op.Target = rapid.IntRange(0, 3).Draw(t, "target")
		}
		if op.Kind == "install" || op.Kind == "upgrade" {
			op.Chart = world.ChartSpec{Version: i + 1, Resources: genResources(t, 4, nil)}
			// a template may name a namespace of its own: the same kind and name elsewhere is a different object
			for k := range op.Chart.Resources {
				if rapid.IntRange(0, 5).Draw(t, "explicitNamespace") == 0 {
					op.Chart.Resources[k].NS = "other"
					lbl["resource-in-another-namespace"] = true
				}
			}
			// a template may set the managed-by label itself (to its author's tool): Helm's own value must win
			for k := range op.Chart.Resources {
				if rapid.IntRange(0, 7).Draw(t, "templateSetsManagedBy") == 0 {
					op.Chart.Resources[k].ManagedBy = "chart-author"
					lbl["template-sets-managed-by-itself"] = true
				}
			}
			if !op.DisableHooks {
				op.Chart.Hooks = genSimpleHooks(t)
			}
			// some operations fail half-way (a later retry must still respect ownership)
			if rapid.IntRange(0, 5).Draw(t, "faulted") == 0 {
				op.Fault = world.Fault{Kind: rapid.SampledFrom([]string{"kube", "wait"}).Draw(t, "faultKind"), K: rapid.IntRange(0, 10).Draw(t, "faultK"), Code: rapid.SampledFrom([]int{500, 500, 403, 409}).Draw(t, "faultCode")}
			} else if rapid.IntRange(0, 3).Draw(t, "ownershipReadRejected") == 0 {
				// the read that the ownership check makes of an object that exists and is not the release's is itself
				// rejected (403: may create, may not read; 500): not knowing is no licence to go on
				for _, r := range op.Chart.Resources {
					if live := w.Cluster.Get(r.Path()); live != nil && !ownedByRelease(live, "r", "default") {
						op.Fault = world.Fault{Kind: "kubematch", Verb: "GET", Path: r.Path(), Code: rapid.SampledFrom([]int{403, 500}).Draw(t, "readRejectedWith")}
						lbl["ownership-read-rejected"] = true
						break
					}
				}
			}
		}
		// a failed upgrade is often simply retried with the same chart
		if op.Kind == "upgrade" && lastFailedChart != nil && rapid.Bool().Draw(t, "retrySameChart") {
			op.Chart = *lastFailedChart
			op.Chart.Version = i + 1
			lbl["retry-of-failed-upgrade"] = true
		}
		// another actor creates an object of the manifest while the operation runs
		if (op.Kind == "install" || op.Kind == "upgrade") && rapid.IntRange(0, 4).Draw(t, "interject") == 0 {
			var absent []world.Res
			for _, r := range op.Chart.Resources {
				if w.Cluster.Get(r.Path()) == nil {
					absent = append(absent, r)
				}
			}
			if kn, _, _, _ := w.Count(op); kn > 0 && len(absent) > 0 {
				r := absent[rapid.IntRange(0, len(absent)-1).Draw(t, "interjectRes")]
				v := rapid.SampledFrom(c07Variants[:len(c07Variants)-1]).Draw(t, "interjectVariant")
				op.Interject = &world.Interject{AtKube: rapid.IntRange(0, kn-1).Draw(t, "interjectAt"), Path: r.Path(), Object: c07Preexisting(r, v)}
				lbl["object-appears-during-operation"] = true
			}
		}
		// --atomic (drawn only where nothing else interferes): a refusal is not a failed deployment and must not start
		// the automatic rollback
		if (op.Kind == "install" || op.Kind == "upgrade") && op.Fault.Kind == "" && op.Interject == nil && rapid.IntRange(0, 2).Draw(t, "atomic") == 0 {
			op.Atomic = true
		}
		cut, conflict, pre := j.runOp(op)
		if h := w.History(); op.Kind == "upgrade" && len(h) > 0 && h[len(h)-1].Status == "failed" {
			c := op.Chart
			lastFailedChart = &c
		} else if op.Kind != "rollback" || len(h) == 0 || h[len(h)-1].Status != "failed" {
			lastFailedChart = nil
		}
		if pre > 0 {
			nontrivial = true
			lbl["preexisting-object-named-by-manifest:"+op.Kind] = true
		}
		if conflict {
			lbl["conflict:"+op.Kind] = true
		}
		if op.TakeOwnership && pre > 0 {
			lbl["take-ownership-with-preexisting"] = true
		}
		if cut {
			lbl["cut-at-known-finding"] = true
			break
		}
	}
	for _, v := range j.placed {
		lbl["variant:"+v] = true
	}
	var lbls []string
	for k := range lbl {
		lbls = append(lbls, k)
	}
	sort.Strings(lbls)
	evid.Case(lbls, backend+"|"+strings.Join(j.trace, ";"), nontrivial, map[string]interface{}{"backend": backend, "history": j.trace})
}

func TestC07(t *testing.T) {
	evid.Extra("rule", "C07: rapid-generated histories (1..4 operations quick, 1..7 thorough) of install / upgrade / install --replace / rollback / uninstall, with and without take-ownership, installs and upgrades without fault with and without --atomic, one manifest resource in eight setting app.kubernetes.io/managed-by itself, some failing half-way through an injected fault, some with the ownership check's own read of a foreign object rejected (403/500); resources and placed objects may name a namespace of their own (same kind and name elsewhere is a different object); before every operation 0-3 objects are placed in the cluster for pool resources that do not exist yet, in one of nine ownership variants (no metadata, owned by another release name, right name but other namespace annotation, label only, one annotation missing, annotations without label, wrong label value, correctly owned). Conflict is decided independently of Helm: some resource of the new manifest exists live and does not carry managed-by=Helm plus both meta.helm.sh annotations of this release. Conflict without take-ownership => error, no mutating request in the log, cluster and stored history byte-identical; otherwise after success every manifest resource carries the ownership metadata; every DELETE in any operation targets an object named by a manifest or hook of this release. Non-trivial = an operation whose manifest names at least one harness-placed pre-existing object; distinct by the full step sequence.")
	evid.Extra("assumptions", []string{"charts have no crds/ directory (CRDs are installed before the ownership check by documented design)", c01Assumptions[0]})
	rapid.Check(t, c07Prop)
}

type c07Case struct {
	Backend string    `json:"backend"`
	Steps   []c07Step `json:"steps"`
}

func TestC07_Known(t *testing.T) {
	for _, e := range knownEntries("C07") {
		d, err := loadReplayDoc(e.Replay)
		var c c07Case
		if err == nil {
			err = json.Unmarshal(d.Case, &c)
		}
		if err != nil {
			fmt.Printf("KNOWN-GONE sig=%s :: replay unreadable: %v\n", e.Signature, err)
			continue
		}
		vt.CheckKnown(e.Signature, e.What, func(tb vt.TB) { c07RunCase(tb, c.Backend, c.Steps) })
	}
}

func TestC07_Replay(t *testing.T) {
	p := os.Getenv("VERIF_REPLAY_JSON")
	if p == "" {
		t.Skip("no VERIF_REPLAY_JSON")
	}
	d, err := loadReplayDoc(p)
	if err != nil {
		t.Fatal(err)
	}
	var c c07Case
	if err := json.Unmarshal(d.Case, &c); err != nil {
		t.Fatal(err)
	}
	c07RunCase(t, c.Backend, c.Steps)
}
