package props

// C15 generators: chart specifications (intent + the exact file texts), ignore-rule cases, invalid name/version cases.

import (
	"encoding/json"
	"fmt"
	"regexp"
	"sort"
	"strings"
	"time"
	"unicode"
	"unicode/utf8"

	"pgregory.net/rapid"

	"verif/internal/vt"

	chart "helm.sh/helm/v4/pkg/chart/v2"
)

// ---------------------------------------------------------------------------------------------------------------
// a small YAML writer (the harness must not use Helm's marshalling to produce its inputs)

type c15Emitter struct{ pick func(n int) int }

var (
	c15PlainRe  = regexp.MustCompile(`^[A-Za-z\p{L}]([A-Za-z0-9\p{L} _./-]*[A-Za-z0-9\p{L}])?$`)
	c15Reserved = map[string]bool{"y": true, "n": true, "yes": true, "no": true, "true": true, "false": true, "on": true, "off": true, "null": true, "nan": true, "inf": true}
)

func c15PlainOK(s string) bool {
	return c15PlainRe.MatchString(s) && !c15Reserved[strings.ToLower(s)] && !strings.Contains(s, "  ") && !strings.Contains(s, " -")
}

func c15SingleOK(s string) bool {
	for _, r := range s {
		if r < 0x20 || r == 0x7f || (r >= 0x80 && !unicode.IsLetter(r) && !unicode.IsDigit(r)) {
			return false
		}
	}
	return true
}

// c15DQuote writes a YAML double-quoted scalar; everything that is not plainly printable is written as an escape.
func c15DQuote(s string) string {
	var b strings.Builder
	b.WriteByte('"')
	for _, r := range s {
		switch {
		case r == '"':
			b.WriteString(`\"`)
		case r == '\\':
			b.WriteString(`\\`)
		case r == '\n':
			b.WriteString(`\n`)
		case r == '\t':
			b.WriteString(`\t`)
		case r == '\r':
			b.WriteString(`\r`)
		case r >= 0x20 && r < 0x7f:
			b.WriteRune(r)
		case r >= 0x80 && (unicode.IsLetter(r) || unicode.IsDigit(r)):
			b.WriteRune(r)
		case r <= 0xffff:
			fmt.Fprintf(&b, `\u%04X`, r)
		default:
			fmt.Fprintf(&b, `\U%08X`, r)
		}
	}
	b.WriteByte('"')
	return b.String()
}

func (e *c15Emitter) str(s string) string {
	switch e.pick(3) {
	case 0:
		if c15PlainOK(s) {
			return s
		}
	case 1:
		if c15SingleOK(s) {
			return "'" + strings.ReplaceAll(s, "'", "''") + "'"
		}
	}
	return c15DQuote(s)
}

func (e *c15Emitter) key(s string) string {
	if c15PlainOK(s) && !strings.Contains(s, " ") {
		return s
	}
	return c15DQuote(s)
}

func (e *c15Emitter) scalar(v interface{}) (string, bool) {
	switch x := v.(type) {
	case nil:
		return []string{"null", "~", "null"}[e.pick(3)], true
	case string:
		return e.str(x), true
	case bool:
		if x {
			return "true", true
		}
		return "false", true
	case int:
		return fmt.Sprint(x), true
	case int64:
		return fmt.Sprint(x), true
	case float64:
		b, _ := json.Marshal(x)
		return string(b), true
	case json.Number:
		return x.String(), true
	case map[string]interface{}:
		if len(x) == 0 {
			return "{}", true
		}
	case []interface{}:
		if len(x) == 0 {
			return "[]", true
		}
	}
	return "", false
}

func (e *c15Emitter) flow(v interface{}) string {
	if s, ok := e.scalar(v); ok {
		if _, isStr := v.(string); isStr {
			return c15DQuote(v.(string))
		}
		return s
	}
	switch x := v.(type) {
	case map[string]interface{}:
		ks := make([]string, 0, len(x))
		for k := range x {
			ks = append(ks, k)
		}
		sort.Strings(ks)
		parts := make([]string, 0, len(ks))
		for _, k := range ks {
			parts = append(parts, c15DQuote(k)+": "+e.flow(x[k]))
		}
		return "{" + strings.Join(parts, ", ") + "}"
	case []interface{}:
		parts := make([]string, 0, len(x))
		for _, it := range x {
			parts = append(parts, e.flow(it))
		}
		return "[" + strings.Join(parts, ", ") + "]"
	}
	panic(fmt.Sprintf("c15 emitter: unsupported %T", v))
}

func (e *c15Emitter) block(b *strings.Builder, v interface{}, ind int) {
	pad := strings.Repeat(" ", ind)
	switch x := v.(type) {
	case map[string]interface{}:
		ks := make([]string, 0, len(x))
		for k := range x {
			ks = append(ks, k)
		}
		sort.Strings(ks)
		for _, k := range ks {
			if s, ok := e.scalar(x[k]); ok {
				b.WriteString(pad + e.key(k) + ": " + s + "\n")
				continue
			}
			if e.pick(5) == 0 {
				b.WriteString(pad + e.key(k) + ": " + e.flow(x[k]) + "\n")
				continue
			}
			b.WriteString(pad + e.key(k) + ":\n")
			if _, isList := x[k].([]interface{}); isList {
				e.block(b, x[k], ind)
			} else {
				e.block(b, x[k], ind+2)
			}
		}
	case []interface{}:
		for _, it := range x {
			if s, ok := e.scalar(it); ok {
				b.WriteString(pad + "- " + s + "\n")
				continue
			}
			if m, isMap := it.(map[string]interface{}); isMap {
				var sub strings.Builder
				e.block(&sub, m, ind+2)
				txt := sub.String()
				b.WriteString(pad + "- " + txt[ind+2:])
				continue
			}
			b.WriteString(pad + "- " + e.flow(it) + "\n")
		}
	default:
		panic(fmt.Sprintf("c15 emitter: unsupported %T", v))
	}
}

// doc writes a top-level mapping, as a block document or (one time in five) as one flow mapping.
func (e *c15Emitter) doc(m map[string]interface{}) string {
	if len(m) == 0 {
		return "{}\n"
	}
	if e.pick(5) == 0 {
		return e.flow(m) + "\n"
	}
	var b strings.Builder
	if e.pick(4) == 0 {
		b.WriteString("# generated\n---\n")
	}
	e.block(&b, m, 0)
	return b.String()
}

func c15Generic(v interface{}) map[string]interface{} {
	b, err := json.Marshal(v)
	if err != nil {
		panic(err)
	}
	var m map[string]interface{}
	if err := json.Unmarshal(b, &m); err != nil {
		panic(err)
	}
	return m
}

// ---------------------------------------------------------------------------------------------------------------
// chart specification

type c15Values struct {
	Raw     []byte `json:"raw"`
	Want    string `json:"want,omitempty"` // canonical JSON of the expected parsed values; "" = unknown
	Preview string `json:"preview,omitempty"`
}

type c15Lock struct {
	File      string              `json:"file"` // Chart.lock or requirements.lock
	Text      []byte              `json:"text"`
	Generated string              `json:"generated"`
	Digest    string              `json:"digest"`
	Deps      []*chart.Dependency `json:"deps"`
	Preview   string              `json:"preview,omitempty"`
}

type c15Sub struct {
	Dir  string   `json:"dir"` // charts/<Dir>/... or charts/<Dir>.tgz
	Tgz  bool     `json:"tgz"`
	Spec *c15Spec `json:"spec"`
}

type c15Spec struct {
	ChartYAML     []byte         `json:"chartYAML"`
	ChartPreview  string         `json:"chartPreview,omitempty"`
	ChartYAMLLast bool           `json:"chartYAMLLast,omitempty"`
	Meta          chart.Metadata `json:"meta"`
	ReqYAML       []byte         `json:"requirementsYAML,omitempty"`
	Values        *c15Values     `json:"values,omitempty"`
	Schema        []byte         `json:"schema,omitempty"`
	Lock          *c15Lock       `json:"lock,omitempty"`
	Files         []c15File      `json:"files,omitempty"`
	Subs          []c15Sub       `json:"subs,omitempty"`
}

func c15F(name string, data []byte) c15File {
	p := string(data)
	if len(p) > 60 {
		p = p[:60] + "..."
	}
	return c15File{Name: name, Data: data, Preview: fmt.Sprintf("%q", p)}
}

func (s *c15Spec) api() string {
	if s.Meta.APIVersion == "" {
		return chart.APIVersionV1
	}
	return s.Meta.APIVersion
}

// c15Flat is the file set of the chart (names relative to the chart root).
func c15Flat(s *c15Spec) []c15File {
	var out []c15File
	if !s.ChartYAMLLast {
		out = append(out, c15File{Name: "Chart.yaml", Data: s.ChartYAML})
	}
	if s.Values != nil {
		out = append(out, c15File{Name: "values.yaml", Data: s.Values.Raw})
	}
	if s.Schema != nil {
		out = append(out, c15File{Name: "values.schema.json", Data: s.Schema})
	}
	if s.ReqYAML != nil {
		out = append(out, c15File{Name: "requirements.yaml", Data: s.ReqYAML})
	}
	if s.Lock != nil {
		out = append(out, c15File{Name: s.Lock.File, Data: s.Lock.Text})
	}
	out = append(out, s.Files...)
	for _, sub := range s.Subs {
		inner := c15Flat(sub.Spec)
		if sub.Tgz {
			out = append(out, c15File{Name: "charts/" + sub.Dir + ".tgz", Data: c15Tgz(sub.Dir, inner)})
			continue
		}
		for _, f := range inner {
			out = append(out, c15File{Name: "charts/" + sub.Dir + "/" + f.Name, Data: f.Data})
		}
	}
	if s.ChartYAMLLast {
		out = append(out, c15File{Name: "Chart.yaml", Data: s.ChartYAML})
	}
	return out
}

// c15Expect derives, from the intent alone, the chart that loading the file set must give.
func c15Expect(s *c15Spec) *c15Snap {
	e := &c15Snap{Templates: map[string]string{}, Files: map[string]string{}, Deps: map[string]*c15Snap{}}
	e.Name = c15Sanitize(s.Meta.Name)
	e.Version = s.Meta.Version
	e.API = s.api()
	e.Meta = c15ExpectMeta(&s.Meta)
	e.Values = "{}"
	if s.Values != nil {
		e.HasValues = true
		e.RawValues = string(s.Values.Raw)
		e.Values = s.Values.Want
	}
	if s.Schema != nil {
		e.HasSchema = true
		e.Schema = string(s.Schema)
	}
	e.Lock = "<none>"
	if s.Lock != nil {
		g, err := time.Parse(time.RFC3339Nano, s.Lock.Generated)
		if err != nil {
			panic("c15 generator: bad lock time " + s.Lock.Generated)
		}
		e.Lock = c15LockText(&chart.Lock{Generated: g, Digest: s.Lock.Digest, Dependencies: s.Lock.Deps})
	}
	for _, f := range s.Files {
		if strings.HasPrefix(f.Name, "templates/") {
			e.Templates[f.Name] = string(f.Data)
		} else {
			e.Files[f.Name] = string(f.Data)
		}
	}
	if e.API == chart.APIVersionV1 {
		// documented for v1 charts: requirements.yaml / requirements.lock stay ordinary files of the chart
		if s.ReqYAML != nil {
			e.Files["requirements.yaml"] = string(s.ReqYAML)
		}
		if s.Lock != nil && s.Lock.File == "requirements.lock" {
			e.Files["requirements.lock"] = string(s.Lock.Text)
		}
	}
	for _, sub := range s.Subs {
		se := c15Expect(sub.Spec)
		e.Deps[se.Name] = se
	}
	return e
}

// ---------------------------------------------------------------------------------------------------------------
// generators

var c15StrPool = []string{
	"plain", "", "ünï cødé ✓", "tab\there", "multi\nline", " lead and trail ", "yes", "null", "~", "1.0", "0123", "0x1F", "1e3",
	"1_000", "12:30:00", "2001-12-14", "2001-12-14T21:59:43Z", "- dash", "a: b", "# hash", "@at", "'single'", "\"double\"", "{brace}", "[x]", "*star", "&anchor",
	"!tag", "%pct", "|pipe", ">fold", "back\\slash", "nul\x00byte", "bell\x07", "\u0085nel", "\u2028ls", "\ufeffbom", "😀", "trailing colon:",
	"? q", "a #b", "key: 'v'", "=", "<<", "\u00a0nbsp", "ctl\x1b[0m", "https://example.com/a?b=c&d=e#f", "a\r\nb", "  ", ".", "-", "é", "\u200b",
	"Y", "No", "TRUE", ".inf", "-.inf", ".NaN", "0o17", "+1", "1.", "0b1", "1:2", "!!str x", "`bt`", "a,b", "\\n", "'", "\"", "''",
}

func c15Str(t *rapid.T, label string) string {
	switch rapid.IntRange(0, 11).Draw(t, label+"K") {
	case 0:
		s := rapid.StringN(0, 24, -1).Draw(t, label+"R")
		if !utf8.ValidString(s) {
			return "x"
		}
		return s
	case 1:
		return strings.Repeat("long text ", rapid.IntRange(10, 60).Draw(t, label+"L"))
	default:
		return rapid.SampledFrom(c15StrPool).Draw(t, label)
	}
}

func c15Opt(t *rapid.T, label string) string {
	if rapid.IntRange(0, 2).Draw(t, label+"?") != 0 {
		return ""
	}
	return c15Str(t, label)
}

func c15GenDeps(t *rapid.T, label string, max int) []*chart.Dependency {
	n := rapid.IntRange(0, max).Draw(t, label+"N")
	var out []*chart.Dependency
	used := map[string]bool{}
	for i := 0; i < n; i++ {
		d := &chart.Dependency{
			Name:       rapid.SampledFrom([]string{"child", "sub-2", "dep", "ünï-dep", "redis", "tab\tdep"}).Draw(t, label+"n"),
			Version:    rapid.SampledFrom([]string{"1.2.3", "^1.0.0", ">=1.0.0 <2.0.0", "~1.2", "*", "", "1.x"}).Draw(t, label+"v"),
			Repository: rapid.SampledFrom([]string{"https://r.example/charts", "file://../x", "@alias", "oci://reg/x", "", "https://ü.example/ä?x=1"}).Draw(t, label+"r"),
			Condition:  rapid.SampledFrom([]string{"", "child.enabled", "a.b,c.d"}).Draw(t, label+"c"),
			Alias:      rapid.SampledFrom([]string{"", "", "al", "A_b-1"}).Draw(t, label+"a"),
			Enabled:    rapid.IntRange(0, 3).Draw(t, label+"e") == 0,
		}
		switch rapid.IntRange(0, 3).Draw(t, label+"t") {
		case 0:
			d.Tags = []string{"front", "ünï"}
		case 1:
			d.Tags = []string{c15Str(t, label+"tag")}
		}
		switch rapid.IntRange(0, 4).Draw(t, label+"iv") {
		case 0:
			d.ImportValues = []interface{}{"data"}
		case 1:
			d.ImportValues = []interface{}{map[string]interface{}{"child": "a.b", "parent": "c"}, "x.y"}
		case 2:
			d.ImportValues = []interface{}{map[string]interface{}{"child": c15Str(t, label+"ivc"), "parent": "."}}
		}
		key := c15Sanitize(d.Name)
		if d.Alias != "" {
			key = d.Alias
		}
		if used[key] {
			continue
		}
		used[key] = true
		out = append(out, d)
	}
	return out
}

var c15Versions = []string{"1.0.0", "0.1.0-rc.1+b5", "v2.0.0", "1.2", "10.20.30-alpha.beta+exp.sha.5114f85", "0.0.0", "3", "1.0.0+build-7"}

func c15GenMeta(t *rapid.T, name string) chart.Metadata {
	md := chart.Metadata{
		Name:       name,
		Version:    rapid.SampledFrom(c15Versions).Draw(t, "ver"),
		APIVersion: rapid.SampledFrom([]string{"v1", "v2", "v2", "v2", ""}).Draw(t, "api"),
	}
	md.Description = c15Opt(t, "desc")
	md.Home = c15Opt(t, "home")
	md.Icon = c15Opt(t, "icon")
	md.Condition = c15Opt(t, "cond")
	md.Tags = c15Opt(t, "tags")
	md.AppVersion = c15Opt(t, "appv")
	md.KubeVersion = c15Opt(t, "kubev")
	md.Type = rapid.SampledFrom([]string{"", "", "application", "library"}).Draw(t, "type")
	md.Deprecated = rapid.IntRange(0, 4).Draw(t, "depr") == 0
	for i, n := 0, rapid.IntRange(0, 2).Draw(t, "nsrc"); i < n; i++ {
		md.Sources = append(md.Sources, c15Str(t, "src"))
	}
	for i, n := 0, rapid.IntRange(0, 3).Draw(t, "nkw"); i < n; i++ {
		md.Keywords = append(md.Keywords, c15Str(t, "kw"))
	}
	for i, n := 0, rapid.IntRange(0, 2).Draw(t, "nmt"); i < n; i++ {
		md.Maintainers = append(md.Maintainers, &chart.Maintainer{Name: c15Str(t, "mn"), Email: c15Opt(t, "me"), URL: c15Opt(t, "mu")})
	}
	if n := rapid.IntRange(0, 3).Draw(t, "nann"); n > 0 {
		md.Annotations = map[string]string{}
		for i := 0; i < n; i++ {
			k := rapid.SampledFrom([]string{"k", "example.com/x", "ünï", "with space", "a.b/c-d_e", ""}).Draw(t, "annk")
			md.Annotations[k] = c15Str(t, "annv")
		}
	}
	if rapid.IntRange(0, 2).Draw(t, "hasdeps") == 0 {
		md.Dependencies = c15GenDeps(t, "dep", 3)
	}
	return md
}

// value trees for values.yaml
func c15GenTree(t *rapid.T, depth int, label string) map[string]interface{} {
	m := map[string]interface{}{}
	n := rapid.IntRange(0, 4).Draw(t, label+"N")
	for i := 0; i < n; i++ {
		k := rapid.SampledFrom([]string{"a", "b", "image", "tag", "global", "k.dot", "ünï", "x y", "enabled", "list", "nested", "Yes", "1"}).Draw(t, label+"K")
		m[k] = c15GenVal(t, depth, label+"v")
	}
	return m
}

func c15GenVal(t *rapid.T, depth int, label string) interface{} {
	k := rapid.IntRange(0, 8).Draw(t, label+"k")
	if depth <= 0 && k >= 6 {
		k = 1
	}
	switch k {
	case 0:
		return nil
	case 1:
		return rapid.SampledFrom(c15StrPool).Draw(t, label+"s")
	case 2:
		return rapid.Int64Range(-(1<<53), 1<<53).Draw(t, label+"i")
	case 3:
		return rapid.Bool().Draw(t, label+"b")
	case 4:
		return rapid.SampledFrom([]float64{1.5, -0.25, 0.5}).Draw(t, label+"f")
	case 5:
		return int64(rapid.IntRange(0, 9).Draw(t, label+"d"))
	case 6:
		n := rapid.IntRange(0, 3).Draw(t, label+"ln")
		l := make([]interface{}, 0, n)
		for i := 0; i < n; i++ {
			l = append(l, c15GenVal(t, depth-1, label+"e"))
		}
		return l
	default:
		return c15GenTree(t, depth-1, label+"m")
	}
}

var c15CuratedValues = []c15Values{
	{Raw: []byte(""), Want: "{}"},
	{Raw: []byte("# only a comment\n"), Want: "{}"},
	{Raw: []byte("a: 1\n# comment\nb:\n  c: [1, 2]\n"), Want: `{"a":1,"b":{"c":[1,2]}}`},
	{Raw: []byte("---\na: 1\n---\nb: 2\n"), Want: `{"a":1,"b":2}`},
	{Raw: []byte("x: null\n"), Want: `{"x":null}`},
	{Raw: []byte("a: &anc\n  k: v\nb: *anc\n"), Want: `{"a":{"k":"v"},"b":{"k":"v"}}`},
	{Raw: []byte("a: 1\r\nb: \"crlf\"\r\n"), Want: `{"a":1,"b":"crlf"}`},
	{Raw: []byte("s: |\n  line1\n  line2\n"), Want: `{"s":"line1\nline2\n"}`},
	{Raw: []byte("a: 1\n\n\n"), Want: `{"a":1}`},
	{Raw: []byte("a: 1"), Want: `{"a":1}`},
	{Raw: []byte("{\"json\": true, \"n\": [1, \"ü\"]}"), Want: `{"json":true,"n":[1,"ü"]}`},
	{Raw: []byte("big: 12345678901234567890\nf: 1.0\ne: 1e3\n")},
	{Raw: []byte("a: 1\n...\n")},
	{Raw: []byte("t: 2001-12-14\nu: ünï # trailing comment\n")},
}

func c15GenValues(t *rapid.T, bom bool) *c15Values {
	var v c15Values
	switch rapid.IntRange(0, 9).Draw(t, "valK") {
	case 0, 1, 2:
		v = rapid.SampledFrom(c15CuratedValues).Draw(t, "valC")
		v.Raw = append([]byte(nil), v.Raw...)
	case 3:
		// a values file that starts with a UTF-8 byte order mark
		v = c15Values{Raw: []byte("a: 1\n"), Want: `{"a":1}`}
		if bom {
			v.Raw = []byte(c15BOM + "a: 1\n")
		}
	default:
		tree := c15GenTree(t, 2, "vt")
		e := &c15Emitter{pick: func(n int) int { return rapid.IntRange(0, n-1).Draw(t, "vy") }}
		w, _ := json.Marshal(tree)
		v = c15Values{Raw: []byte(e.doc(tree)), Want: string(w)}
	}
	v.Preview = c15F("", v.Raw).Preview
	return &v
}

var c15Schemas = []string{
	`{"type":"object"}`,
	"{\n  \"$schema\": \"https://json-schema.org/draft-07/schema#\",\n  \"title\": \"ünï ✓\",\n  \"properties\": {\"a\": {\"type\": \"integer\"}}\n}\n",
	`{}`, "  {\n}\n", `true`, `{"required":["a"],"properties":{"a":{"type":"string","pattern":"^\\d+$"}}}`, "{\"type\":\"object\"}\r\n",
}

var c15Times = []string{"2020-01-02T03:04:05Z", "2020-01-02T03:04:05.123456789+01:00", "1999-12-31T23:59:59.5-11:30", "0001-01-01T00:00:00Z", "2038-01-19T03:14:08.000000001Z", "2021-06-01T12:00:00+14:00", "2024-02-29T00:00:00.1Z"}

func c15GenLock(t *rapid.T, api string) *c15Lock {
	l := &c15Lock{File: "Chart.lock"}
	// v1 charts keep their lock in requirements.lock; a v2 chart may still carry the deprecated file name
	if api == chart.APIVersionV1 || rapid.IntRange(0, 11).Draw(t, "lockOld") == 0 {
		l.File = "requirements.lock"
	}
	l.Generated = rapid.SampledFrom(c15Times).Draw(t, "lockT")
	l.Digest = rapid.SampledFrom([]string{"sha256:3c5e2f9a", "", "sha256:ünï", "plain text"}).Draw(t, "lockD")
	l.Deps = c15GenDeps(t, "lockdep", 2)
	m := map[string]interface{}{"generated": l.Generated, "digest": l.Digest}
	if l.Deps != nil || rapid.Bool().Draw(t, "lockEmptyDeps") {
		deps := []interface{}{}
		for _, d := range l.Deps {
			deps = append(deps, c15Generic(d))
		}
		m["dependencies"] = deps
	}
	e := &c15Emitter{pick: func(n int) int {
		// the timestamp must stay a string: never plain
		return 1 + rapid.IntRange(0, 1).Draw(t, "ly")
	}}
	l.Text = []byte(e.doc(m))
	l.Preview = c15F("", l.Text).Preview
	return l
}

var (
	c15DirPool  = []string{"templates", "templates", "templates", "files", "crds", "docs", "templates/sub", "files/dir/deep", ".hidden", "templates/.hid", "ünï dir", "a/b/c", "UPPER", "conf.d", "templates.d", "chartsx", "templates/charts", "files/templates"}
	c15BasePool = []string{"x.yaml", "y.tpl", "_helpers.tpl", "NOTES.txt", ".dot", ".dot.yaml", "ü.bin", "sp ace.txt", "UPPER", "a.b.c", "-dash", "名前.txt", "emoji😀", "tab\tname",
		"README.md", "LICENSE", "Chart.yaml", "values.yaml", ".helmignore.bak", "data.tgz", "x.prov", "trail.", "~tilde", "#hash", "a'b\"c", "new\nline", "$x", "%41", "*star?", "[br]", ".x", "templates.txt", "Chart.lock.bak", "values.yaml.orig", "..data", "...", "charts.txt"}
)

var c15Reserved0 = map[string]bool{"Chart.yaml": true, "Chart.lock": true, "values.yaml": true, "values.schema.json": true, "requirements.yaml": true, "requirements.lock": true, ".helmignore": true, "charts": true}

func c15GenPath(t *rapid.T) string {
	var dir string
	switch rapid.IntRange(0, 9).Draw(t, "dirK") {
	case 0:
		dir = ""
	case 1:
		// long path: three components of 120 bytes
		dir = strings.Repeat("d", 120) + "/" + strings.Repeat("é", 60)
	default:
		dir = rapid.SampledFrom(c15DirPool).Draw(t, "dir")
	}
	var base string
	switch rapid.IntRange(0, 9).Draw(t, "baseK") {
	case 0:
		base = rapid.StringOfN(rapid.RuneFrom([]rune("abXY09._- üé名😀")), 1, 12, -1).Draw(t, "baseR")
		if strings.Trim(base, ". ") == "" {
			base = "r" + base
		}
	case 1:
		base = strings.Repeat("n", rapid.IntRange(101, 200).Draw(t, "baseL")) + ".txt"
	default:
		base = rapid.SampledFrom(c15BasePool).Draw(t, "base")
	}
	if dir == "" {
		if c15Reserved0[base] {
			base = "top-" + base
		}
		return base
	}
	return dir + "/" + base
}

func c15GenContent(t *rapid.T, bom bool) ([]byte, string) {
	b, class := c15GenContent0(t)
	if class == "bom" && !bom {
		return b[len(c15BOM):], "text"
	}
	return b, class
}

func c15GenContent0(t *rapid.T) ([]byte, string) {
	switch rapid.IntRange(0, 19).Draw(t, "cK") {
	case 0:
		return []byte{}, "empty"
	case 1:
		return []byte("line1\r\nline2\r\n"), "text"
	case 2:
		b := make([]byte, 256)
		for i := range b {
			b[i] = byte(i)
		}
		return b, "binary"
	case 3:
		return []byte(c15BOM + "bom: first\n"), "bom"
	case 4:
		switch rapid.IntRange(0, 3).Draw(t, "bomK") {
		case 0:
			return []byte(c15BOM), "bom"
		case 1:
			return []byte(c15BOM + c15BOM + "twice"), "bom"
		case 2:
			// the three bytes in front of content that is not text at all
			return []byte(c15BOM + "\xff\xfe\x00binary\x80\x81"), "bom"
		}
		return []byte(c15BOM + "{{ .Values.x }}"), "bom"
	case 5:
		if rapid.IntRange(0, 2).Draw(t, "bigK") != 0 {
			return []byte("not so big\n"), "text"
		}
		n := rapid.IntRange(60000, 100000).Draw(t, "bigN")
		b := make([]byte, n)
		for i := range b {
			b[i] = byte(i*7 + i/251)
		}
		return b, "large"
	case 6:
		return []byte("\x1f\x8b\x08\x00gzip-looking"), "binary"
	case 7:
		return []byte("trailing nul\x00\x00"), "binary"
	case 8, 9:
		b := rapid.SliceOfN(rapid.Byte(), 0, 48).Draw(t, "cB")
		if b == nil {
			b = []byte{}
		}
		if strings.HasPrefix(string(b), c15BOM) {
			return b, "bom"
		}
		return b, "binary"
	case 10:
		return []byte("\xbb\xbf not a bom \xef\xbb\xbf inside"), "binary"
	case 11:
		return []byte("{{- define \"x\" -}}\n{{ .Values.a | quote }}\n{{- end -}}\n"), "text"
	default:
		return []byte(rapid.SampledFrom([]string{"hello\n", "a: b\n", "{{ .Values.x }}", "apiVersion: v1\nkind: ConfigMap\nmetadata:\n  name: ü\n", "no newline", "\n", " "}).Draw(t, "cT")), "text"
	}
}

type c15Info struct {
	labels map[string]bool
	// bom: whether this case may contain files that start with a UTF-8 byte order mark (one case in eight)
	bom bool
}

func (i *c15Info) add(l string) { i.labels[l] = true }

// c15GenFiles draws up to max files with distinct, mutually compatible names (no name is a directory of another).
func c15GenFiles(t *rapid.T, max int, lvl int, info *c15Info) []c15File {
	n := rapid.IntRange(0, max).Draw(t, "nfiles")
	var out []c15File
	taken := map[string]bool{} // file names and all their directory prefixes
	isFile := map[string]bool{}
	for i := 0; i < n; i++ {
		p := c15GenPath(t)
		if p == "charts" || strings.HasPrefix(p, "charts/") {
			continue
		}
		if lvl > 0 && strings.HasSuffix(p, ".prov") {
			// LoadFiles hands every *.prov below charts/ to the parent chart, also those deep inside a directory
			// subchart; the round trip is stable, only the attribution differs from the intent: not generated
			continue
		}
		if taken[p] { // equals an existing file or directory
			continue
		}
		parts := strings.Split(p, "/")
		clash := false
		for j := 1; j < len(parts); j++ {
			if isFile[strings.Join(parts[:j], "/")] {
				clash = true
			}
		}
		if clash {
			continue
		}
		for j := 1; j <= len(parts); j++ {
			taken[strings.Join(parts[:j], "/")] = true
		}
		isFile[p] = true
		data, class := c15GenContent(t, info.bom)
		out = append(out, c15F(p, data))
		info.add("content:" + class)
		base := parts[len(parts)-1]
		if strings.HasPrefix(p, "templates/") && strings.HasPrefix(parts[1], ".") {
			info.add("dot-entry-under-templates")
		}
		if len(base) > 100 || len(p) > 255 {
			info.add("long-name")
		}
		for _, r := range p {
			if r > 0x7f {
				info.add("non-ascii-name")
				break
			}
		}
	}
	if lvl == 0 && rapid.IntRange(0, 14).Draw(t, "prov") == 0 {
		out = append(out, c15F("charts/dep-1.0.0.tgz.prov", []byte("-----BEGIN PGP SIGNED MESSAGE-----\n")))
		info.add("prov-file-in-charts")
	}
	return out
}

func c15GenSpec(t *rapid.T, lvl int, name string, info *c15Info) *c15Spec {
	s := &c15Spec{Meta: c15GenMeta(t, name)}
	api := s.api()
	info.add("api:" + map[bool]string{true: "unset", false: s.Meta.APIVersion}[s.Meta.APIVersion == ""])
	// where the dependency list is written
	depsInReq := false
	if len(s.Meta.Dependencies) > 0 {
		info.add("dependencies-declared")
		if api == chart.APIVersionV1 {
			depsInReq = true // v1 charts declare dependencies in requirements.yaml
		} else if rapid.IntRange(0, 9).Draw(t, "v2req") == 0 {
			depsInReq = true // deprecated but accepted for v2
			info.add("v2-with-requirements.yaml")
		}
	}
	e := &c15Emitter{pick: func(n int) int { return rapid.IntRange(0, n-1).Draw(t, "cy") }}
	m := c15Generic(&s.Meta)
	if depsInReq {
		s.ReqYAML = []byte(e.doc(map[string]interface{}{"dependencies": m["dependencies"]}))
		delete(m, "dependencies")
	}
	if rapid.IntRange(0, 9).Draw(t, "extraKey") == 0 {
		m["engine"] = "gotpl" // a key Chart.yaml no longer knows
	}
	s.ChartYAML = []byte(e.doc(m))
	s.ChartPreview = c15F("", s.ChartYAML).Preview
	s.ChartYAMLLast = rapid.IntRange(0, 3).Draw(t, "cyLast") == 0
	if c15ExpectMeta(&s.Meta) != c15MetaText(&s.Meta) {
		info.add("metadata-needs-sanitizing")
	}
	if rapid.IntRange(0, 3).Draw(t, "hasVals") != 0 {
		s.Values = c15GenValues(t, info.bom)
		if strings.HasPrefix(string(s.Values.Raw), c15BOM) {
			info.add("content:bom")
		}
	}
	if rapid.IntRange(0, 2).Draw(t, "hasSchema") == 0 {
		s.Schema = []byte(rapid.SampledFrom(c15Schemas).Draw(t, "schema"))
	}
	if rapid.IntRange(0, 2).Draw(t, "hasLock") == 0 {
		s.Lock = c15GenLock(t, api)
		info.add("lock:" + api + ":" + s.Lock.File)
	}
	maxFiles := 6
	if vt.Thorough() {
		maxFiles = 10
	}
	s.Files = c15GenFiles(t, maxFiles, lvl, info)
	maxSubs := 0
	switch {
	case lvl == 0:
		maxSubs = 2
	case lvl == 1:
		maxSubs = 1
	}
	if maxSubs > 0 && rapid.IntRange(0, 1+lvl*2).Draw(t, "hasSubs") == 0 {
		pool := []string{"child", "sub-2", "Sub_3", "ü-sub", "sp ace"}
		// chart names starting with "_" or "." are not generated for subcharts: the user documentation says a
		// dependency's name cannot start with them (the loader skips such entries of charts/)
		names := rapid.SliceOfNDistinct(rapid.SampledFrom(pool), 1, maxSubs, func(s string) string { return s }).Draw(t, "subNames")
		for i, n := range names {
			sub := c15Sub{Spec: c15GenSpec(t, lvl+1, n, info), Tgz: rapid.Bool().Draw(t, "subTgz")}
			// the directory (or archive file) name is independent of the chart name
			sub.Dir = rapid.SampledFrom([]string{"", "", "dir", "other-0.1.0"}).Draw(t, "subDir")
			if sub.Dir == "" {
				sub.Dir = strings.TrimLeft(n, "_.")
			} else {
				sub.Dir = fmt.Sprintf("%s%d", sub.Dir, i)
			}
			s.Subs = append(s.Subs, sub)
			info.add(fmt.Sprintf("subchart:level%d:%s", lvl+1, map[bool]string{true: "tgz", false: "dir"}[sub.Tgz]))
			if strings.HasPrefix(n, "_") || strings.HasPrefix(n, ".") {
				info.add("subchart-name-starts-with-underscore-or-dot")
			}
		}
	}
	return s
}

// ---------------------------------------------------------------------------------------------------------------
// part B: a chart directory with a .helmignore

type c15CaseB struct {
	Name          string    `json:"name"`
	Files         []c15File `json:"files"` // everything on disk below the chart root, .helmignore included
	Ignore        string    `json:"ignore"`
	PackedFile    string    `json:"packedFile,omitempty"` // charts/<x>.tgz, already part of Files
	PackedName    string    `json:"packedName,omitempty"`
	PackedEntries []string  `json:"packedEntries,omitempty"`
	// SecondOfTwo: the action object has already packaged another chart (as `helm package a b` does) when it gets to
	// this one
	SecondOfTwo bool `json:"secondOfTwo,omitempty"`
}

var (
	c15BDirs  = []string{"", "", "templates", "templates", "files", "docs", "mydir", "a", "sub", ".git", "templates/sub", "a/mydir", "docs/foo", "files/mydir/deep"}
	c15BBases = []string{"foo.txt", "ab.txt", "ac.txt", "ad.txt", "ae.txt", "b.yaml", "x.tpl", "README.md", ".dot", "notes.md", "data.bin", "Makefile", "foo", "bar", "a b.txt", "ü.txt", ".DS_Store", "x.tgz", "ab", "Chart.yaml.orig"}
	c15BRules = []string{
		"foo.txt", "*.txt", "mydir/", "/*.txt", "/foo.txt", "a[b-d].txt", "a?.txt", ".*", ".git", ".git/", "docs/", "/docs/", "templates/*.tpl", "templates/sub/", "sub/*.yaml",
		"*.md", "/README.md", "foo", "foo/", "/a/", "a/", "*.tgz", "charts/child/foo.txt", "charts/child/", "charts/*/notes.md", "/charts/", "ü.*", "a b.txt", "*.y?ml", "[a-c]*", "/[A-Z]*",
		"data.*", "Makefile", "*", "/*", "?", "files/*/deep", "/files/mydir", "templates/.?*", "values.yaml", "Chart.lock", "*.json", "Chart.*", ".helmignore", "/templates", "x.t[a-z]l", "a/mydir/",
		"docs/foo", "docs/foo/", "*/foo.txt", "*/*/foo.txt", "sub", "/sub/b.yaml", "[.]dot", "*.t?t", "a[b-d].*", "?b.txt",
	}
)

func c15GenCaseB(t *rapid.T) *c15CaseB {
	c := &c15CaseB{Name: rapid.SampledFrom([]string{"demo", "my-chart", "ünï"}).Draw(t, "name")}
	c.SecondOfTwo = rapid.IntRange(0, 2).Draw(t, "secondOfTwo") == 0
	api := rapid.SampledFrom([]string{"v2", "v2", "v1"}).Draw(t, "api")
	add := func(n, d string) { c.Files = append(c.Files, c15F(n, []byte(d))) }
	add("Chart.yaml", fmt.Sprintf("apiVersion: %s\nname: %s\nversion: %s\n", api, c.Name, rapid.SampledFrom([]string{"0.1.0", "1.2.3-rc.1"}).Draw(t, "ver")))
	if rapid.Bool().Draw(t, "vals") {
		add("values.yaml", "a: 1\n")
	}
	if rapid.IntRange(0, 3).Draw(t, "schema") == 0 {
		add("values.schema.json", `{"type":"object"}`)
	}
	if api == "v2" && rapid.IntRange(0, 2).Draw(t, "lock") == 0 {
		add("Chart.lock", "dependencies: []\ndigest: sha256:abc\ngenerated: \"2020-01-02T03:04:05Z\"\n")
	}
	taken, isFile := map[string]bool{}, map[string]bool{}
	n := rapid.IntRange(1, 8).Draw(t, "nfiles")
	for i := 0; i < n; i++ {
		p := rapid.SampledFrom(c15BBases).Draw(t, "base")
		if d := rapid.SampledFrom(c15BDirs).Draw(t, "dir"); d != "" {
			p = d + "/" + p
		}
		if taken[p] {
			continue
		}
		parts := strings.Split(p, "/")
		clash := false
		for j := 1; j < len(parts); j++ {
			if isFile[strings.Join(parts[:j], "/")] {
				clash = true
			}
		}
		if clash {
			continue
		}
		for j := 1; j <= len(parts); j++ {
			taken[strings.Join(parts[:j], "/")] = true
		}
		isFile[p] = true
		add(p, rapid.SampledFrom([]string{"content of " + p + "\n", "", "\x00\x01\xfe\xff"}).Draw(t, "data"))
	}
	if rapid.IntRange(0, 2).Draw(t, "child") == 0 {
		add("charts/child/Chart.yaml", "apiVersion: v2\nname: child\nversion: 0.2.0\n")
		for _, f := range rapid.SliceOfNDistinct(rapid.SampledFrom([]string{"values.yaml", "templates/x.tpl", "templates/.dot", "foo.txt", "notes.md", "mydir/ab.txt", ".helmignore"}), 0, 4, func(s string) string { return s }).Draw(t, "childFiles") {
			d := "child file " + f + "\n"
			switch f {
			case "values.yaml":
				d = "c: 2\n"
			case ".helmignore":
				d = "*\n" // rules of a subchart's own ignore file are not evaluated when the parent is loaded
			}
			add("charts/child/"+f, d)
		}
	}
	if rapid.IntRange(0, 3).Draw(t, "packed") == 0 {
		c.PackedName = "packed"
		c.PackedFile = "charts/packed-0.3.0.tgz"
		inner := []c15File{{Name: "Chart.yaml", Data: []byte("apiVersion: v2\nname: packed\nversion: 0.3.0\n")}, {Name: "templates/foo.txt", Data: []byte("inside the archive\n")}, {Name: "README.md", Data: []byte("packed readme\n")}}
		for _, f := range inner {
			c.PackedEntries = append(c.PackedEntries, f.Name)
		}
		c.Files = append(c.Files, c15File{Name: c.PackedFile, Data: c15Tgz("packed", inner), Preview: "<tgz of chart 'packed'>"})
	}
	// the rule file
	var lines []string
	nr := rapid.IntRange(0, 6).Draw(t, "nrules")
	for i := 0; i < nr; i++ {
		var line string
		switch rapid.IntRange(0, 19).Draw(t, "ruleK") {
		case 0:
			line = "# a comment: " + rapid.SampledFrom(c15BRules).Draw(t, "commented")
		case 1:
			line = ""
		case 2:
			line = "!" + rapid.SampledFrom(c15BRules).Draw(t, "negated")
		case 3:
			line = "  " + rapid.SampledFrom(c15BRules).Draw(t, "padded") + " \t"
		case 4, 5, 6:
			// derived from a file that exists: its base name, its path, its top directory, a glob over its extension
			f := rapid.SampledFrom(c.Files).Draw(t, "ruleFile").Name
			parts := strings.Split(f, "/")
			switch rapid.IntRange(0, 7).Draw(t, "derive") {
			case 0:
				line = parts[len(parts)-1]
			case 1, 5:
				line = "/" + f
			case 2:
				line = parts[0] + "/"
			case 3, 6:
				line = f
			case 7:
				// everything in the file's directory
				if len(parts) > 1 {
					line = strings.Join(parts[:len(parts)-1], "/") + "/*"
				} else {
					line = "/" + f
				}
			default:
				if i := strings.LastIndex(f, "."); i > 0 {
					line = "*" + f[i:]
				} else {
					line = parts[len(parts)-1]
				}
			}
		default:
			line = rapid.SampledFrom(c15BRules).Draw(t, "rule")
		}
		lines = append(lines, line)
	}
	if nr > 0 || rapid.Bool().Draw(t, "emptyIgnoreFile") {
		sep := rapid.SampledFrom([]string{"\n", "\n", "\r\n"}).Draw(t, "eol")
		c.Ignore = strings.Join(lines, sep)
		if rapid.Bool().Draw(t, "finalEOL") {
			c.Ignore += sep
		}
		add(".helmignore", c.Ignore)
	}
	return c
}

// ---------------------------------------------------------------------------------------------------------------
// part C: invalid names and versions

type c15CaseC struct {
	Route       string `json:"route"` // save | save-dir | package | package-version-flag | save-subchart
	Name        string `json:"name"`
	Version     string `json:"version"`
	FlagVersion string `json:"flagVersion,omitempty"`
}

var (
	c15BadNames     = []string{".", "..", "", "a/b", "/abs", "a/", "../up", "dir/../x", "./x", "a//b", "/", "x/.", "ü/é"}
	c15GoodNames    = []string{"demo", "a.b", "ünï", "x_y-1", "UPPER", "sp ace", "v1.0.0", "a-1.0.0", "%41"}
	c15BadVersions  = []string{"", "abc", "1.2.3.4", "1..2", "1.0.0-", "1.0.0+", " 1.0.0", "1.0.0 ", "latest", "1.0.0-β", "1.0.0-a..b", "-1.0.0", "1.0.0-a_b", "v", "1.x", "1.0.0+a+b", "1,0,0", "1.0.0\n", "٣.٠.٠", "1.0.0-rc 1", "V1.0.0", "=1.0.0", "^1.0.0", "1.0.0/x", "..", "1.0.0-+b"}
	c15GoodVersions = []string{"1.0.0", "0.0.0", "10.20.30", "1.0.0-alpha", "1.0.0-alpha.1", "1.0.0-0.3.7", "1.0.0-x.7.z.92", "1.0.0+20130313144700", "1.0.0-beta+exp.sha.5114f85", "1.0.0--", "2.0.0-rc.1+build.123", "999999.999999.999999"}
	c15OddVersions  = []string{"v1.0.0", "1", "1.2", "v1", "01.0.0", "1.0.0-01", "1.02.3"}
)

func c15GenVersionC(t *rapid.T, wantBad bool) string {
	if wantBad {
		if rapid.IntRange(0, 3).Draw(t, "badVerK") == 0 {
			// mutate a valid version by inserting one character that the version alphabet does not allow there
			v := rapid.SampledFrom(c15GoodVersions).Draw(t, "base")
			pos := rapid.IntRange(0, len(v)).Draw(t, "pos")
			ch := rapid.SampledFrom([]string{" ", "_", "/", "..", "\t", "é", "~", ":", "*", "\\"}).Draw(t, "ch")
			return v[:pos] + ch + v[pos:]
		}
		return rapid.SampledFrom(c15BadVersions).Draw(t, "badVer")
	}
	if rapid.IntRange(0, 5).Draw(t, "oddVer") == 0 {
		return rapid.SampledFrom(c15OddVersions).Draw(t, "odd")
	}
	if rapid.IntRange(0, 2).Draw(t, "genVer") == 0 {
		v := fmt.Sprintf("%d.%d.%d", rapid.IntRange(0, 1000).Draw(t, "ma"), rapid.IntRange(0, 99).Draw(t, "mi"), rapid.IntRange(0, 99).Draw(t, "pa"))
		if rapid.Bool().Draw(t, "pre") {
			v += "-" + rapid.SampledFrom([]string{"rc.1", "alpha", "0", "x-y", "SNAPSHOT"}).Draw(t, "preV")
		}
		if rapid.Bool().Draw(t, "build") {
			v += "+" + rapid.SampledFrom([]string{"b5", "001", "sha.abc-def"}).Draw(t, "buildV")
		}
		return v
	}
	return rapid.SampledFrom(c15GoodVersions).Draw(t, "goodVer")
}

func c15GenCaseC(t *rapid.T) *c15CaseC {
	c := &c15CaseC{Route: rapid.SampledFrom([]string{"save", "save", "save-dir", "package", "package-version-flag", "save-subchart"}).Draw(t, "route")}
	kind := rapid.IntRange(0, 5).Draw(t, "kind") // 0: valid control, 1-2: bad name, 3-5: bad version
	c.Name = rapid.SampledFrom(c15GoodNames).Draw(t, "name")
	c.Version = c15GenVersionC(t, false)
	switch {
	case kind == 0:
	case kind <= 2 && c.Route != "package-version-flag":
		c.Name = rapid.SampledFrom(c15BadNames).Draw(t, "badName")
	default:
		if c.Route == "package-version-flag" {
			c.FlagVersion = c15GenVersionC(t, true)
		} else {
			c.Version = c15GenVersionC(t, true)
		}
	}
	if c.Route == "package-version-flag" && c.FlagVersion == "" {
		c.FlagVersion = c15GenVersionC(t, false)
	}
	return c
}
