package props

// C18 — generators (all randomness through rapid draws).

import (
	"fmt"
	"sort"
	"strings"

	"github.com/Masterminds/semver/v3"
	"pgregory.net/rapid"
)

var (
	c18Nums     = []int{0, 1, 2, 3, 10}
	c18Pres     = []string{"alpha", "alpha.1", "alpha.2", "beta", "beta.2", "beta.11", "rc.1", "0", "1", "x", "alpha-1", "0.3.7", "a.b", "ALPHA"}
	c18Builds   = []string{"b1", "b2", "001", "exp.sha.5114f85", "x", "git-5f2c1ab", "build-7", "-", "1-2-3"}
	c18Loose    = []string{"1", "2", "1.2", "v1", "v1.2", "01.2.3", "1.02.3", "1.2-beta", "1-rc.1", "1.2+b1", "10", "0.1"}
	c18Invalid  = []string{"", "abc", "1.2.3.4", "1..2", "-1.0.0", "1.2.3-", "1.2.3+", "V1.2.3", " 1.2.3", "1.2.3 ", "1.2.3-01", "1.2.3-α", "latest", "1,2,3", "1.2.3-a..b", ">=1.0.0", "1.x", "*", "1.2.3+b1+b2", "1.2.3-rc_1", "v", "1.2.3\n"}
	c18Ops      = []string{"", "=", "!=", ">", "<", ">=", "<=", "~", "^", "=>", "=<", "~>"}
	c18BadQuery = []string{"nope", ">>1.0.0", "1.2.3.4", ">= ", "||", "1.0.0 ||", "~~1", "^", "1.2.3-", "<1.0.0 >", "latest", " ", "1.0.0 - ", "=="}
)

// c18Uniform draws an (almost) uniformly distributed integer in [0,n). rapid's own integer and SampledFrom draws are
// deliberately biased towards small values (value 0 of a 0..99 range comes up in one draw of ten), which would make
// the rare classes of this generator common and the common ones rare. Shrinks towards 0; the class switches below
// therefore count downwards (N-1-draw) so that the plain alternative is the one a failing case shrinks to.
func c18Uniform(t *rapid.T, label string, n int) int {
	if n <= 1 {
		return 0
	}
	k := 3
	for m := n - 1; m > 0; m >>= 1 {
		k++
	}
	bits := rapid.SliceOfN(rapid.Bool(), k, k).Draw(t, label)
	v := 0
	for _, b := range bits {
		v <<= 1
		if b {
			v |= 1
		}
	}
	return v % n
}

func c18Pick[E any](t *rapid.T, label string, from []E) E {
	return from[c18Uniform(t, label, len(from))]
}

func c18GenCore(t *rapid.T, label string) string {
	return fmt.Sprintf("%d.%d.%d", c18Pick(t, label+"Maj", c18Nums), c18Pick(t, label+"Min", c18Nums), c18Pick(t, label+"Pat", c18Nums))
}

// c18GenStrict draws MAJOR.MINOR.PATCH[-pre][+build].
func c18GenStrict(t *rapid.T, label string) string {
	s := c18GenCore(t, label)
	switch 9 - c18Uniform(t, label+"Shape", 10) {
	case 0, 1:
		s += "-" + c18Pick(t, label+"Pre", c18Pres)
	case 2:
		s += "+" + c18Pick(t, label+"Build", c18Builds)
	case 3:
		s += "-" + c18Pick(t, label+"Pre", c18Pres) + "+" + c18Pick(t, label+"Build", c18Builds)
	}
	return s
}

// c18Vary derives a neighbour of an existing version string: same core with other pre-release / build metadata,
// the identical string, a toggled leading v, or a bumped patch.
func c18Vary(t *rapid.T, label, s string) string {
	v, err := semver.NewVersion(s)
	if err != nil {
		return s
	}
	core := fmt.Sprintf("%d.%d.%d", v.Major(), v.Minor(), v.Patch())
	switch 6 - c18Uniform(t, label+"Vary", 7) {
	case 0:
		return s // duplicate
	case 1:
		return core + "+" + c18Pick(t, label+"Build", c18Builds)
	case 2:
		return core + "-" + c18Pick(t, label+"Pre", c18Pres)
	case 3:
		if v.Prerelease() != "" {
			return core + "-" + v.Prerelease() + "+" + c18Pick(t, label+"Build", c18Builds)
		}
		return core
	case 4:
		if strings.HasPrefix(s, "v") {
			return strings.TrimPrefix(s, "v")
		}
		return "v" + s
	case 5:
		return fmt.Sprintf("%d.%d.%d", v.Major(), v.Minor(), v.Patch()+1)
	}
	return core
}

// c18GenVersion draws a version string for an index entry; prev are the strings already used in the same list.
func c18GenVersion(t *rapid.T, label string, prev []string) string {
	k := 19 - c18Uniform(t, label+"Class", 20)
	switch {
	case k < 5 && len(prev) > 0:
		return c18Vary(t, label, c18Pick(t, label+"Prev", prev))
	case k == 5 || k == 6:
		return c18Pick(t, label+"Invalid", c18Invalid)
	case k == 7:
		return c18Pick(t, label+"Loose", c18Loose)
	case k == 8:
		return "v" + c18GenStrict(t, label)
	}
	return c18GenStrict(t, label)
}

func c18Str(s string) *string { return &s }

// c18GenEntry draws one list item. nullPct is the percentage of null items.
func c18GenEntry(t *rapid.T, label, key string, prev []string, nullPct int) c18Entry {
	r := 99 - c18Uniform(t, label+"Kind", 100)
	if r < nullPct {
		return c18Entry{Kind: "null"}
	}
	e := c18Entry{Kind: "entry", Name: c18Str(key), URLs: "relative"}
	switch u := 19 - c18Uniform(t, label+"URLs", 20); {
	case u == 0:
		e.URLs = "omitted"
	case u == 1:
		e.URLs = "null"
	case u == 2:
		e.URLs = "empty"
	case u <= 5:
		e.URLs = "absolute"
	}
	e.APIVersion = c18Pick(t, label+"API", []string{"", "", "v1", "v2"})
	switch m := 39 - c18Uniform(t, label+"Malform", 40); m {
	case 0:
		return c18Entry{Kind: "empty"}
	case 1: // no metadata at all
		e.Name, e.APIVersion = nil, ""
		return e
	case 2:
		e.Name = nil
	case 3:
		e.Name = c18Str("")
	case 4:
		e.Name = c18Str("sub/" + key)
	case 5:
		e.Version = nil
		return e
	case 6:
		e.Type = "plugin"
	case 7:
		e.Type = c18Pick(t, label+"Type", []string{"application", "library"})
	case 8:
		e.Name = c18Str("other") // a name that differs from the map key is still a valid entry
	}
	e.Version = c18Str(c18GenVersion(t, label, prev))
	return e
}

var c18Keys = []string{"foo", "bar", "baz"}

// c18GenIndex draws an index with 1..maxCharts charts of 0..maxEntries items each.
func c18GenIndex(t *rapid.T, maxCharts, maxEntries, nullPct int) *c18Index {
	ix := &c18Index{Format: c18Pick(t, "format", []string{"yaml", "json"})}
	nc := rapid.IntRange(1, maxCharts).Draw(t, "ncharts")
	for ci := 0; ci < nc; ci++ {
		ch := c18Chart{Key: c18Keys[ci]}
		if 59-c18Uniform(t, "listNull", 60) == 0 {
			ch.ListNull = true
			ix.Charts = append(ix.Charts, ch)
			continue
		}
		// the null percentage is per case: most cases have no null item at all, a few have several
		np := 0
		if nullPct > 0 && 99-c18Uniform(t, "nullCase", 100) < nullPct {
			np = 25
		}
		n := c18Uniform(t, "nentries", maxEntries+1)
		var prev []string
		ch.Entries = []c18Entry{}
		for ei := 0; ei < n; ei++ {
			e := c18GenEntry(t, fmt.Sprintf("c%de%d", ci, ei), ch.Key, prev, np)
			if e.Version != nil {
				prev = append(prev, *e.Version)
			}
			ch.Entries = append(ch.Entries, e)
		}
		ix.Charts = append(ix.Charts, ch)
	}
	return ix
}

// c18GenCVer draws the version part of a comparator: full, partial, wildcard, or with a pre-release tag; near
// holds version strings of the data so that comparator bounds fall on and between real versions.
func c18GenCVer(t *rapid.T, label string, near []string) string {
	base := ""
	if len(near) > 0 && c18Uniform(t, label+"Near", 3) > 0 {
		if v, err := semver.NewVersion(c18Pick(t, label+"NearV", near)); err == nil {
			base = fmt.Sprintf("%d.%d.%d", v.Major(), v.Minor(), v.Patch())
			if v.Prerelease() != "" && c18Uniform(t, label+"KeepPre", 2) == 1 {
				base += "-" + v.Prerelease()
			}
		}
	}
	if base == "" {
		base = c18GenCore(t, label)
	}
	parts := strings.SplitN(base, "-", 2)
	nums := strings.Split(parts[0], ".")
	switch 11 - c18Uniform(t, label+"CShape", 12) {
	case 0:
		return nums[0]
	case 1:
		return nums[0] + "." + nums[1]
	case 2:
		return nums[0] + ".x"
	case 3:
		return nums[0] + "." + nums[1] + "." + c18Pick(t, label+"Wild", []string{"x", "X", "*"})
	case 4:
		return "*"
	case 5:
		return parts[0] + "-0"
	case 6:
		return parts[0] + "-" + c18Pick(t, label+"CPre", c18Pres)
	case 7:
		return "v" + base
	case 8:
		return parts[0] + "+" + c18Pick(t, label+"CBuild", c18Builds)
	}
	return base
}

func c18GenComparator(t *rapid.T, label string, near []string) string {
	op := c18Pick(t, label+"Op", c18Ops)
	sp := c18Pick(t, label+"Sp", []string{"", "", " "})
	return op + sp + c18GenCVer(t, label, near)
}

// c18GenConstraint draws a constraint expression: AND groups joined by "||", or a hyphen range.
func c18GenConstraint(t *rapid.T, label string, near []string) string {
	if 11-c18Uniform(t, label+"Hyphen", 12) == 0 {
		return c18GenCVer(t, label+"Lo", near) + " - " + c18GenCVer(t, label+"Hi", near)
	}
	nor := c18Pick(t, label+"NOr", []int{1, 1, 1, 2})
	var ors []string
	for i := 0; i < nor; i++ {
		nand := c18Pick(t, label+"NAnd", []int{1, 1, 2})
		var ands []string
		for j := 0; j < nand; j++ {
			ands = append(ands, c18GenComparator(t, fmt.Sprintf("%so%da%d", label, i, j), near))
		}
		ors = append(ors, strings.Join(ands, c18Pick(t, label+"AndSep", []string{" ", ", ", ","})))
	}
	return strings.Join(ors, c18Pick(t, label+"OrSep", []string{" || ", "||"}))
}

// c18GenQueryString draws the version argument of a query. all = every version string written in the data
// (valid or not), so that identical-string queries and queries for dropped entries are frequent.
func c18GenQueryString(t *rapid.T, label string, all []string) string {
	k := 19 - c18Uniform(t, label+"QClass", 20)
	switch {
	case k < 3:
		return ""
	case k < 7 && len(all) > 0:
		return c18Pick(t, label+"QExact", all)
	case k < 9 && len(all) > 0:
		return c18Vary(t, label+"QNear", c18Pick(t, label+"QNearOf", all))
	case k == 9:
		return c18Pick(t, label+"QBad", c18BadQuery)
	}
	return c18GenConstraint(t, label, all)
}

// c18GenSteered draws up to three candidate queries and keeps the first one that useful(q) accepts; in one case of
// six the first candidate is kept whatever it is. Used to keep the share of satisfiable queries high: a query nothing
// satisfies only exercises the error path.
func c18GenSteered(t *rapid.T, label string, all []string, useful func(q string) bool) string {
	keepFirst := c18Uniform(t, label+"KeepFirst", 6) == 5
	q := c18GenQueryString(t, label, all)
	if keepFirst || useful(q) {
		return q
	}
	for i := 1; i < 3; i++ {
		q2 := c18GenQueryString(t, fmt.Sprintf("%sTry%d", label, i), all)
		if useful(q2) {
			return q2
		}
	}
	return q
}

func c18AllVersionStrings(ix *c18Index, key string) []string {
	var out []string
	for _, ch := range ix.Charts {
		if key != "" && ch.Key != key {
			continue
		}
		for _, e := range ch.Entries {
			if e.Version != nil {
				out = append(out, *e.Version)
			}
		}
	}
	return out
}

// c18GenTags draws a tag list the way registry.Client.Tags hands it over: strict semantic versions, newest first
// (order among equal precedence drawn), optionally with a few non-version tags at drawn positions.
func c18GenTags(t *rapid.T) []string {
	n := c18Uniform(t, "ntags", 9)
	var tags []string
	for i := 0; i < n; i++ {
		label := fmt.Sprintf("t%d", i)
		if len(tags) > 0 && 3-c18Uniform(t, label+"FromPrev", 4) == 0 {
			s := c18Vary(t, label, c18Pick(t, label+"Prev", tags))
			if _, err := semver.StrictNewVersion(s); err == nil {
				tags = append(tags, s)
				continue
			}
		}
		tags = append(tags, c18GenStrict(t, label))
	}
	// drawn permutation, then a stable sort by precedence: ties keep the drawn order
	perm := rapid.Permutation(tags).Draw(t, "tagOrder")
	sort.SliceStable(perm, func(i, j int) bool {
		a, _ := semver.NewVersion(perm[i])
		b, _ := semver.NewVersion(perm[j])
		return a.Compare(b) > 0
	})
	if 9-c18Uniform(t, "junkTags", 10) == 0 {
		nj := rapid.IntRange(1, 2).Draw(t, "njunk")
		for i := 0; i < nj; i++ {
			junk := c18Pick(t, "junk", []string{"latest", "stable", "nightly", "sha256-abc.sig"})
			pos := rapid.IntRange(0, len(perm)).Draw(t, "junkPos")
			perm = append(perm[:pos], append([]string{junk}, perm[pos:]...)...)
		}
	}
	return perm
}
