package props

// C14 — values that violate a chart's schema are never rendered or deployed.

import (
	"encoding/json"
	"fmt"
	"os"
	"path/filepath"
	"sort"
	"strings"
	"testing"
	"unicode/utf8"

	"pgregory.net/rapid"
	"sigs.k8s.io/yaml"

	"helm.sh/helm/v4/pkg/action"
	chart "helm.sh/helm/v4/pkg/chart/v2"
	"helm.sh/helm/v4/pkg/cli/values"
	"helm.sh/helm/v4/pkg/getter"
	"helm.sh/helm/v4/pkg/lint"
	"helm.sh/helm/v4/pkg/lint/support"

	"verif/internal/evid"
	"verif/internal/vt"
	"verif/internal/world"
)

// ------------------------------------------------------------------ reference schema evaluator (for the generated family)

// c14Valid reports whether value v satisfies schema s (family: type, required, enum, minimum, maximum, minLength,
// properties, additionalProperties, items).
func c14Valid(s map[string]interface{}, v interface{}) bool {
	if t, ok := s["type"].(string); ok {
		switch t {
		case "object":
			if _, ok := v.(map[string]interface{}); !ok {
				return false
			}
		case "array":
			if _, ok := v.([]interface{}); !ok {
				return false
			}
		case "string":
			if _, ok := v.(string); !ok {
				return false
			}
		case "boolean":
			if _, ok := v.(bool); !ok {
				return false
			}
		case "integer":
			f, ok := c14Num(v)
			if !ok || f != float64(int64(f)) {
				return false
			}
		case "number":
			if _, ok := c14Num(v); !ok {
				return false
			}
		}
	}
	if en, ok := s["enum"].([]interface{}); ok {
		found := false
		for _, e := range en {
			if canonJSON(e) == canonJSON(v) {
				found = true
			}
		}
		if !found {
			return false
		}
	}
	if f, ok := c14Num(v); ok {
		if m, ok := c14Num(s["minimum"]); ok && f < m {
			return false
		}
		if m, ok := c14Num(s["maximum"]); ok && f > m {
			return false
		}
	}
	if str, ok := v.(string); ok {
		if m, ok := c14Num(s["minLength"]); ok && float64(utf8.RuneCountInString(str)) < m {
			return false
		}
	}
	if obj, ok := v.(map[string]interface{}); ok {
		if req, ok := s["required"].([]interface{}); ok {
			for _, r := range req {
				if _, has := obj[r.(string)]; !has {
					return false
				}
			}
		}
		props, _ := s["properties"].(map[string]interface{})
		for k, pv := range obj {
			if ps, ok := props[k].(map[string]interface{}); ok {
				if !c14Valid(ps, pv) {
					return false
				}
			} else if ap, ok := s["additionalProperties"].(bool); ok && !ap {
				return false
			}
		}
	}
	if arr, ok := v.([]interface{}); ok {
		if is, ok := s["items"].(map[string]interface{}); ok {
			for _, e := range arr {
				if !c14Valid(is, e) {
					return false
				}
			}
		}
	}
	return true
}

func c14Num(v interface{}) (float64, bool) {
	switch x := v.(type) {
	case float64:
		return x, true
	case int64:
		return float64(x), true
	case int:
		return float64(x), true
	case json.Number:
		f, err := x.Float64()
		return f, err == nil
	}
	return 0, false
}

// ------------------------------------------------------------------ generators

var c14PropKeys = []string{"replicas", "name", "debug", "ports", "cfg"}

// c14GenSchema draws a schema of the family for one chart.
func c14GenSchema(t *rapid.T, label string) map[string]interface{} {
	props := map[string]interface{}{}
	if rapid.Bool().Draw(t, label+"pReplicas") {
		props["replicas"] = map[string]interface{}{"type": "integer", "minimum": float64(rapid.IntRange(0, 2).Draw(t, label+"min")), "maximum": float64(rapid.IntRange(3, 5).Draw(t, label+"max"))}
	}
	if rapid.Bool().Draw(t, label+"pName") {
		p := map[string]interface{}{"type": "string", "minLength": float64(rapid.IntRange(0, 3).Draw(t, label+"minLen"))}
		if rapid.Bool().Draw(t, label+"enum") {
			p = map[string]interface{}{"type": "string", "enum": []interface{}{"alpha", "beta"}}
		}
		props["name"] = p
	}
	if rapid.Bool().Draw(t, label+"pDebug") {
		props["debug"] = map[string]interface{}{"type": "boolean"}
	}
	if rapid.Bool().Draw(t, label+"pPorts") {
		props["ports"] = map[string]interface{}{"type": "array", "items": map[string]interface{}{"type": "integer", "minimum": float64(1)}}
	}
	if rapid.Bool().Draw(t, label+"pCfg") {
		cfg := map[string]interface{}{"type": "object", "properties": map[string]interface{}{"level": map[string]interface{}{"type": "number", "maximum": float64(9)}, "mode": map[string]interface{}{"type": "string"}}}
		if rapid.Bool().Draw(t, label+"cfgAP") {
			cfg["additionalProperties"] = false
		}
		if rapid.Bool().Draw(t, label+"cfgReq") {
			cfg["required"] = []interface{}{"mode"}
		}
		props["cfg"] = cfg
	}
	// what the chart's schema says about the global values it receives
	if rapid.IntRange(0, 3).Draw(t, label+"pGlobal") == 0 {
		props["global"] = map[string]interface{}{"type": "object", "properties": map[string]interface{}{"region": map[string]interface{}{"type": "string", "enum": []interface{}{"eu", "us"}}}}
	}
	s := map[string]interface{}{"$schema": "http://json-schema.org/draft-07/schema#", "type": "object", "properties": props}
	var req []interface{}
	for _, k := range []string{"replicas", "name"} {
		if _, ok := props[k]; ok && rapid.IntRange(0, 2).Draw(t, label+"req"+k) == 0 {
			req = append(req, k)
		}
	}
	if len(req) > 0 {
		s["required"] = req
	}
	return s
}

// c14GenValues draws values for the schema key space; valid=true biases towards satisfying typical schemas.
func c14GenValues(t *rapid.T, label string, bias int) map[string]interface{} {
	m := map[string]interface{}{}
	pick := func(k string) bool { return rapid.IntRange(0, 2).Draw(t, label+"has"+k) > 0 }
	bad := func(k string) bool { return rapid.IntRange(0, bias).Draw(t, label+"bad"+k) == 0 }
	if pick("replicas") {
		m["replicas"] = float64(rapid.IntRange(2, 3).Draw(t, label+"replicas"))
		if bad("replicas") {
			m["replicas"] = rapid.SampledFrom([]interface{}{float64(-1), float64(99), "three", 1.5}).Draw(t, label+"badReplicas")
		}
	}
	if pick("name") {
		m["name"] = rapid.SampledFrom([]string{"alpha", "beta"}).Draw(t, label+"name")
		if bad("name") {
			m["name"] = rapid.SampledFrom([]interface{}{"", "zz", float64(7), true}).Draw(t, label+"badName")
		}
	}
	if pick("debug") {
		m["debug"] = rapid.Bool().Draw(t, label+"debug")
		if bad("debug") {
			m["debug"] = "yes"
		}
	}
	if pick("ports") {
		m["ports"] = []interface{}{float64(80), float64(443)}
		if bad("ports") {
			m["ports"] = rapid.SampledFrom([]interface{}{[]interface{}{float64(0)}, []interface{}{"http"}, "80"}).Draw(t, label+"badPorts")
		}
	}
	if pick("cfg") {
		cfg := map[string]interface{}{"mode": "fast", "level": float64(3)}
		if bad("cfg") {
			switch rapid.IntRange(0, 3).Draw(t, label+"badCfg") {
			case 0:
				delete(cfg, "mode")
			case 1:
				cfg["extra"] = "x"
			case 2:
				cfg["level"] = float64(10)
			default:
				cfg["mode"] = float64(1)
			}
		}
		m["cfg"] = cfg
	}
	return m
}

type c14Chart struct {
	Name string `json:"name"` // the name the parent addresses it by (the alias when Real is set)
	// Real, when set, is the chart's own name: the dependency is then declared as {name: Real, alias: Name}
	Real     string                 `json:"real,omitempty"`
	Cond     string                 `json:"condition,omitempty"` // "<name>.enabled" or ""
	Schema   map[string]interface{} `json:"schema,omitempty"`
	Defaults map[string]interface{} `json:"defaults"`
	Deps     []*c14Chart            `json:"deps,omitempty"`
	// TwinOf: this entry is a second declaration (under the alias Name) of the sibling of that name: one chart in
	// charts/, two entries in Chart.yaml. Unlisted: the chart lies in its parent's charts/ without an entry in Chart.yaml.
	TwinOf   string `json:"twinOf,omitempty"`
	Unlisted bool   `json:"unlisted,omitempty"`
}

type c14Case struct {
	Root    *c14Chart `json:"root"`
	Files   []string  `json:"files"` // YAML of -f files
	Sets    []string  `json:"sets"`  // --set arguments
	Skip    bool      `json:"skipSchemaValidation,omitempty"`
	Seq     string    `json:"sequence"` // install | upgrade | skip-install-then-upgrade | same-version-new-schema-upgrade
	Backend string    `json:"backend"`
	// CreateNS: installs run with --create-namespace (one more request that must not precede the schema check)
	CreateNS bool `json:"createNamespace,omitempty"`
}

func (c *c14Chart) own() string {
	if c.Real != "" {
		return c.Real
	}
	return c.Name
}

func (c *c14Chart) build(version string) *chart.Chart {
	ch := &chart.Chart{
		Metadata: &chart.Metadata{APIVersion: "v2", Name: c.own(), Version: version},
		Values:   deepCopyVal(c.Defaults).(map[string]interface{}),
		// (the object's name comes from the template's path: a chart declared twice is rendered twice from one file)
		Templates: []*chart.File{{Name: "templates/cm.yaml", Data: []byte("apiVersion: v1\nkind: ConfigMap\nmetadata:\n  name: cm-{{ .Template.BasePath | sha256sum | trunc 12 }}\ndata:\n  chart: " + c.Name + "\n  v: {{ toJson .Values | quote }}\n")}},
	}
	if c.Schema != nil {
		b, _ := json.Marshal(c.Schema)
		ch.Schema = b
	}
	for _, d := range c.Deps {
		if d.Unlisted {
			ch.AddDependency(d.build(version))
			continue
		}
		dep := &chart.Dependency{Name: d.own(), Version: version, Condition: d.Cond}
		if d.Real != "" {
			dep.Alias = d.Name
		}
		ch.Metadata.Dependencies = append(ch.Metadata.Dependencies, dep)
		if d.TwinOf == "" {
			ch.AddDependency(d.build(version))
		}
	}
	return ch
}

func c14GenCase(t *rapid.T) c14Case {
	mk := func(name string, label string) *c14Chart {
		c := &c14Chart{Name: name, Defaults: c14GenValues(t, label+"def", 6)}
		if rapid.IntRange(0, 4).Draw(t, label+"defGlobal") == 0 {
			c.Defaults["global"] = map[string]interface{}{"region": rapid.SampledFrom([]interface{}{"eu", "us", "mars", float64(7)}).Draw(t, label+"defRegion")}
		}
		if rapid.IntRange(0, 3).Draw(t, label+"hasSchema") > 0 {
			c.Schema = c14GenSchema(t, label)
		}
		return c
	}
	root := mk("app", "root")
	if rapid.IntRange(0, 2).Draw(t, "hasMid") > 0 {
		mid := mk("mid", "mid")
		if rapid.Bool().Draw(t, "midCond") {
			mid.Cond = "mid.enabled"
		}
		if rapid.Bool().Draw(t, "hasLeaf") {
			leaf := mk("leaf", "leaf")
			if rapid.Bool().Draw(t, "leafCond") {
				leaf.Cond = "leaf.enabled"
			}
			mid.Deps = append(mid.Deps, leaf)
			if rapid.Bool().Draw(t, "midSectionForLeaf") {
				mid.Defaults["leaf"] = c14GenValues(t, "midLeafSec", 5)
			}
		}
		root.Deps = append(root.Deps, mid)
		if rapid.Bool().Draw(t, "rootSectionForMid") {
			root.Defaults["mid"] = c14GenValues(t, "rootMidSec", 5)
		}
	}
	if rapid.IntRange(0, 2).Draw(t, "hasSide") == 0 {
		root.Deps = append(root.Deps, mk("side", "side"))
	}
	// some dependencies are declared under an alias (their own chart name differs from the name the values use)
	var aliasWalk func(x *c14Chart)
	aliasWalk = func(x *c14Chart) {
		for _, d := range x.Deps {
			if rapid.IntRange(0, 3).Draw(t, "aliased-"+d.Name) == 0 {
				d.Real = "real" + d.Name
			}
			aliasWalk(d)
		}
	}
	aliasWalk(root)
	// one case in four with a mid chart declares it a second time under the alias mid2 (one chart in charts/, rendered
	// twice); a leaf below it then lies in charts/ without a declaration (declared nested charts below a chart that is
	// declared twice are where the pinned tree has a known defect, C11)
	if len(root.Deps) > 0 && root.Deps[0].Name == "mid" && rapid.IntRange(0, 3).Draw(t, "midDeclaredTwice") == 0 {
		mid := root.Deps[0]
		for _, l := range mid.Deps {
			l.Unlisted, l.Cond, l.Real = true, "", ""
		}
		twin := deepCopyC14(mid)
		twin.Name, twin.TwinOf, twin.Real, twin.Cond = "mid2", "mid", mid.own(), ""
		if rapid.Bool().Draw(t, "mid2Cond") {
			twin.Cond = "mid2.enabled"
		}
		root.Deps = append(root.Deps, twin)
		if rapid.Bool().Draw(t, "rootSectionForMid2") {
			root.Defaults["mid2"] = c14GenValues(t, "rootMid2Sec", 5)
		}
	}
	c := c14Case{Root: root, Backend: rapid.SampledFrom([]string{"memory", "secret"}).Draw(t, "backend")}
	c.CreateNS = rapid.IntRange(0, 2).Draw(t, "createNamespace") == 0
	// user values through files and --set
	for i, n := 0, rapid.IntRange(0, 2).Draw(t, "nFiles"); i < n; i++ {
		tree := c14GenValues(t, fmt.Sprintf("file%d", i), 4)
		for _, sub := range []string{"mid", "side", "mid2"} {
			if rapid.IntRange(0, 2).Draw(t, fmt.Sprintf("file%d%s", i, sub)) == 0 {
				sec := c14GenValues(t, fmt.Sprintf("file%d%ssec", i, sub), 4)
				if sub != "side" && rapid.Bool().Draw(t, fmt.Sprintf("file%dleaf", i)) {
					sec["leaf"] = c14GenValues(t, fmt.Sprintf("file%dleafsec", i), 4)
				}
				if en := rapid.IntRange(0, 3).Draw(t, fmt.Sprintf("file%d%senabled", i, sub)); en > 1 {
					sec["enabled"] = en == 2
				}
				tree[sub] = sec
			}
		}
		y, _ := yaml.Marshal(tree)
		c.Files = append(c.Files, string(y))
	}
	for i, n := 0, rapid.IntRange(0, 2).Draw(t, "nSets"); i < n; i++ {
		c.Sets = append(c.Sets, rapid.SampledFrom([]string{
			"replicas=3", "replicas=99", "replicas=three", "name=alpha", "name=zz", "debug=true", "debug=yes", "cfg.mode=fast", "cfg.extra=x", "cfg.level=10",
			"mid.replicas=0", "mid.replicas=3", "mid.name=beta", "mid.leaf.replicas=0", "mid.leaf.replicas=3", "mid.leaf.name=zz", "side.replicas=-1", "side.debug=true",
			"mid2.replicas=0", "mid2.replicas=3", "mid2.name=zz", "mid2.leaf.replicas=0", "mid2.leaf.name=zz", "mid2.leaf.replicas=3", "mid2.cfg.mode=1", "mid2.enabled=false", "mid2.cfg.level=4",
			"mid.enabled=false", "mid.leaf.enabled=false", "mid.enabled=true", "ports={80,443}", "ports={0}", "mid.cfg.mode=1",
			// nulls: over a default (deletes it), and where nothing is to delete (stays a null in the final values)
			"global.region=eu", "global.region=mars", "global.region=7", "cfg.level=5", "cfg.level=2", "mid.cfg.level=4", "side.cfg.level=1",
			// a scalar where an enabled subchart's section belongs
			"mid=off", "side=1", "mid.leaf=none",
			"name=null", "replicas=null", "debug=null", "cfg=null", "cfg.mode=null", "extra=null", "mid.name=null", "mid.replicas=null", "mid.leaf.name=null", "side.cfg.level=null",
		}).Draw(t, "set"))
	}
	// one case in eight puts a scalar where a subchart's section belongs; a case with a chart declared twice usually
	// addresses the second declaration
	if rapid.IntRange(0, 7).Draw(t, "scalarOnSubchartKey") == 0 {
		c.Sets = append(c.Sets, rapid.SampledFrom([]string{"mid=off", "side=1", "mid.leaf=none", "mid2=off", "mid2.leaf=none"}).Draw(t, "scalarSet"))
	}
	if n := len(root.Deps); n > 0 && root.Deps[n-1].TwinOf != "" && rapid.IntRange(0, 2).Draw(t, "addressTheSecondDeclaration") > 0 {
		c.Sets = append(c.Sets, rapid.SampledFrom([]string{"mid2.replicas=0", "mid2.replicas=99", "mid2.name=zz", "mid2.leaf.replicas=0", "mid2.leaf.name=zz", "mid2.leaf.replicas=99", "mid2.cfg.mode=1", "mid2.cfg.level=10", "mid2.leaf.cfg.mode=1", "mid2.debug=yes", "mid2.leaf.debug=yes"}).Draw(t, "mid2Set"))
	}
	c.Skip = rapid.IntRange(0, 7).Draw(t, "skipSchema") == 0
	c.Seq = rapid.SampledFrom([]string{"install", "install", "upgrade", "upgrade", "skip-install-then-upgrade", "same-version-new-schema-upgrade"}).Draw(t, "sequence")
	return c
}

// ------------------------------------------------------------------ reference: which enabled charts violate

func c14UserValues(c c14Case) (map[string]interface{}, error) {
	dir, err := os.MkdirTemp("", "c14")
	if err != nil {
		return nil, err
	}
	defer os.RemoveAll(dir)
	opts := values.Options{Values: c.Sets}
	for i, f := range c.Files {
		p := filepath.Join(dir, fmt.Sprintf("v%d.yaml", i))
		_ = os.WriteFile(p, []byte(f), 0o644)
		opts.ValueFiles = append(opts.ValueFiles, p)
	}
	return opts.MergeValues(getter.Providers{})
}

// c14Violators returns the names of enabled charts whose final values violate their schema (reference), or ok=false when
// the case is outside the judged domain (a subchart section that is not a table).
func c14Violators(root *c14Chart, user map[string]interface{}) (names []string, ok bool) {
	var toRef func(c *c14Chart) *refChart
	toRef = func(c *c14Chart) *refChart {
		rc := &refChart{Name: c.Name, Defaults: c.Defaults}
		for _, d := range c.Deps {
			rc.Deps = append(rc.Deps, toRef(d))
		}
		return rc
	}
	all := refScope(toRef(root), deepCopyVal(user).(map[string]interface{}))
	ok = true
	// enabled set
	var prune func(c *c14Chart, scope map[string]interface{}) *refChart
	enabledCharts := map[*refChart]*c14Chart{}
	prune = func(c *c14Chart, scope map[string]interface{}) *refChart {
		rc := &refChart{Name: c.Name, Defaults: c.Defaults}
		enabledCharts[rc] = c
		for _, d := range c.Deps {
			if raw, has := scope[d.Name]; has {
				if _, isMap := raw.(map[string]interface{}); !isMap {
					ok = false
				}
			}
			sub, _ := scope[d.Name].(map[string]interface{})
			if sub == nil {
				sub = map[string]interface{}{}
			}
			if d.Cond != "" {
				if b, isBool := sub["enabled"].(bool); isBool && !b {
					continue
				}
			}
			rc.Deps = append(rc.Deps, prune(d, sub))
		}
		return rc
	}
	pruned := prune(root, all)
	scope := refScope(pruned, deepCopyVal(user).(map[string]interface{}))
	var walk func(rc *refChart, vals map[string]interface{})
	// final gives the values a chart is validated against: a null removes the key when the chart's own values.yaml has
	// a default for it (the documented way to delete a default); any other null stays a null in the final values
	var final func(rc *refChart, vals map[string]interface{}) map[string]interface{}
	final = func(rc *refChart, vals map[string]interface{}) map[string]interface{} {
		c := enabledCharts[rc]
		out := c14NullRule(deepCopyVal(vals).(map[string]interface{}), c.Defaults)
		for _, d := range rc.Deps {
			if sub, ok := vals[d.Name].(map[string]interface{}); ok {
				out[d.Name] = final(d, sub)
			}
		}
		return out
	}
	walk = func(rc *refChart, vals map[string]interface{}) {
		if c := enabledCharts[rc]; c.Schema != nil && !c14Valid(c.Schema, final(rc, vals)) {
			names = append(names, c.Name)
		}
		for _, d := range rc.Deps {
			sub, _ := vals[d.Name].(map[string]interface{})
			if sub == nil {
				sub = map[string]interface{}{}
			}
			walk(d, sub)
		}
	}
	walk(pruned, scope)
	sort.Strings(names)
	return names, ok
}

// c14NullRule applies the null rule level by level against the chart's own defaults.
func c14NullRule(vals, own map[string]interface{}) map[string]interface{} {
	out := map[string]interface{}{}
	for k, v := range vals {
		switch x := v.(type) {
		case nil:
			if _, has := own[k]; !has {
				out[k] = nil
			}
		case map[string]interface{}:
			o, _ := own[k].(map[string]interface{})
			if o == nil {
				o = map[string]interface{}{}
			}
			out[k] = c14NullRule(x, o)
		default:
			out[k] = v
		}
	}
	return out
}

// c14Normalize drops nulls (a null removes the key before validation) and converts numbers to float64.
func c14Normalize(v map[string]interface{}) map[string]interface{} {
	out, _ := pruneNullsKeepEmpty(deepCopyVal(v)).(map[string]interface{})
	if out == nil {
		out = map[string]interface{}{}
	}
	return out
}

func pruneNullsKeepEmpty(v interface{}) interface{} {
	if m, ok := v.(map[string]interface{}); ok {
		o := map[string]interface{}{}
		for k, e := range m {
			if e == nil {
				continue
			}
			o[k] = pruneNullsKeepEmpty(e)
		}
		return o
	}
	return v
}

// ------------------------------------------------------------------ judge

func c14IsSchemaErr(err error) bool {
	return err != nil && strings.Contains(err.Error(), "values don't meet the specifications of the schema")
}

func c14Judge(tb vt.TB, c c14Case) (lbls []string, nontrivial bool) {
	user, err := c14UserValues(c)
	if err != nil {
		evid.Note("C14:not-judged/value-flags-rejected")
		return []string{"value-flags-rejected"}, false
	}
	viol, ok := c14Violators(c.Root, user)
	// a user value that is not a table where a dependency's section belongs
	var nonTable func(x *c14Chart, scope map[string]interface{})
	nonTable = func(x *c14Chart, scope map[string]interface{}) {
		for _, d := range x.Deps {
			if raw, has := scope[d.Name]; has {
				if m, isMap := raw.(map[string]interface{}); isMap {
					nonTable(d, m)
				} else {
					ok = false
				}
			}
		}
	}
	nonTable(c.Root, user)
	if !ok {
		// what such a subchart's final values are is not defined; judged is only what was rendered: whatever values a chart
		// was rendered with satisfy its schema
		return []string{"subchart-section-not-a-table"}, c14JudgeRenderedOnly(tb, c, user)
	}
	detail := func() string { return fmt.Sprintf("violating charts (reference): %v\ncase %s", viol, jsonOf(c)) }
	expectReject := len(viol) > 0 && !c.Skip
	fail := func(sig, d string) {
		vt.Violation(tb, sig, d+"\n"+detail(), c)
	}
	namesOK := func(err error) bool {
		for _, n := range viol {
			if !strings.Contains(err.Error(), n+":") {
				return false
			}
		}
		return true
	}
	w := world.New(c.Backend)
	mkOp := func(kind string, ver string, root *c14Chart, vals map[string]interface{}, skip bool) *world.Op {
		op := &world.Op{Kind: kind, DisableHooks: true, SkipSchema: skip, Values: vals, ChartFn: func() *chart.Chart { return root.build(ver) }}
		if c.CreateNS && kind == "install" {
			op.Customize = func(a interface{}) {
				if in, ok := a.(*action.Install); ok {
					in.CreateNamespace = true
				}
			}
		}
		return op
	}
	judgeOp := func(what string, op *world.Op, expect bool) bool {
		pre := w.Backend.Snapshot()
		res := w.Run(op)
		if res.Panic != nil {
			fail("C14:panic/"+what, fmt.Sprint(res.Panic))
			return false
		}
		if expect {
			if !c14IsSchemaErr(res.Err) {
				fail("C14:schema-violation-not-rejected/"+what, fmt.Sprintf("err=%v", res.Err))
				return false
			}
			if !namesOK(res.Err) {
				fail("C14:error-does-not-name-the-violating-chart/"+what, res.Err.Error())
				return false
			}
			for _, e := range res.Events {
				if e.Mutating() {
					fail("C14:cluster-write-despite-schema-violation/"+what, e.String())
					return false
				}
			}
			if d := diffSnap(pre, w.Backend.Snapshot()); d != "" {
				fail("C14:release-stored-despite-schema-violation/"+what, d)
				return false
			}
		} else if c14IsSchemaErr(res.Err) {
			sig := "C14:schema-step-rejected-valid-values/" + what
			if op.SkipSchema {
				sig = "C14:schema-enforced-although-skip-schema-validation/" + what
			}
			fail(sig, res.Err.Error())
			return false
		}
		if res.Err == nil && res.Rel != nil && !op.SkipSchema {
			if bad := c14RenderedViolators(c.Root, res.Rel.Manifest); len(bad) > 0 {
				fail("C14:chart-rendered-with-values-that-violate-its-schema/"+what, fmt.Sprintf("charts %v; manifest:\n%s", bad, res.Rel.Manifest))
				return false
			}
		}
		return true
	}
	lbls = append(lbls, "sequence:"+c.Seq)
	if expectReject {
		lbls = append(lbls, "expect-reject")
	}
	depth := 0
	for _, d := range c.Root.Deps {
		depth = max(depth, 1)
		if len(d.Deps) > 0 {
			depth = 2
		}
	}
	lbls = append(lbls, fmt.Sprintf("subchart-depth:%d", depth))

	// template (client-only dry run) and server-side dry run never depend on history
	tpl := mkOp("install", "1.0.0", c.Root, user, c.Skip)
	tpl.ClientOnly, tpl.DryRun = true, true
	if !judgeOp("template", tpl, expectReject) {
		return lbls, false
	}
	dry := mkOp("install", "1.0.0", c.Root, user, c.Skip)
	dry.DryRunOption = "server"
	if !judgeOp("install-dry-run", dry, expectReject) {
		return lbls, false
	}
	// lint: judged for the root chart's own schema
	if d := c14Lint(c, user, viol); d != "" {
		fail("C14:lint-disagrees-with-root-schema", d)
		return lbls, false
	}
	valid := map[string]interface{}{}
	switch c.Seq {
	case "install":
		if !judgeOp("install", mkOp("install", "1.0.0", c.Root, user, c.Skip), expectReject) {
			return lbls, false
		}
	case "upgrade":
		// a baseline release without any schema, then the candidate as an upgrade
		base := c14StripSchemas(c.Root)
		if r := w.Run(mkOp("install", "1.0.0", base, valid, true)); r.Err != nil {
			evid.Note("C14:not-judged/baseline-install-failed")
			return lbls, false
		}
		if !judgeOp("upgrade", mkOp("upgrade", "1.1.0", c.Root, user, c.Skip), expectReject) {
			return lbls, false
		}
	case "skip-install-then-upgrade":
		// the explicit skip option lets violating values in; a later plain upgrade with the same chart and values must not
		if !judgeOp("install-with-skip", mkOp("install", "1.0.0", c.Root, user, true), false) {
			return lbls, false
		}
		if !judgeOp("upgrade-after-skipped-install", mkOp("upgrade", "1.0.0", c.Root, user, c.Skip), expectReject) {
			return lbls, false
		}
	case "same-version-new-schema-upgrade":
		base := c14StripSchemas(c.Root)
		if r := w.Run(mkOp("install", "1.0.0", base, user, true)); r.Err != nil {
			evid.Note("C14:not-judged/baseline-install-failed")
			return lbls, false
		}
		if !judgeOp("upgrade-same-version-with-schema-added", mkOp("upgrade", "1.0.0", c.Root, user, c.Skip), expectReject) {
			return lbls, false
		}
	}
	// non-trivial: the violating value arrives from a non-default source, or the violation is confined to a subchart
	if len(viol) > 0 {
		onlySub := true
		for _, n := range viol {
			if n == c.Root.Name {
				onlySub = false
			}
		}
		noUser, _ := c14Violators(c.Root, map[string]interface{}{})
		if onlySub || len(noUser) == 0 {
			nontrivial = true
		}
	}
	return lbls, nontrivial
}

// c14RenderedViolators reads, from a manifest, the values every chart of the case was rendered with (each chart's only
// template prints them) and returns the charts whose schema those values do not satisfy. It does not use the reference
// for merging values at all.
func c14RenderedViolators(root *c14Chart, manifest string) (bad []string) {
	charts := map[string]*c14Chart{}
	var walk func(c *c14Chart)
	walk = func(c *c14Chart) {
		if c.TwinOf == "" {
			charts[c.Name] = c
		}
		for _, d := range c.Deps {
			walk(d)
		}
	}
	walk(root)
	for _, doc := range strings.Split("\n"+manifest, "\n---") {
		var obj struct {
			Metadata struct {
				Name string `json:"name"`
			} `json:"metadata"`
			Data map[string]string `json:"data"`
		}
		if yaml.Unmarshal([]byte(doc), &obj) != nil || !strings.HasPrefix(obj.Metadata.Name, "cm-") {
			continue
		}
		c := charts[obj.Data["chart"]]
		if c == nil || c.Schema == nil {
			continue
		}
		var vals interface{}
		if json.Unmarshal([]byte(obj.Data["v"]), &vals) != nil {
			continue
		}
		if !c14Valid(c.Schema, vals) {
			bad = append(bad, c.Name)
		}
	}
	sort.Strings(bad)
	return bad
}

// c14JudgeRenderedOnly runs template and install for a case the reference does not model and judges the rendered values
// alone. It reports whether anything was rendered.
func c14JudgeRenderedOnly(tb vt.TB, c c14Case, user map[string]interface{}) bool {
	if c.Skip {
		return false
	}
	w := world.New(c.Backend)
	rendered := false
	for _, what := range []string{"template", "install"} {
		op := &world.Op{Kind: "install", DisableHooks: true, Values: user, ChartFn: func() *chart.Chart { return c.Root.build("1.0.0") }}
		if what == "template" {
			op.ClientOnly, op.DryRun = true, true
		}
		res := w.Run(op)
		if res.Panic != nil {
			vt.Violation(tb, "C14:panic/"+what, fmt.Sprint(res.Panic)+"\ncase "+jsonOf(c), c)
			return rendered
		}
		if res.Err != nil || res.Rel == nil {
			continue
		}
		rendered = true
		if bad := c14RenderedViolators(c.Root, res.Rel.Manifest); len(bad) > 0 {
			vt.Violation(tb, "C14:chart-rendered-with-values-that-violate-its-schema/"+what, fmt.Sprintf("charts %v; manifest:\n%s\ncase %s", bad, res.Rel.Manifest, jsonOf(c)), c)
			return rendered
		}
	}
	return rendered
}

func deepCopyC14(c *c14Chart) *c14Chart {
	n := *c
	n.Defaults = deepCopyVal(c.Defaults).(map[string]interface{})
	n.Deps = nil
	for _, d := range c.Deps {
		n.Deps = append(n.Deps, deepCopyC14(d))
	}
	return &n
}

func c14StripSchemas(c *c14Chart) *c14Chart {
	n := *c
	n.Schema = nil
	n.Deps = nil
	for _, d := range c.Deps {
		n.Deps = append(n.Deps, c14StripSchemas(d))
	}
	return &n
}

// c14Lint writes the chart to a directory and runs the linter; it returns a description of a disagreement about the
// ROOT chart's schema (lint without --with-subcharts checks only the chart it is pointed at).
func c14Lint(c c14Case, user map[string]interface{}, viol []string) string {
	dir, err := os.MkdirTemp("", "c14lint")
	if err != nil {
		return ""
	}
	defer os.RemoveAll(dir)
	ch := c.Root.build("1.0.0")
	if err := c14WriteChartDir(c.Root, filepath.Join(dir, c.Root.Name), "1.0.0"); err != nil {
		return ""
	}
	var opts []lint.LinterOption
	if c.Skip {
		opts = append(opts, lint.WithSkipSchemaValidation(true))
	}
	res := lint.RunAll(filepath.Join(dir, ch.Name()), deepCopyVal(user).(map[string]interface{}), "default", opts...)
	schemaErr := false
	var msgs []string
	for _, m := range res.Messages {
		if m.Severity == support.ErrorSev && m.Err != nil && strings.Contains(m.Err.Error(), "values don't meet the specifications of the schema") {
			schemaErr = true
		}
		// the values rule reports the same failure in the validator's own words ("- at '/cfg': missing property 'mode'")
		if m.Severity == support.ErrorSev && m.Path == "values.yaml" && m.Err != nil && strings.Contains(m.Err.Error(), "at '/") {
			schemaErr = true
		}
		msgs = append(msgs, fmt.Sprintf("%v", m))
	}
	rootViolates := false
	for _, n := range viol {
		if n == c.Root.Name {
			rootViolates = true
		}
	}
	if rootViolates && !c.Skip && !schemaErr {
		return "the root chart's values violate its schema but lint reports no schema error: " + strings.Join(msgs, " | ")
	}
	if len(viol) == 0 && schemaErr {
		return "no chart violates its schema but lint reports a schema error: " + strings.Join(msgs, " | ")
	}
	return ""
}

// c14WriteChartDir writes the chart tree as a chart directory (Chart.yaml, values.yaml, values.schema.json, templates, charts/).
func c14WriteChartDir(c *c14Chart, dir, version string) error {
	if err := os.MkdirAll(filepath.Join(dir, "templates"), 0o755); err != nil {
		return err
	}
	ch := c.build(version)
	meta, _ := yaml.Marshal(ch.Metadata)
	vals, _ := yaml.Marshal(c.Defaults)
	files := map[string][]byte{"Chart.yaml": meta, "values.yaml": vals, "templates/cm.yaml": ch.Templates[0].Data}
	if ch.Schema != nil {
		files["values.schema.json"] = ch.Schema
	}
	for n, b := range files {
		if err := os.WriteFile(filepath.Join(dir, n), b, 0o644); err != nil {
			return err
		}
	}
	for _, d := range c.Deps {
		if d.TwinOf != "" {
			continue
		}
		if err := c14WriteChartDir(d, filepath.Join(dir, "charts", d.own()), version); err != nil {
			return err
		}
	}
	return nil
}

func c14Prop(t *rapid.T) {
	c := c14GenCase(t)
	lbls, nontrivial := c14Judge(t, c)
	evid.Case(lbls, jsonOf(c), nontrivial, c)
}

func TestC14(t *testing.T) {
	evid.Extra("rule", "C14: chart trees app -> mid -> leaf, app -> side with a schema (from a generated family: type, required, enum, minimum/maximum, minLength, nested object with required / additionalProperties:false, array items) on any subset of the charts, conditions on subcharts, dependencies declared under an alias, one case in four with a mid chart declaring it twice (alias mid2: one chart object rendered at two places, its leaf lying undeclared in charts/), installs with and without --create-namespace, defaults at every level, parent sections, and user values arriving through 0-2 generated -f files and 0-2 --set arguments (merged by Options.MergeValues); sequences: install | upgrade over a schema-less baseline | install with skip-schema-validation then plain upgrade with the same chart and values | upgrade to the same chart version with schemas added. Oracle: a ~100-line reference evaluator for exactly this schema family applied to the reference-coalesced final values of every enabled chart: some chart violates (and skip is off) <=> template, server dry-run install, real install / upgrade fail with the schema error naming every violating chart, with no mutating request and no storage write; nobody violates => no schema error; with skip-schema-validation the gate is off; lint agrees for the root chart. Independently of that reference: every chart's template prints the values it was rendered with, and whenever an operation succeeds without the skip option the printed values of every chart are validated against its schema (this also judges user values that put a scalar where an enabled subchart's section belongs). Non-trivial = a violation that arrives from a non-default source or is confined to a subchart; distinct by the whole case.")
	evid.Extra("assumptions", []string{"the reference evaluator covers exactly the generated schema family (no $ref, no combinators)", "lint is judged for the root chart's own schema only (lint without --with-subcharts looks at one chart)", "cases in which user values turn a subchart section into a non-table are judged by the rendered-values clause only (Helm rejects them today; what such a subchart's final values would be is not defined)"})
	rapid.Check(t, c14Prop)
}

func TestC14_Replay(t *testing.T) {
	p := os.Getenv("VERIF_REPLAY_JSON")
	if p == "" {
		t.Skip("no VERIF_REPLAY_JSON")
	}
	d, err := loadReplayDoc(p)
	if err != nil {
		t.Fatal(err)
	}
	var c c14Case
	if err := json.Unmarshal(d.Case, &c); err != nil {
		t.Fatal(err)
	}
	c14Judge(t, c)
}

func TestC14_Known(t *testing.T) {
	for _, e := range knownEntries("C14") {
		d, err := loadReplayDoc(e.Replay)
		var c c14Case
		if err == nil {
			err = json.Unmarshal(d.Case, &c)
		}
		if err != nil {
			fmt.Printf("KNOWN-GONE sig=%s :: replay unreadable: %v\n", e.Signature, err)
			continue
		}
		vt.CheckKnown(e.Signature, e.What, func(tb vt.TB) { c14Judge(tb, c) })
	}
}
