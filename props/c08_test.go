package props

// C08 — every rendered document is applied exactly once, in dependency order.
// A: partition and order of documents (no cluster).  B: the per-kind barrier when resources are created / deleted.

import (
	"encoding/json"
	"fmt"
	"io"
	"os"
	"regexp"
	"sort"
	"strings"
	"testing"
	"time"

	"pgregory.net/rapid"
	"sigs.k8s.io/yaml"

	"helm.sh/helm/v4/pkg/action"
	chart "helm.sh/helm/v4/pkg/chart/v2"
	chartutil "helm.sh/helm/v4/pkg/chart/v2/util"
	"helm.sh/helm/v4/pkg/kube"
	kubefake "helm.sh/helm/v4/pkg/kube/fake"
	release "helm.sh/helm/v4/pkg/release/v1"
	"helm.sh/helm/v4/pkg/storage"
	"helm.sh/helm/v4/pkg/storage/driver"

	"verif/internal/evid"
	"verif/internal/vt"
	"verif/internal/world"
)

// The documented, fixed kind orders (copied from Helm's documentation of the install order at the pinned commit; kept
// here on purpose so that the list itself is part of what is checked).
var c08InstallOrder = []string{"PriorityClass", "Namespace", "NetworkPolicy", "ResourceQuota", "LimitRange", "PodSecurityPolicy", "PodDisruptionBudget", "ServiceAccount", "Secret", "SecretList", "ConfigMap", "StorageClass", "PersistentVolume", "PersistentVolumeClaim", "CustomResourceDefinition", "ClusterRole", "ClusterRoleList", "ClusterRoleBinding", "ClusterRoleBindingList", "Role", "RoleList", "RoleBinding", "RoleBindingList", "Service", "DaemonSet", "Pod", "ReplicationController", "ReplicaSet", "Deployment", "HorizontalPodAutoscaler", "StatefulSet", "Job", "CronJob", "IngressClass", "Ingress", "APIService", "MutatingWebhookConfiguration", "ValidatingWebhookConfiguration"}
var c08UninstallOrder = []string{"ValidatingWebhookConfiguration", "MutatingWebhookConfiguration", "APIService", "Ingress", "IngressClass", "Service", "CronJob", "Job", "StatefulSet", "HorizontalPodAutoscaler", "Deployment", "ReplicaSet", "ReplicationController", "Pod", "DaemonSet", "RoleBindingList", "RoleBinding", "RoleList", "Role", "ClusterRoleBindingList", "ClusterRoleBinding", "ClusterRoleList", "ClusterRole", "CustomResourceDefinition", "PersistentVolumeClaim", "PersistentVolume", "StorageClass", "ConfigMap", "SecretList", "Secret", "ServiceAccount", "PodDisruptionBudget", "PodSecurityPolicy", "LimitRange", "ResourceQuota", "NetworkPolicy", "Namespace", "PriorityClass"}

func c08Rank(order []string) map[string]int {
	m := map[string]int{}
	for i, k := range order {
		m[k] = i
	}
	return m
}

var c08KnownEvents = map[string]bool{"pre-install": true, "post-install": true, "pre-delete": true, "post-delete": true, "pre-upgrade": true, "post-upgrade": true, "pre-rollback": true, "post-rollback": true, "test": true, "test-success": true}

// ------------------------------------------------------------------ A: partition

type c08Doc struct {
	ID    int    `json:"id"`
	Kind  string `json:"kind,omitempty"`
	Hook  string `json:"hook,omitempty"`
	Text  string `json:"text"`
	Class string `json:"class"` // generic | hook | dropped | blank | comment
	File  string `json:"file"`
	Pos   int    `json:"pos"`
	// Keep: the document carries helm.sh/resource-policy: keep (it stays in the manifest and is left out of the
	// documents an uninstall deletes, without disturbing the order of the others)
	Keep bool `json:"keep,omitempty"`
}

type c08File struct {
	Name string `json:"name"`
	Data string `json:"data"`
}

type c08ACase struct {
	Files []c08File `json:"files"`
	Docs  []c08Doc  `json:"docs"` // the documents that must be accounted for (not in NOTES / partials)
}

func c08GenA(t *rapid.T) c08ACase {
	kinds := []string{"ConfigMap", "Secret", "Service", "Deployment", "Namespace", "Zebra", "Alpha", "Job", "ServiceAccount", "Ingress"}
	seps := []string{"\n---\n", "\n--- \n", "\r\n---\r\n", "\n---\n---\n", "\n\n---\n\n", "\n---  \t\n"}
	// ("" = no annotation at all; "<empty>" = the annotation is there and holds nothing - an event name that is not known)
	hooks := []string{"", "", "", "pre-install", "post-upgrade,pre-rollback", "bogus", "pre-install,bogus", "bogus,post-delete", " Pre-Install ", "test", "test-success", "post-install, test-success", "crd-install", "<empty>", "pre-install,", " "}
	names := []string{"templates/a.yaml", "templates/b.yaml", "templates/sub/c.yaml", "templates/_p.tpl", "templates/NOTES.txt", "templates/z.yml", "templates/sub/NOTES.txt", "templates/0.yaml"}
	var c c08ACase
	id := 0
	used := map[string]bool{}
	for f, nf := 0, rapid.IntRange(1, 4).Draw(t, "nFiles"); f < nf; f++ {
		fname := rapid.SampledFrom(names).Draw(t, "fileName")
		if used[fname] {
			continue
		}
		used[fname] = true
		var sb strings.Builder
		if rapid.IntRange(0, 3).Draw(t, "leadingSeparator") == 0 {
			sb.WriteString("---\n")
		}
		// "any number of documents": mostly a few, sometimes enough that positions need two digits
		for d, nd := 0, rapid.SampledFrom([]int{0, 1, 2, 3, 4, 1, 2, 3, 4, 7, 12, 25}).Draw(t, "nDocs"); d < nd; d++ {
			id++
			g := c08Doc{ID: id, File: "c/" + fname, Pos: d}
			switch rapid.IntRange(0, 8).Draw(t, "docClass") {
			case 0:
				g.Class, g.Text = "blank", "  \n"
			case 1:
				g.Class, g.Text = "comment", fmt.Sprintf("# only a comment id%dz", id)
			default:
				g.Kind = rapid.SampledFrom(kinds).Draw(t, "kind")
				g.Hook = rapid.SampledFrom(hooks).Draw(t, "hook")
				ann := ""
				if g.Hook != "" {
					val := g.Hook
					if val == "<empty>" {
						val = ""
					}
					ann = fmt.Sprintf("  annotations:\n    \"helm.sh/hook\": %q\n    \"helm.sh/hook-weight\": \"%d\"\n", val, rapid.IntRange(-2, 2).Draw(t, "weight"))
					if rapid.Bool().Draw(t, "deletePolicy") {
						ann += "    \"helm.sh/hook-delete-policy\": hook-succeeded\n"
					}
				} else if rapid.Bool().Draw(t, "otherAnnotation") {
					ann = "  annotations:\n    foo: bar\n"
					if rapid.IntRange(0, 2).Draw(t, "keepPolicy") == 0 {
						ann = "  annotations:\n    foo: bar\n    \"helm.sh/resource-policy\": keep\n"
						g.Keep = true
					}
				}
				g.Text = fmt.Sprintf("apiVersion: v1\nkind: %s\nmetadata:\n  name: id%dz\n%sdata:\n  k: v", g.Kind, id, ann)
				if rapid.IntRange(0, 5).Draw(t, "crlf") == 0 {
					g.Text = strings.ReplaceAll(g.Text, "\n", "\r\n")
				}
				g.Class = "generic"
				if g.Hook != "" {
					g.Class = "hook"
					for _, e := range strings.Split(strings.TrimPrefix(g.Hook, "<empty>"), ",") {
						if !c08KnownEvents[strings.ToLower(strings.TrimSpace(e))] {
							g.Class = "dropped" // a document naming an unknown event is dropped
						}
					}
				}
			}
			if d > 0 {
				sb.WriteString(rapid.SampledFrom(seps).Draw(t, "separator"))
			}
			sb.WriteString(g.Text)
			if !strings.HasSuffix(fname, "NOTES.txt") && !strings.Contains(fname, "/_") {
				c.Docs = append(c.Docs, g)
			}
		}
		sb.WriteString(rapid.SampledFrom([]string{"", "\n", "\n---\n", "\n---"}).Draw(t, "trailer"))
		c.Files = append(c.Files, c08File{Name: fname, Data: sb.String()})
	}
	return c
}

var c08LeadMarker = regexp.MustCompile(`^(\s*---[ \t]*\r?\n)+`)

func c08Norm(s string) string {
	s = strings.ReplaceAll(s, "\r\n", "\n")
	s = c08LeadMarker.ReplaceAllString(s, "")
	return strings.TrimSpace(s)
}

func c08SameYAML(a, b string) bool {
	var va, vb interface{}
	if yaml.Unmarshal([]byte(a), &va) != nil || yaml.Unmarshal([]byte(b), &vb) != nil {
		return false
	}
	return jsonOf(va) == jsonOf(vb)
}

func c08KindOf(body string) string {
	for _, l := range strings.Split(strings.ReplaceAll(body, "\r\n", "\n"), "\n") {
		if strings.HasPrefix(l, "kind: ") {
			return strings.TrimSpace(strings.TrimPrefix(l, "kind: "))
		}
	}
	return ""
}

func c08JudgeA(tb vt.TB, c c08ACase) {
	ch := &chart.Chart{Metadata: &chart.Metadata{APIVersion: "v2", Name: "c", Version: "1.0.0"}}
	for _, f := range c.Files {
		ch.Templates = append(ch.Templates, &chart.File{Name: f.Name, Data: []byte(f.Data)})
	}
	in := action.NewInstall(&action.Configuration{})
	in.ClientOnly, in.DryRun, in.ReleaseName, in.Namespace = true, true, "r", "default"
	rel, err := in.Run(ch, map[string]interface{}{})
	detail := func() string {
		m := ""
		if rel != nil {
			m = rel.Manifest
		}
		return fmt.Sprintf("files %s\nmanifest %q", jsonOf(c.Files), m)
	}
	fail := func(sig, d string) { vt.Violation(tb, sig, d+"\n"+detail(), c) }
	if err != nil {
		fail("C08:A/render-or-sort-failed", err.Error())
		return
	}
	type ent struct{ src, body string }
	var ents []ent
	for _, part := range strings.Split(rel.Manifest, "---\n# Source: ") {
		if strings.TrimSpace(part) == "" {
			continue
		}
		nl := strings.Index(part, "\n")
		if nl < 0 {
			continue
		}
		ents = append(ents, ent{part[:nl], part[nl+1:]})
	}
	for _, g := range c.Docs {
		tag := fmt.Sprintf("id%dz", g.ID)
		inMan, inHook := 0, 0
		for _, e := range ents {
			if !strings.Contains(e.body, tag) {
				continue
			}
			if g.Class == "comment" {
				inMan++
				continue
			}
			if !strings.Contains(strings.ReplaceAll(e.body, "\r\n", "\n"), "name: "+tag+"\n") {
				continue
			}
			inMan++
			if e.src != g.File {
				fail("C08:A/document-attributed-to-wrong-source", fmt.Sprintf("%s: source %q, expected %q", tag, e.src, g.File))
				return
			}
			if c08Norm(e.body) != c08Norm(g.Text) || !c08SameYAML(e.body, g.Text) {
				fail("C08:A/manifest-document-altered", fmt.Sprintf("%s: got %q want %q", tag, e.body, g.Text))
				return
			}
		}
		for _, h := range rel.Hooks {
			if h.Name == tag {
				inHook++
				if c08Norm(h.Manifest) != c08Norm(g.Text) || !c08SameYAML(h.Manifest, g.Text) {
					fail("C08:A/hook-document-altered", fmt.Sprintf("%s: got %q want %q", tag, h.Manifest, g.Text))
					return
				}
				if h.Path != g.File {
					fail("C08:A/hook-attributed-to-wrong-source", fmt.Sprintf("%s: path %q, expected %q", tag, h.Path, g.File))
					return
				}
			}
		}
		bad := ""
		switch g.Class {
		case "generic":
			if inMan != 1 || inHook != 0 {
				bad = "C08:A/generic-document-not-exactly-once-in-manifest"
			}
		case "hook":
			if inMan != 0 || inHook != 1 {
				bad = "C08:A/hook-document-not-exactly-once-in-hook-list"
			}
		case "dropped":
			if inMan != 0 || inHook != 0 {
				bad = "C08:A/document-naming-unknown-hook-event-not-dropped"
			}
		case "comment":
			if inHook != 0 || inMan > 1 {
				bad = "C08:A/comment-only-document-duplicated-or-became-hook"
			}
		}
		if bad != "" {
			fail(bad, fmt.Sprintf("%s class=%s hook=%q: in manifest %d times, in hook list %d times", tag, g.Class, g.Hook, inMan, inHook))
			return
		}
	}
	// nothing invented: every named manifest entry and every hook corresponds to a generated document
	known := map[string]bool{}
	for _, g := range c.Docs {
		known[fmt.Sprintf("id%dz", g.ID)] = true
	}
	for _, h := range rel.Hooks {
		if !known[h.Name] {
			fail("C08:A/hook-from-notes-or-partial-or-invented", h.Name+" from "+h.Path)
			return
		}
	}
	nameRe := regexp.MustCompile(`(?m)^  name: (id\d+z)\r?$`)
	for _, e := range ents {
		for _, m := range nameRe.FindAllStringSubmatch(e.body, -1) {
			if !known[m[1]] {
				fail("C08:A/manifest-entry-from-notes-or-partial-or-invented", m[1]+" from "+e.src)
				return
			}
		}
	}
	// order: install rank, unknown kinds last, original (file path, position) order within a kind
	c08CheckOrder(fail, "install", c08Rank(c08InstallOrder), func() []string {
		var bodies []string
		for _, e := range ents {
			bodies = append(bodies, e.body)
		}
		return bodies
	}(), c)
	// uninstall order: the real Uninstall action on the stored release, observed as the document stream it hands to
	// the kube client for deletion
	rec := &c08RecordingKube{PrintingKubeClient: kubefake.PrintingKubeClient{Out: io.Discard, LogOutput: io.Discard}}
	ucfg := &action.Configuration{Releases: storage.Init(driver.NewMemory()), KubeClient: rec, Capabilities: chartutil.DefaultCapabilities}
	stored := *rel
	info := *rel.Info
	info.Status = release.StatusDeployed
	stored.Info = &info
	if err := ucfg.Releases.Create(&stored); err != nil {
		fail("C08:A/harness/store-failed", err.Error())
		return
	}
	un := action.NewUninstall(ucfg)
	un.DisableHooks = true
	if _, err := un.Run("r"); err != nil {
		fail("C08:A/uninstall-failed", err.Error())
		return
	}
	var bodies []string
	for _, d := range strings.Split(rec.built, "\n---\n") {
		if strings.TrimSpace(d) != "" {
			bodies = append(bodies, d)
		}
	}
	c08CheckOrder(fail, "uninstall", c08Rank(c08UninstallOrder), bodies, c)
}

// c08RecordingKube records the manifest stream the Uninstall action builds its deletion list from.
type c08RecordingKube struct {
	kubefake.PrintingKubeClient
	built string
}

func (r *c08RecordingKube) Build(rd io.Reader, _ bool) (kube.ResourceList, error) {
	b, err := io.ReadAll(rd)
	r.built += string(b)
	return kube.ResourceList{}, err
}

func c08CheckOrder(fail func(sig, d string), which string, rank map[string]int, bodies []string, c c08ACase) {
	rk := func(k string) int {
		if r, ok := rank[k]; ok {
			return r
		}
		return 1000
	}
	var named []string
	for _, b := range bodies {
		if c08KindOf(b) != "" {
			named = append(named, b)
		}
	}
	for i := 0; i+1 < len(named); i++ {
		if rk(c08KindOf(named[i])) > rk(c08KindOf(named[i+1])) {
			fail("C08:A/"+which+"-kind-order-violated", fmt.Sprintf("%s before %s", c08KindOf(named[i]), c08KindOf(named[i+1])))
			return
		}
	}
	// "all resources of one kind finish before the next kind starts": the creation (deletion) batches are the runs of
	// consecutive equal kinds, so every kind - also each unknown one - must form exactly one run
	closed := map[string]bool{}
	for i, b := range named {
		k := c08KindOf(b)
		if closed[k] {
			fail("C08:A/"+which+"-documents-of-one-kind-not-contiguous", fmt.Sprintf("kind %s resumes at position %d after another kind started", k, i))
			return
		}
		if i+1 < len(named) && c08KindOf(named[i+1]) != k {
			closed[k] = true
		}
	}
	byKind := map[string][]string{}
	for _, b := range named {
		byKind[c08KindOf(b)] = append(byKind[c08KindOf(b)], b)
	}
	for k, bs := range byKind {
		var exp []c08Doc
		for _, g := range c.Docs {
			if g.Class == "generic" && g.Kind == k && !(which == "uninstall" && g.Keep) {
				exp = append(exp, g)
			}
		}
		if len(exp) != len(bs) {
			fail("C08:A/"+which+"-number-of-documents-of-a-kind-differs", fmt.Sprintf("kind %s: %d documents, expected %d", k, len(bs), len(exp)))
			return
		}
		sort.SliceStable(exp, func(i, j int) bool {
			if exp[i].File != exp[j].File {
				return exp[i].File < exp[j].File
			}
			return exp[i].Pos < exp[j].Pos
		})
		for i := range exp {
			if i < len(bs) && !strings.Contains(strings.ReplaceAll(bs[i], "\r\n", "\n"), fmt.Sprintf("name: id%dz\n", exp[i].ID)) && !strings.HasSuffix(strings.TrimSpace(strings.ReplaceAll(bs[i], "\r\n", "\n")), fmt.Sprintf("name: id%dz", exp[i].ID)) {
				fail("C08:A/"+which+"-original-order-within-kind-not-kept", fmt.Sprintf("kind %s position %d: expected id%dz", k, i, exp[i].ID))
				return
			}
		}
	}
}

func c08AProp(t *rapid.T) {
	c := c08GenA(t)
	c08JudgeA(t, c)
	hasHook, hasUnknown, odd := false, false, false
	rank := c08Rank(c08InstallOrder)
	for _, g := range c.Docs {
		if g.Class == "hook" {
			hasHook = true
		}
		if g.Kind != "" {
			if _, ok := rank[g.Kind]; !ok {
				hasUnknown = true
			}
		}
	}
	for _, f := range c.Files {
		if strings.Contains(f.Data, "\r\n") || strings.Contains(f.Data, "---\n---") || strings.HasPrefix(f.Data, "---") || strings.Contains(f.Data, "--- ") {
			odd = true
		}
	}
	var lbls []string
	if hasHook {
		lbls = append(lbls, "has-hook")
	}
	if hasUnknown {
		lbls = append(lbls, "has-unknown-kind")
	}
	if odd {
		lbls = append(lbls, "odd-separators-or-crlf")
	}
	if len(c.Docs) > 10 {
		lbls = append(lbls, "more-than-ten-documents")
	}
	evid.Case(lbls, jsonOf(c.Files), len(c.Docs) >= 3 && hasHook && (hasUnknown || odd), c.Files)
}

func TestC08A(t *testing.T) {
	evid.Extra("rule", "C08A: 1-4 template files (yaml/yml, nested directories, a partial _p.tpl, NOTES.txt also in a sub directory) each with 0-4 (sometimes 7, 12 or 25) documents of known and unknown kinds, with or without hook annotations (known events including the older spelling test-success, unknown events, mixtures, odd case/spacing, an annotation that is present but empty or blank, a trailing comma), weights and delete policies, blank and comment-only documents, joined by separators with trailing blanks, CRLF, doubled and leading/trailing separators; every real document carries a unique delimiter-terminated id. After a client-only dry-run install: each id appears exactly once in the place an independent classifier says (manifest, hook list, or nowhere for documents naming an unknown event / living in NOTES or a partial), attributed to its file, content equal as parsed YAML and textually modulo surrounding whitespace and leading document markers; nothing else appears; manifest entries follow the documented install kind order with unknown kinds last, original (file path, position) order within a kind, and every kind - also each unknown one - forming exactly one run (the creation batches are the runs of equal kinds); the same for the documented uninstall order, observed as the document stream a real Uninstall action of the stored release hands to the kube client. Non-trivial = at least 3 documents including a hook and an unknown kind or an odd separator; distinct by the file set.")
	rapid.Check(t, c08AProp)
}

// ------------------------------------------------------------------ B: kind barrier

type c08BCase struct {
	Resources []world.Res `json:"resources"`
	Hold      []string    `json:"hold"` // object paths whose create / delete request is held for a while
}

const c08HoldFor = 12 * time.Millisecond

func c08JudgeB(tb vt.TB, c c08BCase) (held int) {
	w := world.New("memory")
	holdSet := map[string]bool{}
	for _, p := range c.Hold {
		holdSet[p] = true
	}
	gate := func(verb string) func(layer, v, key string) {
		return func(layer, v, key string) {
			if layer == "kube" && v == verb && holdSet[key] {
				time.Sleep(c08HoldFor) // quiescence window: can only hide a violation, never create one
			}
		}
	}
	fail := func(sig, d string) { vt.Violation(tb, sig, d+"\ncase "+jsonOf(c), c) }
	kindOfPath := func(p string) string {
		for k, ki := range world.Kinds {
			if strings.Contains(p, "/"+ki.Plural+"/") {
				return k
			}
		}
		return ""
	}
	check := func(what, verb string, rank map[string]int, events []world.Event) bool {
		var reqs []world.Event
		for _, e := range events {
			if e.Layer == "kube" && e.Verb == verb && kindOfPath(e.Key) != "" {
				reqs = append(reqs, e)
				if holdSet[e.Key] {
					held++
				}
			}
		}
		for _, r1 := range reqs {
			for _, r2 := range reqs {
				k1, k2 := kindOfPath(r1.Key), kindOfPath(r2.Key)
				if rank[k1] < rank[k2] && !(r1.Done < r2.Arrive) {
					fail("C08:B/"+what+"-of-next-kind-started-before-previous-kind-finished", fmt.Sprintf("%s %s finished at #%d, but %s %s had already arrived at #%d", verb, r1.Key, r1.Done, verb, r2.Key, r2.Arrive))
					return false
				}
			}
		}
		return true
	}
	op := &world.Op{Kind: "install", DisableHooks: true, Chart: world.ChartSpec{Version: 1, Resources: c.Resources}, Gate: gate("POST")}
	res := w.Run(op)
	if res.Err != nil {
		fail("C08:B/harness/install-failed", res.Err.Error())
		return
	}
	if !check("creation", "POST", c08Rank(c08InstallOrder), res.Events) {
		return
	}
	un := &world.Op{Kind: "uninstall", DisableHooks: true, Gate: gate("DELETE")}
	res = w.Run(un)
	if res.Err != nil {
		fail("C08:B/harness/uninstall-failed", res.Err.Error())
		return
	}
	check("deletion", "DELETE", c08Rank(c08UninstallOrder), res.Events)
	return held
}

func c08BProp(t *rapid.T) {
	// at least two kinds, at least two resources in some kind
	pool := []world.Res{
		{Kind: "ServiceAccount", Name: "sa1"}, {Kind: "ServiceAccount", Name: "sa2"},
		{Kind: "Secret", Name: "s1"}, {Kind: "Secret", Name: "s2"}, {Kind: "Secret", Name: "s3"},
		{Kind: "ConfigMap", Name: "a"}, {Kind: "ConfigMap", Name: "b"}, {Kind: "ConfigMap", Name: "c"},
		{Kind: "Service", Name: "svc1"}, {Kind: "Service", Name: "svc2"},
		{Kind: "Deployment", Name: "web"}, {Kind: "Deployment", Name: "api"},
	}
	idx := rapid.SliceOfNDistinct(rapid.IntRange(0, len(pool)-1), 4, 9, func(i int) int { return i }).Draw(t, "resources")
	sort.Ints(idx)
	var c c08BCase
	for _, i := range idx {
		c.Resources = append(c.Resources, pool[i])
	}
	for _, r := range c.Resources {
		if rapid.IntRange(0, 2).Draw(t, "hold") == 0 {
			c.Hold = append(c.Hold, r.Path())
		}
	}
	held := c08JudgeB(t, c)
	kinds := map[string]int{}
	for _, r := range c.Resources {
		kinds[r.Kind]++
	}
	multi := false
	for _, n := range kinds {
		if n >= 2 {
			multi = true
		}
	}
	evid.Case([]string{fmt.Sprintf("kinds:%d", len(kinds))}, jsonOf(c), held > 0 && len(kinds) >= 2 && multi, c)
}

func TestC08B(t *testing.T) {
	evid.Extra("rule", "C08B: real installs and uninstalls (real kube.Client over the API-server simulator) of 4-9 resources over 5 kinds with several resources per kind; the simulator holds a random subset of the create (then delete) requests for a quiescence window and stamps arrival and completion of every request in one global order. Oracle: for requests r1, r2 with rank(kind r1) < rank(kind r2) in the documented install (uninstall) order, completion(r1) precedes arrival(r2). The window can only hide a violation, never raise one. Non-trivial = at least one held request, at least two kinds and two resources of one kind; distinct by (resource set, held set).")
	evid.Extra("assumptions", []string{"schedule control is by delaying chosen requests inside the simulator (the Go scheduler otherwise runs freely)"})
	rapid.Check(t, c08BProp)
}

// ------------------------------------------------------------------ replay / known

func c08Dispatch(tb vt.TB, d *replayDoc) {
	if strings.HasPrefix(d.Signature, "C08:B/") {
		var c c08BCase
		if err := json.Unmarshal(d.Case, &c); err != nil {
			tb.Fatalf("bad case: %v", err)
		}
		c08JudgeB(tb, c)
		return
	}
	var c c08ACase
	if err := json.Unmarshal(d.Case, &c); err != nil {
		tb.Fatalf("bad case: %v", err)
	}
	c08JudgeA(tb, c)
}

func TestC08_Replay(t *testing.T) {
	p := os.Getenv("VERIF_REPLAY_JSON")
	if p == "" {
		t.Skip("no VERIF_REPLAY_JSON")
	}
	d, err := loadReplayDoc(p)
	if err != nil {
		t.Fatal(err)
	}
	c08Dispatch(t, d)
}

func TestC08_Known(t *testing.T) {
	for _, e := range knownEntries("C08") {
		d, err := loadReplayDoc(e.Replay)
		if err != nil {
			fmt.Printf("KNOWN-GONE sig=%s :: replay unreadable: %v\n", e.Signature, err)
			continue
		}
		vt.CheckKnown(e.Signature, e.What, func(tb vt.TB) { c08Dispatch(tb, d) })
	}
}
