package props

// C09 — concurrent installs/upgrades of one release cannot both proceed; storage backends are free of data races.

import (
	"encoding/json"
	"errors"
	"fmt"
	"os"
	"sort"
	"strings"
	"sync"
	"testing"
	"time"

	"pgregory.net/rapid"

	release "helm.sh/helm/v4/pkg/release/v1"
	"helm.sh/helm/v4/pkg/storage"
	"helm.sh/helm/v4/pkg/storage/driver"

	"verif/internal/evid"
	"verif/internal/vt"
	"verif/internal/world"
)

type c09Case struct {
	Backend  string      `json:"backend"`
	Start    string      `json:"start"` // empty | deployed
	Ops      []*world.Op `json:"ops"`
	Schedule []int       `json:"schedule"` // choice list: index into the currently blocked operations, per granted call
}

func c09Chart(ver int, variant int) world.ChartSpec {
	// one resource per kind: an operation has at most one call in flight
	rs := []world.Res{{Kind: "ConfigMap", Name: "a", Variant: variant}, {Kind: "Service", Name: "svc", Variant: variant}}
	if variant%2 == 1 {
		rs = append(rs, world.Res{Kind: "Deployment", Name: "web", Variant: variant})
	}
	return world.ChartSpec{Version: ver, Resources: rs}
}

const c09PrunedNumberSig = "C09:revision-number-freed-by-pruning-was-created-again-during-the-race"

func c09InProgressErr(err error) bool {
	if err == nil {
		return false
	}
	s := err.Error()
	return errors.Is(err, driver.ErrReleaseExists) || strings.Contains(s, "already exists") || strings.Contains(s, "another operation (install/upgrade/rollback) is in progress") || strings.Contains(s, "cannot reuse a name that is still in use")
}

// c09Run executes the case under the given schedule and judges it. It returns the schedule actually taken and whether
// the interleaving was non-trivial (the second operation read storage before the first one's final write).
func c09Run(tb vt.TB, c c09Case) (taken []int, nontrivial bool, outcome string) {
	w := world.New(c.Backend)
	if c.Start != "empty" {
		if r := w.Run(&world.Op{Kind: "install", DisableHooks: true, Chart: c09Chart(0, 0)}); r.Err != nil {
			tb.Fatalf("harness: baseline install failed: %v", r.Err)
		}
	}
	switch c.Start {
	case "deployed-long":
		for v := 1; v <= 2; v++ {
			if r := w.Run(&world.Op{Kind: "upgrade", DisableHooks: true, Chart: c09Chart(0, v)}); r.Err != nil {
				tb.Fatalf("harness: baseline upgrade failed: %v", r.Err)
			}
		}
	case "uninstalled-kept":
		if r := w.Run(&world.Op{Kind: "uninstall", DisableHooks: true, KeepHistory: true}); r.Err != nil {
			tb.Fatalf("harness: baseline uninstall failed: %v", r.Err)
		}
	}
	pre := w.History()
	// a schedule element names the operation to run next; elements naming an operation that has finished are skipped, and
	// when the schedule is used up the first waiting operation runs - so the schedule actually taken (a list of operation
	// numbers) replays exactly
	cursor := 0
	pick := func(_ int, waiting []int) int {
		for cursor < len(c.Schedule) {
			id := c.Schedule[cursor]
			cursor++
			for k, wid := range waiting {
				if wid == id {
					return k
				}
			}
		}
		return 0
	}
	results, taken, err := w.RunConcurrent(c.Ops, pick, 20*time.Second)
	if err != nil {
		evid.Note("C09:inconclusive/scheduler-watchdog")
		tb.Fatalf("INCONCLUSIVE scheduler watchdog expired: %v", err)
	}
	post := w.History()
	var lines []string
	for i, r := range results {
		lines = append(lines, fmt.Sprintf("op%d %s => err=%v", i, c.Ops[i].Describe(), r.Err))
	}
	detail := fmt.Sprintf("backend %s start %s schedule %v\n   %s\n   history before %s after %s", c.Backend, c.Start, taken, strings.Join(lines, "\n   "), world.HistString(pre), world.HistString(post))
	cc := c
	cc.Schedule = taken
	fail := func(sig, d string) { vt.Violation(tb, sig, d+"\n"+detail, cc) }

	// who created which revision (successful Create per storage key)
	creators := map[string][]int{}
	created := map[int]bool{}
	for i, r := range results {
		if r.Panic != nil {
			fail("C09:panic", fmt.Sprint(r.Panic))
			return taken, false, ""
		}
		for _, e := range r.Events {
			if e.Layer == "store" && e.Verb == "Create" && e.Code == 0 {
				creators[e.Key] = append(creators[e.Key], i)
				created[i] = true
			}
		}
	}
	// (a revision number may be created again after its record was deleted: an atomic install that failed removes what
	// it created, and the name is free for the next install)
	type crEv struct {
		seq    int
		key    string
		create bool
		op     int
	}
	var crEvs []crEv
	for i, r := range results {
		for _, e := range r.Events {
			if e.Layer == "store" && e.Code == 0 && (e.Verb == "Create" || e.Verb == "Delete") {
				crEvs = append(crEvs, crEv{e.Seq, e.Key, e.Verb == "Create", i})
			}
		}
	}
	sort.Slice(crEvs, func(a, b int) bool { return crEvs[a].seq < crEvs[b].seq })
	alive := map[string]bool{}
	pruned := map[string]bool{} // deleted by an upgrade (history limit), not by the clean-up of a failed atomic install
	for _, e := range crEvs {
		if e.create && alive[e.key] {
			fail("C09:revision-created-by-more-than-one-operation", fmt.Sprintf("%s created by operations %v", e.key, creators[e.key]))
			return taken, false, ""
		}
		if e.create && pruned[e.key] && len(creators[e.key]) > 1 {
			// a number that one of the racing operations had created and pruning then freed was handed out again
			fail(c09PrunedNumberSig, fmt.Sprintf("%s created by operations %v, pruned in between", e.key, creators[e.key]))
			return taken, false, ""
		}
		alive[e.key] = e.create
		if !e.create && c.Ops[e.op].Kind == "upgrade" {
			pruned[e.key] = true
		}
	}
	// status of a stored revision at a point of the global order (from the successful writes seen so far)
	type stWrite struct {
		seq    int
		key    string
		status string
	}
	var writes []stWrite
	for _, r := range results {
		for _, e := range r.Events {
			if e.Layer == "store" && e.Code == 0 && (e.Verb == "Create" || e.Verb == "Update") {
				writes = append(writes, stWrite{e.Seq, e.Key, e.Note})
			}
		}
	}
	sort.Slice(writes, func(a, b int) bool { return writes[a].seq < writes[b].seq })
	statusAt := func(key string, seq int) string {
		st := c09StatusOf(pre, key)
		for _, w := range writes {
			if w.seq < seq && w.key == key {
				st = w.status
			}
		}
		return st
	}
	ok := 0
	for i, r := range results {
		if r.Err == nil {
			ok++
		}
		if created[i] {
			continue
		}
		// an operation that created no revision: refused with already-exists / in-progress, and touched nothing
		if r.Err == nil {
			fail("C09:operation-succeeded-without-creating-a-revision", fmt.Sprintf("op%d", i))
			return taken, false, ""
		}
		// (an upgrade of a name that was never installed, or whose only revision is being removed again, has nothing to
		// upgrade: refused as well)
		nothingToUpgrade := c.Start == "empty" && c.Ops[i].Kind == "upgrade" && (strings.Contains(r.Err.Error(), "has no deployed releases") || strings.Contains(r.Err.Error(), "not found"))
		if !c09InProgressErr(r.Err) && !nothingToUpgrade {
			fail("C09:loser-failed-with-unexpected-error", fmt.Sprintf("op%d: %v", i, r.Err))
			return taken, false, ""
		}
		for _, e := range r.Events {
			if e.Mutating() {
				fail("C09:loser-sent-mutating-cluster-request", fmt.Sprintf("op%d: %s", i, e.String()))
				return taken, false, ""
			}
			if e.StoreWrite() && e.Code == 0 {
				// not held against the loser: install --replace re-marks the finished (uninstalled) last revision
				// superseded before it tries to create its own - the very write the winner makes too, and the state
				// the record has in the end
				if e.Verb == "Update" && e.Note == "superseded" && c09StatusOf(pre, e.Key) == "uninstalled" && c09StatusOf(post, e.Key) == "superseded" {
					continue
				}
				// nor: history pruning, which runs inside Storage.Create before the record is written, removing
				// revisions that are neither deployed nor pending at that moment (the winner prunes the same ones)
				if e.Verb == "Delete" && c.Ops[i].MaxHistory > 0 {
					if st := statusAt(e.Key, e.Seq); st != "" && st != "deployed" && !strings.HasPrefix(st, "pending") {
						continue
					}
					fail("C09:loser-pruned-a-revision-it-must-not-touch", fmt.Sprintf("op%d: %s", i, e.String()))
					return taken, false, ""
				}
				fail("C09:loser-wrote-release-storage", fmt.Sprintf("op%d: %s", i, e.String()))
				return taken, false, ""
			}
		}
	}
	// windows [record created, last storage write] of different operations must not overlap
	type win struct{ from, to, op int }
	var wins []win
	for i, r := range results {
		if !created[i] {
			continue
		}
		wn := win{op: i}
		for _, e := range r.Events {
			if e.StoreWrite() && e.Code == 0 {
				if wn.from == 0 {
					wn.from = e.Seq
				}
				wn.to = e.Seq
			}
		}
		wins = append(wins, wn)
	}
	for a := 0; a < len(wins); a++ {
		for b := a + 1; b < len(wins); b++ {
			if wins[a].from < wins[b].to && wins[b].from < wins[a].to {
				fail("C09:two-operations-in-progress-at-the-same-time", fmt.Sprintf("op%d holds #%d..#%d, op%d holds #%d..#%d", wins[a].op, wins[a].from, wins[a].to, wins[b].op, wins[b].from, wins[b].to))
				return taken, false, ""
			}
		}
	}
	// final history: ledger invariants, nothing pending
	seen := map[int]bool{}
	for _, r := range post {
		if seen[r.Version] {
			fail("C09:duplicate-revision-in-history", world.HistString(post))
			return taken, false, ""
		}
		seen[r.Version] = true
		if strings.HasPrefix(r.Status, "pending") {
			fail("C09:pending-revision-left-after-all-operations-returned", world.HistString(post))
			return taken, false, ""
		}
	}
	if len(deployedRevs(post)) > 1 {
		fail("C09:two-deployed-revisions", world.HistString(post))
		return taken, false, ""
	}
	// the revisions created during the race (some may have been pruned again under a history limit) are consecutive,
	// and nothing else is new in the final history
	exp := maxRev(pre)
	var newRevs []int
	preSet := revSet(pre)
	createdRev := map[int]bool{}
	for k := range creators {
		var v int
		if i := strings.LastIndex(k, ".v"); i >= 0 {
			fmt.Sscan(k[i+2:], &v)
		}
		createdRev[v] = true
		newRevs = append(newRevs, v)
	}
	for _, r := range post {
		if _, okk := preSet[r.Version]; !okk && !createdRev[r.Version] {
			fail("C09:revision-in-history-that-nobody-created", world.HistString(post))
			return taken, false, ""
		}
	}
	sort.Ints(newRevs)
	for _, v := range newRevs {
		exp++
		if v != exp {
			fail("C09:new-revisions-not-consecutive", world.HistString(post))
			return taken, false, ""
		}
	}
	// non-trivial: some operation's first storage read precedes another operation's last storage write
	first := map[int]int{}
	last := map[int]int{}
	for i, r := range results {
		for _, e := range r.Events {
			if e.Layer == "store" {
				if first[i] == 0 {
					first[i] = e.Seq
				}
				if e.StoreWrite() {
					last[i] = e.Seq
				}
			}
		}
	}
	for i := range results {
		for j := range results {
			if i != j && first[i] != 0 && last[j] != 0 && first[i] < last[j] && first[j] < first[i] {
				nontrivial = true
			}
		}
	}
	outcome = fmt.Sprintf("succeeded:%d/%d", ok, len(results))
	return taken, nontrivial, outcome
}

// c09Preempt3 is the schedule "X runs i calls, Y runs to completion, Z runs j calls, X finishes, Z finishes".
func c09Preempt3(perm []int, i, j int) []int {
	var s []int
	rep := func(id, n int) {
		for k := 0; k < n; k++ {
			s = append(s, id)
		}
	}
	rep(perm[0], i)
	rep(perm[1], 60)
	rep(perm[2], j)
	rep(perm[0], 60)
	rep(perm[2], 60)
	return s
}

// c09StatusOf finds the status of the revision stored under a storage key (sh.helm.release.v1.<name>.v<rev>).
func c09StatusOf(h []world.Rev, key string) string {
	for _, r := range h {
		if strings.HasSuffix(key, fmt.Sprintf(".v%d", r.Version)) {
			return r.Status
		}
	}
	return ""
}

func c09GenCase(t *rapid.T) c09Case {
	c := c09Case{Backend: rapid.SampledFrom([]string{"memory", "secret", "configmap"}).Draw(t, "backend"), Start: rapid.SampledFrom([]string{"empty", "empty", "deployed", "deployed", "deployed-long", "uninstalled-kept"}).Draw(t, "start")}
	n := 2
	if rapid.IntRange(0, 2).Draw(t, "threeOps") == 0 {
		n = 3
	}
	for i := 0; i < n; i++ {
		op := &world.Op{DisableHooks: true, Chart: c09Chart(i+1, rapid.IntRange(0, 3).Draw(t, "variant"))}
		if c.Start == "empty" || c.Start == "uninstalled-kept" {
			op.Kind = "install"
			op.Atomic = rapid.IntRange(0, 3).Draw(t, "atomic") == 0
			op.Replace = c.Start == "uninstalled-kept"
		} else {
			op.Kind = "upgrade"
			op.Atomic = rapid.IntRange(0, 3).Draw(t, "atomic") == 0
			op.CleanupOnFail = rapid.Bool().Draw(t, "cleanup")
			if c.Start == "deployed-long" {
				op.MaxHistory = rapid.SampledFrom([]int{0, 1, 2, 3}).Draw(t, "maxHistory")
			} else {
				op.MaxHistory = rapid.SampledFrom([]int{0, 0, 1, 2}).Draw(t, "maxHistory")
			}
		}
		// one upgrade in five that is not atomic fails in its readiness wait (after it has created its revision): the
		// others are refused while it is in progress and may run once its failure is recorded. (Not drawn for installs
		// with --replace and not with --atomic: what follows such a failure - a purge, an automatic rollback - is a
		// sequence of its own, in which later operations legitimately start over.)
		if op.Kind == "upgrade" && !op.Atomic && rapid.IntRange(0, 4).Draw(t, "readinessWaitFails") == 0 {
			op.Fault = world.Fault{Kind: "wait", K: 0}
		}
		c.Ops = append(c.Ops, op)
	}
	// from an empty history, one case in four: an atomic install whose readiness wait fails (it removes what it created)
	// next to a plain upgrade of the same name, which has nothing to upgrade at any moment
	if c.Start == "empty" && rapid.IntRange(0, 3).Draw(t, "failingAtomicInstallNextToUpgrade") == 0 {
		c.Ops[0].Atomic, c.Ops[0].Fault = true, world.Fault{Kind: "wait", K: 0}
		c.Ops[1].Kind, c.Ops[1].Atomic, c.Ops[1].Fault = "upgrade", false, world.Fault{}
	}
	// the schedule is drawn as segments (operation, number of consecutive calls): single steps give fine interleavings,
	// long segments let one operation run to completion while another is parked in the middle of its own
	if n == 3 && rapid.IntRange(0, 2).Draw(t, "boundedPreemption3") == 0 {
		// X runs i calls, Y runs to completion, Z runs j calls, X finishes, Z finishes (two pre-emptions, three operations)
		perm := rapid.Permutation([]int{0, 1, 2}).Draw(t, "order")
		i, j := rapid.IntRange(0, 10).Draw(t, "xPrefix"), rapid.IntRange(0, 10).Draw(t, "zPrefix")
		c.Schedule = c09Preempt3(perm, i, j)
	} else if rapid.Bool().Draw(t, "segmentedSchedule") {
		for i, ns := 0, rapid.IntRange(0, 8).Draw(t, "nSegments"); i < ns; i++ {
			id := rapid.IntRange(0, n-1).Draw(t, "segmentOp")
			for k, l := 0, rapid.SampledFrom([]int{1, 1, 2, 3, 5, 8, 13, 30}).Draw(t, "segmentLen"); k < l; k++ {
				c.Schedule = append(c.Schedule, id)
			}
		}
	} else {
		c.Schedule = rapid.SliceOfN(rapid.IntRange(0, n-1), 0, 60).Draw(t, "schedule")
	}
	return c
}

func c09Prop(t *rapid.T) {
	c := c09GenCase(t)
	taken, nontrivial, outcome := c09Run(t, c)
	evid.Case([]string{"backend:" + c.Backend, "start:" + c.Start, fmt.Sprintf("ops:%d", len(c.Ops)), outcome}, fmt.Sprintf("%s|%s|%s|%v", c.Backend, c.Start, jsonOf(c.Ops), taken), nontrivial, map[string]interface{}{"backend": c.Backend, "start": c.Start, "ops": len(c.Ops), "schedule": taken, "outcome": outcome})
}

func TestC09(t *testing.T) {
	evid.Extra("rule", "C09: two (a quarter of the cases: three) install operations from an empty history, install --replace operations over an uninstalled release with kept history, or upgrade operations from a deployed history of one or three revisions (with history limits 0-3), on one release name (one non-atomic upgrade in five fails in its readiness wait after creating its revision; from an empty history one case in four is an atomic install whose wait fails next to a plain upgrade), each with its own Configuration, on the memory, Secret and ConfigMap backends; every storage call, cluster request and waiter call of every operation blocks at a gate until a scheduler grants it; the scheduler waits until every unfinished operation is blocked and then lets the operation named by the next element of a rapid-drawn choice list proceed - a deterministic, shrinkable interleaving at exactly the granularity the property names. At quiescence: every storage key was successfully created by exactly one operation; an operation that created no revision failed with an already-exists / in-progress / name-in-use error and sent no mutating cluster request and no successful storage write (except install --replace re-marking the uninstalled last revision superseded, and history pruning of revisions that are neither deployed nor pending at that moment - both things the winner does too); the [first, last storage write] windows of operations that created revisions do not overlap; the final history has unique consecutive new revisions, at most one deployed, nothing pending. Non-trivial = an operation's first storage access lies between another operation's first storage access and its last storage write; distinct by (backend, start, operations, schedule taken).")
	evid.Extra("assumptions", []string{"manifests have one resource per kind and hooks are off, so an operation has one call in flight", "crds/ directories are not used (CRD installation legitimately precedes the record creation)", "the fake clientset's create is atomic; API-server optimistic concurrency is not modelled"})
	rapid.Check(t, c09Prop)
}

// TestC09Exhaustive enumerates ALL schedules with at most two pre-emptions for two operations (A^i B^j A* B*, both
// starting orders), per backend and start state. Reported as exhaustive for that bounded space only.
func TestC09Exhaustive(t *testing.T) {
	evid.Extra("rule", "C09 (bounded-exhaustive part): for two operations, every schedule of the form X^i Y^j X* Y* (at most two pre-emptions, both starting orders, i and j over the whole length of the operations) on each backend and start state (two operations - empty: two installs; deployed: two upgrades; uninstalled with kept history: two install --replace, one of them --atomic; three revisions: two upgrades with history limits 2 and 1). For three upgrades (deployed history of one or three revisions, history limits 1/1/1 and 2/0/1): every schedule of the form X^i Y* Z^j X* Z* for all six assignments of the operations and i, j in 0..8.")
	total := 0
	shard, shards := vt.IntEnv("SHARD_INDEX", 0), vt.IntEnv("SHARD_COUNT", 1)
	if v := os.Getenv("VERIF_SHARDS"); v != "" {
		fmt.Sscan(v, &shards)
		fmt.Sscan(os.Getenv("VERIF_SHARD"), &shard)
	}
	for _, backend := range []string{"memory", "secret", "configmap"} {
		for _, start := range []string{"empty", "deployed", "uninstalled-kept", "deployed-long"} {
			kind := "install"
			if start == "deployed" || start == "deployed-long" {
				kind = "upgrade"
			}
			mk := func() []*world.Op {
				ops := []*world.Op{{Kind: kind, DisableHooks: true, Chart: c09Chart(1, 1)}, {Kind: kind, DisableHooks: true, Chart: c09Chart(2, 2)}}
				for _, o := range ops {
					o.Replace = start == "uninstalled-kept"
					if start == "deployed-long" {
						o.MaxHistory = 2
					}
				}
				ops[1].Atomic = start == "uninstalled-kept"
				if start == "deployed-long" {
					ops[1].MaxHistory = 1
				}
				return ops
			}
			for firstOp := 0; firstOp < 2; firstOp++ {
				for i := 0; i <= 24; i++ {
					if (i*2+firstOp)%shards != shard {
						continue
					}
					for j := 0; j <= 24; j++ {
						// schedule: firstOp for i steps, other for j steps, firstOp until done, other until done
						var sched []int
						for k := 0; k < i; k++ {
							sched = append(sched, firstOp)
						}
						for k := 0; k < j; k++ {
							sched = append(sched, 1-firstOp)
						}
						for k := 0; k < 40; k++ {
							sched = append(sched, firstOp)
						}
						// choices index into the waiting list [0,1] (or [x] when one is done): value v selects waiting[v % len]
						c := c09Case{Backend: backend, Start: start, Ops: mk(), Schedule: sched}
						taken, nontrivial, outcome := c09Run(t, c)
						total++
						evid.Case([]string{"exhaustive:" + backend + ":" + start, outcome}, fmt.Sprintf("%s|%s|%v", backend, start, taken), nontrivial, map[string]interface{}{"backend": backend, "start": start, "schedule": taken, "outcome": outcome})
					}
				}
			}
		}
	}
	total += c09Exhaustive3(t, []string{"memory", "secret", "configmap"}, []string{"deployed", "deployed-long"}, [][]int{{1, 1, 1}, {2, 0, 1}}, shard, shards)
	evid.Extra("bounded_exhaustive_schedules", total)
}

// ------------------------------------------------------------------ data races (run with the -race binary)

// c09Exhaustive3: three upgrades, two pre-emptions - X runs i calls, Y runs to completion, Z runs j calls, X finishes, Z
// finishes - for every assignment of the three operations to X, Y, Z and every i, j in 0..8 (all calls before and just
// after the record is created), with history limits that make pruning run.
func c09Exhaustive3(t *testing.T, backends, starts []string, limitsList [][]int, shard, shards int) (total int) {
	perms := [][]int{{0, 1, 2}, {0, 2, 1}, {1, 0, 2}, {1, 2, 0}, {2, 0, 1}, {2, 1, 0}}
	for bi, backend := range backends {
		for si, start := range starts {
			for li, limits := range limitsList {
				for pi, perm := range perms {
					if (bi*100+si*50+li*10+pi)%shards != shard {
						continue
					}
					for i := 0; i <= 8; i++ {
						for j := 0; j <= 8; j++ {
							ops := []*world.Op{}
							for k := 0; k < 3; k++ {
								ops = append(ops, &world.Op{Kind: "upgrade", DisableHooks: true, Chart: c09Chart(k+1, k), MaxHistory: limits[k]})
							}
							c := c09Case{Backend: backend, Start: start, Ops: ops, Schedule: c09Preempt3(perm, i, j)}
							taken, nontrivial, outcome := c09Run(t, c)
							total++
							evid.Case([]string{"exhaustive3:" + backend + ":" + start, outcome}, fmt.Sprintf("3|%s|%s|%v|%v", backend, start, limits, taken), nontrivial, map[string]interface{}{"backend": backend, "start": start, "limits": limits, "schedule": taken, "outcome": outcome})
						}
					}
				}
			}
		}
	}
	return total
}

// TestC09Preempt3 is the quick-tier slice of the three-operation family: memory backend, one deployed revision, history
// limit 1 for all three upgrades (486 schedules).
func TestC09Preempt3(t *testing.T) {
	evid.Extra("rule", "C09 (bounded-exhaustive, quick slice): three upgrades with history limit 1 from one deployed revision on the memory backend, every schedule X^i Y* Z^j X* Z* (six assignments, i, j in 0..8); and a failing upgrade (readiness wait) next to a plain upgrade on the Secret and ConfigMap backends, every schedule X^i Y* X* (both roles, i in 0..44).")
	shard, shards := 0, 1
	if v := os.Getenv("VERIF_SHARDS"); v != "" {
		fmt.Sscan(v, &shards)
		fmt.Sscan(os.Getenv("VERIF_SHARD"), &shard)
	}
	n := c09Exhaustive3(t, []string{"memory"}, []string{"deployed"}, [][]int{{1, 1, 1}}, shard, shards)
	// ... and an upgrade whose readiness wait fails next to a plain upgrade, on the backends that hand out copies of the
	// records: X runs i calls, Y runs to its end, X finishes (both roles, i over the whole length of an upgrade)
	for _, backend := range []string{"secret", "configmap"} {
		for failing := 0; failing < 2; failing++ {
			for i := 0; i <= 44; i++ {
				if (i+failing)%shards != shard {
					continue
				}
				c := c09Case{Backend: backend, Start: "deployed"}
				for k := 0; k < 2; k++ {
					op := &world.Op{Kind: "upgrade", DisableHooks: true, Chart: c09Chart(k+1, k)}
					if k == 0 {
						op.Fault = world.Fault{Kind: "wait", K: 0}
					}
					c.Ops = append(c.Ops, op)
				}
				x, y := failing, 1-failing
				for k := 0; k < i; k++ {
					c.Schedule = append(c.Schedule, x)
				}
				for k := 0; k < 80; k++ {
					c.Schedule = append(c.Schedule, y)
				}
				c09Run(t, c)
				n++
			}
		}
	}
	evid.Extra("bounded_exhaustive_schedules_quick", n)
}

func c09Release(name string, rev int, status release.Status) *release.Release {
	return &release.Release{Name: name, Namespace: "default", Version: rev, Info: &release.Info{Status: status}, Manifest: "m", Config: map[string]interface{}{"k": "v"}}
}

func c09RaceProp(t *rapid.T) {
	backend := rapid.SampledFrom([]string{"memory", "secret", "configmap"}).Draw(t, "backend")
	b := world.NewBackend(backend)
	st := storage.Init(b.Driver)
	workers := rapid.IntRange(2, 8).Draw(t, "workers")
	type call struct {
		kind string
		name string
		rev  int
	}
	plans := make([][]call, workers)
	for wi := range plans {
		for i, n := 0, rapid.IntRange(5, 40).Draw(t, "calls"); i < n; i++ {
			plans[wi] = append(plans[wi], call{
				kind: rapid.SampledFrom([]string{"create", "get", "update", "delete", "query", "list", "history", "deployed"}).Draw(t, "call"),
				name: rapid.SampledFrom([]string{"r", "s"}).Draw(t, "name"),
				rev:  rapid.IntRange(1, 3).Draw(t, "rev"),
			})
		}
	}
	var wg sync.WaitGroup
	for wi := range plans {
		wg.Add(1)
		go func(wi int) {
			defer wg.Done()
			for _, c := range plans[wi] {
				// every goroutine uses its own release objects and treats results as read-only
				switch c.kind {
				case "create":
					_ = st.Create(c09Release(c.name, c.rev, release.StatusDeployed))
				case "update":
					_ = st.Update(c09Release(c.name, c.rev, release.StatusSuperseded))
				case "get":
					if r, err := st.Get(c.name, c.rev); err == nil {
						_ = r.Info.Status.String()
					}
				case "delete":
					_, _ = st.Delete(c.name, c.rev)
				case "query":
					_, _ = st.Query(map[string]string{"name": c.name, "owner": "helm"})
				case "list":
					_, _ = st.ListReleases()
				case "history":
					if h, err := st.History(c.name); err == nil {
						for _, r := range h {
							_ = r.Version
						}
					}
				case "deployed":
					_, _ = st.Deployed(c.name)
				}
			}
		}(wi)
	}
	wg.Wait()
	n := 0
	for _, p := range plans {
		n += len(p)
	}
	evid.Case([]string{"backend:" + backend, fmt.Sprintf("workers:%d", workers)}, fmt.Sprintf("%s|%v", backend, plans), workers >= 2 && n >= 20, map[string]interface{}{"backend": backend, "workers": workers, "calls": n})
}

func TestC09Race(t *testing.T) {
	evid.Extra("rule", "C09 (data races): 2-8 goroutines issue generated sequences of create/get/update/delete/query/list/history/deployed calls on one shared backend (memory, Secret, ConfigMap), each with its own release objects and treating results as read-only; the binary is built with the Go race detector, any report fails the run. Non-trivial = at least two goroutines and twenty calls.")
	rapid.Check(t, c09RaceProp)
}

// ------------------------------------------------------------------ replay / known

func TestC09_Replay(t *testing.T) {
	p := os.Getenv("VERIF_REPLAY_JSON")
	if p == "" {
		t.Skip("no VERIF_REPLAY_JSON")
	}
	d, err := loadReplayDoc(p)
	if err != nil {
		t.Fatal(err)
	}
	var c c09Case
	if err := json.Unmarshal(d.Case, &c); err != nil {
		t.Fatal(err)
	}
	c09Run(t, c)
}

func TestC09_Known(t *testing.T) {
	for _, e := range knownEntries("C09") {
		d, err := loadReplayDoc(e.Replay)
		var c c09Case
		if err == nil {
			err = json.Unmarshal(d.Case, &c)
		}
		if err != nil {
			fmt.Printf("KNOWN-GONE sig=%s :: replay unreadable: %v\n", e.Signature, err)
			continue
		}
		vt.CheckKnown(e.Signature, e.What, func(tb vt.TB) { c09Run(tb, c) })
	}
}
