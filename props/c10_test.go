package props

// C10 — all storage backends behave as the same faithful key-value store.
// Lock-step state machine: memory, Secret and ConfigMap backends against a reference map.

import (
	"crypto/sha256"
	"encoding/json"
	"errors"
	"fmt"
	"sort"
	"strings"
	"testing"
	"time"

	apierrors "k8s.io/apimachinery/pkg/api/errors"
	"k8s.io/apimachinery/pkg/runtime"
	k8sfake "k8s.io/client-go/kubernetes/fake"
	k8stesting "k8s.io/client-go/testing"
	"pgregory.net/rapid"

	chart "helm.sh/helm/v4/pkg/chart/v2"
	release "helm.sh/helm/v4/pkg/release/v1"
	"helm.sh/helm/v4/pkg/storage"
	"helm.sh/helm/v4/pkg/storage/driver"
	helmtime "helm.sh/helm/v4/pkg/time"

	"verif/internal/evid"
	"verif/internal/vt"
)

var c10Statuses = []release.Status{
	release.StatusUnknown, release.StatusDeployed, release.StatusUninstalled, release.StatusSuperseded, release.StatusFailed,
	release.StatusUninstalling, release.StatusPendingInstall, release.StatusPendingUpgrade, release.StatusPendingRollback,
}

// genReleaseName draws a name from the documented release-name grammar (DNS-1123 subdomain, at most 53 characters),
// biased towards the shapes the key format could confuse: dots, ".v", ".v<digits>", digit-only labels, maximum length.
func genReleaseName() *rapid.Generator[string] {
	special := []string{"a", "a.v1", "x.v", "v1", "1", "a.v1.v2", "b.c", "x-1", "rel.v10", "sh.helm.release.v1.a", "a.v", "v", "a.v1x", "0.v0"}
	label := rapid.StringMatching(`[a-z0-9]([-a-z0-9]{0,6}[a-z0-9])?`)
	return rapid.Custom(func(t *rapid.T) string {
		switch rapid.IntRange(0, 9).Draw(t, "nameKind") {
		case 0, 1, 2, 3:
			return rapid.SampledFrom(special).Draw(t, "special")
		case 4:
			// maximum length, optionally ending in a ".vN" look-alike
			tail := rapid.SampledFrom([]string{"", ".v1", ".v", "-1"}).Draw(t, "tail")
			return strings.Repeat("n", 53-len(tail)) + tail
		default:
			n := rapid.IntRange(1, 4).Draw(t, "labels")
			parts := make([]string, n)
			for i := range parts {
				if rapid.IntRange(0, 3).Draw(t, "vlabel") == 0 {
					parts[i] = rapid.SampledFrom([]string{"v", "v1", "v22", "vx"}).Draw(t, "vl")
				} else {
					parts[i] = label.Draw(t, "label")
				}
			}
			s := strings.Join(parts, ".")
			if len(s) > 53 {
				s = s[:53]
				s = strings.TrimRight(s, ".-")
			}
			return s
		}
	})
}

func genJSONValue(depth int) *rapid.Generator[interface{}] {
	return rapid.Custom(func(t *rapid.T) interface{} {
		k := rapid.IntRange(0, 8).Draw(t, "vk")
		if depth <= 0 && k >= 7 {
			k = 1
		}
		switch k {
		case 0:
			return nil
		case 1:
			return rapid.SampledFrom([]string{"", "x", "é✓", "a\nb", "true", "1", "null", "<&>", " "}).Draw(t, "s")
		case 2:
			return rapid.Int64Range(-(1<<53), 1<<53).Draw(t, "i") // integers a JSON number holds exactly
		case 3:
			return rapid.Bool().Draw(t, "b")
		case 4:
			return rapid.SampledFrom([]float64{0, 1.5, -0.25, 1e21, 3.141592653589793, 1e-7}).Draw(t, "f")
		case 5:
			return rapid.String().Draw(t, "str")
		case 6:
			return []interface{}{}
		case 7:
			n := rapid.IntRange(0, 3).Draw(t, "ln")
			l := make([]interface{}, 0, n)
			for i := 0; i < n; i++ {
				l = append(l, genJSONValue(depth-1).Draw(t, "le"))
			}
			return l
		default:
			return genJSONMap(depth-1).Draw(t, "m")
		}
	})
}

func genJSONMap(depth int) *rapid.Generator[map[string]interface{}] {
	return rapid.Custom(func(t *rapid.T) map[string]interface{} {
		n := rapid.IntRange(0, 3).Draw(t, "mn")
		m := map[string]interface{}{}
		for i := 0; i < n; i++ {
			k := rapid.SampledFrom([]string{"a", "b", "global", "k.dot", "ünï", "", "x y"}).Draw(t, "mk")
			m[k] = genJSONValue(depth).Draw(t, "mv")
		}
		return m
	})
}

func genTime() *rapid.Generator[helmtime.Time] {
	return rapid.Custom(func(t *rapid.T) helmtime.Time {
		switch rapid.IntRange(0, 4).Draw(t, "tk") {
		case 0:
			return helmtime.Time{}
		case 1:
			return helmtime.Unix(rapid.Int64Range(0, 4102444800).Draw(t, "sec"), 0).UTC()
		case 2:
			return helmtime.Unix(rapid.Int64Range(0, 4102444800).Draw(t, "sec"), rapid.Int64Range(0, 999999999).Draw(t, "ns")).UTC()
		default:
			off := rapid.IntRange(-14*60, 14*60).Draw(t, "offMin") * 60
			return helmtime.Unix(rapid.Int64Range(0, 4102444800).Draw(t, "sec"), rapid.Int64Range(0, 999999999).Draw(t, "ns")).In(time.FixedZone("z", off))
		}
	})
}

func genBytes(max int) *rapid.Generator[[]byte] {
	return rapid.Custom(func(t *rapid.T) []byte {
		switch rapid.IntRange(0, 3).Draw(t, "bk") {
		case 0:
			return nil
		case 1:
			return []byte{0, 1, 254, 255, 0xef, 0xbb, 0xbf}
		default:
			return rapid.SliceOfN(rapid.Byte(), 0, max).Draw(t, "bytes")
		}
	})
}

func genManifest() *rapid.Generator[string] {
	return rapid.Custom(func(t *rapid.T) string {
		switch rapid.IntRange(0, 59).Draw(t, "mk") {
		case 0, 3, 4, 7, 8, 9:
			return ""
		case 1:
			// large and compressible (the Secret payload is gzipped): ~1.2 MB, above the 1 MiB object limit when uncompressed
			return strings.Repeat("apiVersion: v1\nkind: ConfigMap\nmetadata:\n  name: é✓\n---\n", 21000)
		case 2, 5, 6, 10, 11, 12:
			return rapid.String().Draw(t, "m")
		default:
			return "---\n# Source: x\napiVersion: v1\nkind: ConfigMap\nmetadata:\n  name: " + rapid.SampledFrom([]string{"a", "b", "ü"}).Draw(t, "n") + "\n"
		}
	})
}

func genLabels() *rapid.Generator[map[string]string] {
	keys := []string{"team", "app.kubernetes.io/part-of", "x", "Name", "owner2", "a-b_c.d"}
	vals := []string{"", "a", "A-b_c.9", "helm", "deployed", "1"}
	return rapid.Custom(func(t *rapid.T) map[string]string {
		n := rapid.IntRange(0, 3).Draw(t, "ln")
		if n == 0 && rapid.Bool().Draw(t, "nilLabels") {
			return nil
		}
		m := map[string]string{}
		for i := 0; i < n; i++ {
			m[rapid.SampledFrom(keys).Draw(t, "lk")] = rapid.SampledFrom(vals).Draw(t, "lv")
		}
		return m
	})
}

func genHook() *rapid.Generator[*release.Hook] {
	events := []release.HookEvent{release.HookPreInstall, release.HookPostInstall, release.HookPreDelete, release.HookPostDelete, release.HookPreUpgrade, release.HookPostUpgrade, release.HookPreRollback, release.HookPostRollback, release.HookTest}
	return rapid.Custom(func(t *rapid.T) *release.Hook {
		return &release.Hook{
			Name:              rapid.SampledFrom([]string{"h", "h2", "ü"}).Draw(t, "hn"),
			Kind:              rapid.SampledFrom([]string{"Job", "Pod", ""}).Draw(t, "hk"),
			Path:              rapid.SampledFrom([]string{"c/templates/h.yaml", ""}).Draw(t, "hp"),
			Manifest:          rapid.SampledFrom([]string{"", "kind: Job\n", "é"}).Draw(t, "hm"),
			Events:            rapid.SliceOfN(rapid.SampledFrom(events), 0, 3).Draw(t, "hev"),
			Weight:            rapid.IntRange(-5, 5).Draw(t, "hw"),
			DeletePolicies:    rapid.SliceOfN(rapid.SampledFrom([]release.HookDeletePolicy{release.HookSucceeded, release.HookFailed, release.HookBeforeHookCreation}), 0, 2).Draw(t, "hdp"),
			OutputLogPolicies: rapid.SliceOfN(rapid.SampledFrom([]release.HookOutputLogPolicy{release.HookOutputOnSucceeded, release.HookOutputOnFailed}), 0, 2).Draw(t, "hop"),
			LastRun: release.HookExecution{
				StartedAt:   genTime().Draw(t, "hs"),
				CompletedAt: genTime().Draw(t, "hc"),
				Phase:       rapid.SampledFrom([]release.HookPhase{release.HookPhaseUnknown, release.HookPhaseRunning, release.HookPhaseSucceeded, release.HookPhaseFailed, ""}).Draw(t, "hph"),
			},
		}
	})
}

func genChart() *rapid.Generator[*chart.Chart] {
	return rapid.Custom(func(t *rapid.T) *chart.Chart {
		if rapid.IntRange(0, 9).Draw(t, "nilChart") == 0 {
			return nil
		}
		c := &chart.Chart{
			Metadata: &chart.Metadata{
				APIVersion:  rapid.SampledFrom([]string{"v1", "v2"}).Draw(t, "api"),
				Name:        rapid.SampledFrom([]string{"c", "chart-é"}).Draw(t, "cn"),
				Version:     rapid.SampledFrom([]string{"1.0.0", "0.1.0-rc.1+b"}).Draw(t, "cv"),
				Description: rapid.SampledFrom([]string{"", "d ✓"}).Draw(t, "cd"),
				Keywords:    rapid.SliceOfN(rapid.SampledFrom([]string{"k", "ü"}), 0, 2).Draw(t, "kw"),
			},
			Values: genJSONMap(2).Draw(t, "cvals"),
			Schema: genBytes(40).Draw(t, "schema"),
		}
		if rapid.Bool().Draw(t, "annot") {
			c.Metadata.Annotations = map[string]string{"a/b": "é"}
		}
		if rapid.Bool().Draw(t, "deps") {
			c.Metadata.Dependencies = []*chart.Dependency{{Name: "d", Version: "^1", Repository: "https://r", Alias: "al", Condition: "d.enabled", Tags: []string{"t"}, ImportValues: []interface{}{"x", map[string]interface{}{"child": "a", "parent": "b"}}}}
		}
		if rapid.Bool().Draw(t, "lock") {
			c.Lock = &chart.Lock{Generated: genTime().Draw(t, "lg").Time, Digest: "sha256:abc", Dependencies: []*chart.Dependency{{Name: "d", Version: "1.2.3", Repository: "https://r"}}}
		}
		for i, n := 0, rapid.IntRange(0, 2).Draw(t, "nt"); i < n; i++ {
			c.Templates = append(c.Templates, &chart.File{Name: fmt.Sprintf("templates/t%d.yaml", i), Data: genBytes(60).Draw(t, "td")})
		}
		for i, n := 0, rapid.IntRange(0, 2).Draw(t, "nf"); i < n; i++ {
			c.Files = append(c.Files, &chart.File{Name: fmt.Sprintf("files/ü%d.bin", i), Data: genBytes(60).Draw(t, "fd")})
		}
		return c
	})
}

func genRelease(name string, rev int) *rapid.Generator[*release.Release] {
	return rapid.Custom(func(t *rapid.T) *release.Release {
		r := &release.Release{
			Name: name, Namespace: "default", Version: rev,
			Info: &release.Info{
				FirstDeployed: genTime().Draw(t, "fd"),
				LastDeployed:  genTime().Draw(t, "ld"),
				Deleted:       genTime().Draw(t, "del"),
				Description:   rapid.SampledFrom([]string{"", "Install complete", "é\n"}).Draw(t, "desc"),
				Status:        rapid.SampledFrom(c10Statuses).Draw(t, "status"),
				Notes:         rapid.SampledFrom([]string{"", "NOTES ✓"}).Draw(t, "notes"),
			},
			Chart:    genChart().Draw(t, "chart"),
			Config:   genJSONMap(3).Draw(t, "config"),
			Manifest: genManifest().Draw(t, "manifest"),
			Labels:   genLabels().Draw(t, "labels"),
		}
		for i, n := 0, rapid.IntRange(0, 2).Draw(t, "nh"); i < n; i++ {
			r.Hooks = append(r.Hooks, genHook().Draw(t, "hook"))
		}
		return r
	})
}

// c10Canon is the comparison form of a release: the JSON text of the record (what the property calls name,
// namespace, revision, status, timestamps, chart, values, manifest, hooks) re-encoded through interface{} so key
// order is canonical, followed by the user labels (returned labels minus the six system keys).
func c10Canon(r *release.Release) string {
	if r == nil {
		return "<nil>"
	}
	cp := *r
	if len(cp.Manifest) > 4096 { // compare large manifests by digest + length
		sum := sha256.Sum256([]byte(cp.Manifest))
		cp.Manifest = fmt.Sprintf("sha256:%x/%d", sum, len(r.Manifest))
	}
	b, err := json.Marshal(&cp)
	if err != nil {
		return "<marshal error: " + err.Error() + ">"
	}
	var v interface{}
	if err := json.Unmarshal(b, &v); err != nil {
		return "<unmarshal error>"
	}
	canonTimes(v)
	b, _ = json.Marshal(v)
	lbl := map[string]string{}
	for k, val := range r.Labels {
		switch k {
		case "name", "owner", "status", "version", "createdAt", "modifiedAt":
		default:
			lbl[k] = val
		}
	}
	lb, _ := json.Marshal(lbl)
	// the timestamps once more, taken from the time values themselves (the JSON form above goes through Helm's own
	// marshalling, which would hide a loss of precision from both sides of the comparison)
	nanos := func(t helmtime.Time) int64 {
		if t.IsZero() {
			return 0
		}
		return t.UnixNano()
	}
	var ts []int64
	if r.Info != nil {
		ts = append(ts, nanos(r.Info.FirstDeployed), nanos(r.Info.LastDeployed), nanos(r.Info.Deleted))
	}
	for _, h := range r.Hooks {
		if h != nil {
			ts = append(ts, nanos(h.LastRun.StartedAt), nanos(h.LastRun.CompletedAt))
		}
	}
	return string(b) + "|labels=" + string(lb) + fmt.Sprintf("|nanos=%v", ts)
}

var c10TimeKeys = map[string]bool{"first_deployed": true, "last_deployed": true, "deleted": true, "started_at": true, "completed_at": true, "generated": true}

// canonTimes rewrites timestamp strings to UTC nanosecond form so that equality is time.Equal, not zone spelling.
func canonTimes(v interface{}) {
	switch x := v.(type) {
	case map[string]interface{}:
		for k, e := range x {
			if s, ok := e.(string); ok && c10TimeKeys[k] && s != "" {
				if tm, err := time.Parse(time.RFC3339Nano, s); err == nil {
					x[k] = tm.UTC().Format(time.RFC3339Nano)
				}
				continue
			}
			canonTimes(e)
		}
	case []interface{}:
		for _, e := range x {
			canonTimes(e)
		}
	}
}

func c10Clone(r *release.Release) *release.Release {
	b, err := json.Marshal(r)
	if err != nil {
		panic(err)
	}
	var c release.Release
	if err := json.Unmarshal(b, &c); err != nil {
		panic(err)
	}
	if r.Labels != nil {
		c.Labels = map[string]string{}
		for k, v := range r.Labels {
			c.Labels[k] = v
		}
	}
	return &c
}

func c10ErrClass(err error) string {
	switch {
	case err == nil:
		return "ok"
	case errors.Is(err, driver.ErrReleaseExists):
		return "exists"
	case errors.Is(err, driver.ErrReleaseNotFound):
		return "notfound"
	default:
		return "err"
	}
}

type c10Key struct {
	name string
	rev  int
}

type c10Backend struct {
	name string
	st   *storage.Storage
}

// c10FailNextCreate, when set, makes the fake API server reject the next create request (500) before it looks at
// anything - an overloaded or timing-out server.
var c10FailNextCreate bool

func c10World() []c10Backend {
	cs := k8sfake.NewSimpleClientset()
	cs.PrependReactor("create", "*", func(k8stesting.Action) (bool, runtime.Object, error) {
		if c10FailNextCreate {
			c10FailNextCreate = false
			return true, nil, apierrors.NewInternalError(errors.New("injected: the server rejected the request"))
		}
		return false, nil, nil
	})
	return []c10Backend{
		{"memory", storage.Init(driver.NewMemory())},
		{"secret", storage.Init(driver.NewSecrets(cs.CoreV1().Secrets("default")))},
		{"configmap", storage.Init(driver.NewConfigMaps(cs.CoreV1().ConfigMaps("default")))},
	}
}

func c10Prop(t *rapid.T) {
	backs := c10World()
	names := rapid.SliceOfNDistinct(genReleaseName(), 2, 4, func(s string) string { return s }).Draw(t, "names")
	model := map[c10Key]string{} // key -> canonical stored release
	modelRel := map[c10Key]*release.Release{}
	var trace []string
	var sawPrecondFail, sawQueryAfterStatusUpdate, statusUpdated, dotName bool
	for _, n := range names {
		if strings.Contains(n, ".") {
			dotName = true
		}
	}
	fail := func(sig, detail string) {
		vt.Violation(t, sig, detail+"\ntrace: "+strings.Join(trace, " ; "), map[string]interface{}{"names": names, "trace": trace})
	}
	// four revision numbers per case, often with different digit counts (v2 / v10 / v100 order differently as numbers
	// and as strings)
	revs := rapid.SliceOfNDistinct(rapid.SampledFrom([]int{1, 2, 3, 4, 9, 10, 11, 12, 20, 99, 100, 101}), 4, 4, func(i int) int { return i }).Draw(t, "revs")
	sort.Ints(revs)
	mixedDigits := len(fmt.Sprint(revs[0])) != len(fmt.Sprint(revs[3]))
	var sawUpdateOfReadBack bool
	drawKey := func(t *rapid.T) c10Key {
		return c10Key{rapid.SampledFrom(names).Draw(t, "name"), rapid.SampledFrom(revs).Draw(t, "rev")}
	}
	matches := func(k c10Key, q map[string]string) bool {
		r := modelRel[k]
		for lk, lv := range q {
			switch lk {
			case "name":
				if r.Name != lv {
					return false
				}
			case "owner":
				if lv != "helm" {
					return false
				}
			case "status":
				if r.Info.Status.String() != lv {
					return false
				}
			case "version":
				if fmt.Sprint(r.Version) != lv {
					return false
				}
			}
		}
		return true
	}
	checkSet := func(op, bn string, got []*release.Release, want []c10Key) {
		var gk, wk []string
		for _, r := range got {
			k := c10Key{r.Name, r.Version}
			gk = append(gk, fmt.Sprintf("%s/%d", r.Name, r.Version))
			if w, ok := model[k]; ok {
				if c := c10Canon(r); c != w {
					fail("C10:"+op+"/returned-release-differs-from-stored/"+bn, fmt.Sprintf("key %v\n got  %.600s\n want %.600s", k, c, w))
				}
			}
		}
		for _, k := range want {
			wk = append(wk, fmt.Sprintf("%s/%d", k.name, k.rev))
		}
		sort.Strings(gk)
		sort.Strings(wk)
		if strings.Join(gk, ",") != strings.Join(wk, ",") {
			fail("C10:"+op+"/result-set-differs/"+bn, fmt.Sprintf("got %v want %v", gk, wk))
		}
	}

	step := 0
	// scan: every backend holds exactly the model's keys with the model's content
	scan := func() {
		var want []c10Key
		for k := range model {
			want = append(want, k)
		}
		for _, b := range backs {
			got, err := b.st.ListReleases()
			if err != nil {
				fail("C10:scan/list-fails/"+b.name, err.Error())
				continue
			}
			checkSet("scan", b.name, got, want)
		}
	}
	t.Repeat(map[string]func(*rapid.T){
		"create": func(t *rapid.T) {
			k := drawKey(t)
			proto := genRelease(k.name, k.rev).Draw(t, "rel")
			_, exists := model[k]
			want := "ok"
			if exists {
				want = "exists"
				sawPrecondFail = true
			}
			trace = append(trace, fmt.Sprintf("create %s/%d status=%s", k.name, k.rev, proto.Info.Status))
			for _, b := range backs {
				got := c10ErrClass(b.st.Create(c10Clone(proto)))
				if got != want {
					fail(fmt.Sprintf("C10:create/want-%s-got-%s/%s", want, got, b.name), fmt.Sprintf("key %v", k))
				}
			}
			if !exists {
				model[k] = c10Canon(proto)
				modelRel[k] = c10Clone(proto)
			}
		},
		"update": func(t *rapid.T) {
			k := drawKey(t)
			proto := genRelease(k.name, k.rev).Draw(t, "rel")
			_, exists := model[k]
			if !exists {
				sawPrecondFail = true
			}
			trace = append(trace, fmt.Sprintf("update %s/%d status=%s", k.name, k.rev, proto.Info.Status))
			for _, b := range backs {
				got := c10ErrClass(b.st.Update(c10Clone(proto)))
				if exists && got != "ok" {
					fail("C10:update/existing-key-fails/"+b.name, fmt.Sprintf("key %v got %s", k, got))
				}
				if !exists && got == "ok" {
					fail("C10:update/missing-key-succeeds/"+b.name, fmt.Sprintf("key %v", k))
				}
			}
			if exists {
				if modelRel[k].Info.Status != proto.Info.Status {
					statusUpdated = true
				}
				model[k] = c10Canon(proto)
				modelRel[k] = c10Clone(proto)
			}
		},
		"createSameAgain": func(t *rapid.T) {
			// the very release that is stored (or one that differs only in its user labels) is created again, as a
			// retried request would: still already-exists, and nothing changes
			if len(model) == 0 {
				t.Skip("nothing stored")
			}
			var ks []c10Key
			for k := range model {
				ks = append(ks, k)
			}
			sort.Slice(ks, func(i, j int) bool {
				return ks[i].name < ks[j].name || (ks[i].name == ks[j].name && ks[i].rev < ks[j].rev)
			})
			k := rapid.SampledFrom(ks).Draw(t, "key")
			again := c10Clone(modelRel[k])
			if rapid.Bool().Draw(t, "otherLabels") {
				again.Labels = map[string]string{"retried": "yes"}
			}
			sawPrecondFail = true
			trace = append(trace, fmt.Sprintf("create-same-again %s/%d", k.name, k.rev))
			for _, b := range backs {
				if got := c10ErrClass(b.st.Create(c10Clone(again))); got != "exists" {
					fail(fmt.Sprintf("C10:create/want-exists-got-%s/%s", got, b.name), fmt.Sprintf("key %v (identical content created again)", k))
				}
			}
		},
		"createRejectedByTheServer": func(t *rapid.T) {
			// a create (of a stored or of a new key) that the API server rejects with an internal error: it fails, and
			// nothing changes - in particular a record already stored under that key stays
			k := drawKey(t)
			proto := genRelease(k.name, k.rev).Draw(t, "rel")
			trace = append(trace, fmt.Sprintf("create-rejected-by-server %s/%d", k.name, k.rev))
			for _, b := range backs {
				if b.name == "memory" {
					continue
				}
				c10FailNextCreate = true
				err := b.st.Create(c10Clone(proto))
				c10FailNextCreate = false
				if err == nil {
					fail("C10:create/succeeds-although-the-server-rejected-it/"+b.name, fmt.Sprintf("key %v", k))
				}
			}
		},
		"updateLabelsOnly": func(t *rapid.T) {
			// an update that changes nothing but the user labels must be stored like any other
			if len(model) == 0 {
				t.Skip("nothing stored")
			}
			var ks []c10Key
			for k := range model {
				ks = append(ks, k)
			}
			sort.Slice(ks, func(i, j int) bool {
				return ks[i].name < ks[j].name || (ks[i].name == ks[j].name && ks[i].rev < ks[j].rev)
			})
			k := rapid.SampledFrom(ks).Draw(t, "key")
			nr := c10Clone(modelRel[k])
			nr.Labels = map[string]string{"relabelled": rapid.SampledFrom([]string{"a", "b", ""}).Draw(t, "labelValue")}
			if rapid.IntRange(0, 3).Draw(t, "noLabels") == 0 {
				nr.Labels = nil
			}
			trace = append(trace, fmt.Sprintf("update-labels-only %s/%d %v", k.name, k.rev, nr.Labels))
			for _, b := range backs {
				if ec := c10ErrClass(b.st.Update(c10Clone(nr))); ec != "ok" {
					fail("C10:update/existing-key-fails/"+b.name, fmt.Sprintf("key %v got %s (labels-only update)", k, ec))
				}
			}
			model[k], modelRel[k] = c10Canon(nr), nr
		},
		"updateReadBack": func(t *rapid.T) {
			// read-modify-write as the actions do it: the release object comes from Query/List/Get of that very backend,
			// only its status changes, and it is written back
			if len(model) == 0 {
				t.Skip("nothing stored")
			}
			var ks []c10Key
			for k := range model {
				ks = append(ks, k)
			}
			sort.Slice(ks, func(i, j int) bool {
				return ks[i].name < ks[j].name || (ks[i].name == ks[j].name && ks[i].rev < ks[j].rev)
			})
			k := rapid.SampledFrom(ks).Draw(t, "key")
			how := rapid.SampledFrom([]string{"query", "list", "get"}).Draw(t, "readBy")
			st := rapid.SampledFrom(c10Statuses).Draw(t, "status")
			trace = append(trace, fmt.Sprintf("update-read-back %s/%d via %s status=%s", k.name, k.rev, how, st))
			for _, b := range backs {
				var got *release.Release
				var err error
				switch how {
				case "query":
					var rs []*release.Release
					rs, err = b.st.Query(map[string]string{"name": k.name, "owner": "helm"})
					for _, r := range rs {
						if r.Version == k.rev {
							got = r
						}
					}
				case "list":
					var rs []*release.Release
					rs, err = b.st.List(func(r *release.Release) bool { return r.Name == k.name && r.Version == k.rev })
					if len(rs) == 1 {
						got = rs[0]
					}
				default:
					got, err = b.st.Get(k.name, k.rev)
				}
				if err != nil || got == nil {
					fail("C10:"+how+"/stored-release-not-returned/"+b.name, fmt.Sprintf("key %v err=%v", k, err))
					continue
				}
				info := *got.Info
				info.Status = st
				got.Info = &info
				if ec := c10ErrClass(b.st.Update(got)); ec != "ok" {
					fail("C10:update/existing-key-fails/"+b.name, fmt.Sprintf("key %v got %s (release as read back via %s)", k, ec, how))
				}
			}
			if modelRel[k].Info.Status != st {
				statusUpdated = true
			}
			nr := c10Clone(modelRel[k])
			nr.Info.Status = st
			model[k], modelRel[k] = c10Canon(nr), nr
			sawUpdateOfReadBack = true
		},
		"get": func(t *rapid.T) {
			k := drawKey(t)
			want, exists := model[k]
			if !exists {
				sawPrecondFail = true
			}
			trace = append(trace, fmt.Sprintf("get %s/%d", k.name, k.rev))
			for _, b := range backs {
				r, err := b.st.Get(k.name, k.rev)
				got := c10ErrClass(err)
				if exists && got != "ok" {
					fail("C10:get/existing-key-fails/"+b.name, fmt.Sprintf("key %v err=%v", k, err))
					continue
				}
				if !exists && got != "notfound" {
					fail("C10:get/missing-key-not-notfound/"+b.name, fmt.Sprintf("key %v got=%s err=%v", k, got, err))
					continue
				}
				if exists {
					if c := c10Canon(r); c != want {
						fail("C10:get/release-differs-from-stored/"+b.name, fmt.Sprintf("key %v\n got  %.600s\n want %.600s", k, c, want))
					}
				}
			}
		},
		"delete": func(t *rapid.T) {
			k := drawKey(t)
			want, exists := model[k]
			if !exists {
				sawPrecondFail = true
			}
			trace = append(trace, fmt.Sprintf("delete %s/%d", k.name, k.rev))
			for _, b := range backs {
				r, err := b.st.Delete(k.name, k.rev)
				got := c10ErrClass(err)
				if exists && got != "ok" {
					fail("C10:delete/existing-key-fails/"+b.name, fmt.Sprintf("key %v err=%v", k, err))
					continue
				}
				if !exists && got != "notfound" {
					fail("C10:delete/missing-key-not-notfound/"+b.name, fmt.Sprintf("key %v got=%s err=%v", k, got, err))
					continue
				}
				if exists {
					if c := c10Canon(r); c != want {
						fail("C10:delete/returned-release-differs-from-stored/"+b.name, fmt.Sprintf("key %v\n got  %.600s\n want %.600s", k, c, want))
					}
				}
			}
			delete(model, k)
			delete(modelRel, k)
		},
		"query": func(t *rapid.T) {
			q := map[string]string{}
			if rapid.Bool().Draw(t, "qName") {
				q["name"] = rapid.SampledFrom(names).Draw(t, "name")
			}
			if rapid.Bool().Draw(t, "qOwner") {
				q["owner"] = "helm"
			}
			if rapid.Bool().Draw(t, "qStatus") {
				q["status"] = rapid.SampledFrom(c10Statuses).Draw(t, "status").String()
			}
			if rapid.Bool().Draw(t, "qVersion") {
				q["version"] = fmt.Sprint(rapid.SampledFrom(revs).Draw(t, "rev"))
			}
			var want []c10Key
			for k := range model {
				if matches(k, q) {
					want = append(want, k)
				}
			}
			qs, _ := json.Marshal(q)
			trace = append(trace, "query "+string(qs))
			if _, ok := q["status"]; ok && statusUpdated {
				sawQueryAfterStatusUpdate = true
			}
			for _, b := range backs {
				got, err := b.st.Query(q)
				ec := c10ErrClass(err)
				if len(want) == 0 {
					if ec != "notfound" || len(got) != 0 {
						fail("C10:query/empty-match-not-notfound/"+b.name, fmt.Sprintf("q=%s err=%v n=%d", qs, err, len(got)))
					}
					continue
				}
				if ec != "ok" {
					fail("C10:query/fails-with-matches/"+b.name, fmt.Sprintf("q=%s err=%v", qs, err))
					continue
				}
				checkSet("query", b.name, got, want)
			}
		},
		"list": func(t *rapid.T) {
			st := rapid.SampledFrom(c10Statuses).Draw(t, "status")
			all := rapid.Bool().Draw(t, "all")
			var want []c10Key
			for k, r := range modelRel {
				if all || r.Info.Status == st {
					want = append(want, k)
				}
			}
			trace = append(trace, fmt.Sprintf("list all=%v status=%s", all, st))
			for _, b := range backs {
				got, err := b.st.List(func(r *release.Release) bool { return all || r.Info.Status == st })
				if err != nil {
					fail("C10:list/fails/"+b.name, fmt.Sprintf("err=%v", err))
					continue
				}
				checkSet("list", b.name, got, want)
			}
		},
		"storageViews": func(t *rapid.T) {
			// the derived read paths of storage.Storage: History, Last, Deployed
			n := rapid.SampledFrom(names).Draw(t, "name")
			var hist []c10Key
			last := 0
			for k := range model {
				if k.name == n {
					hist = append(hist, k)
					if k.rev > last {
						last = k.rev
					}
				}
			}
			trace = append(trace, "history/last "+n)
			for _, b := range backs {
				h, err := b.st.History(n)
				if len(hist) == 0 {
					if c10ErrClass(err) != "notfound" {
						fail("C10:history/empty-not-notfound/"+b.name, fmt.Sprintf("name=%s err=%v n=%d", n, err, len(h)))
					}
				} else if err != nil {
					fail("C10:history/fails/"+b.name, fmt.Sprintf("name=%s err=%v", n, err))
				} else {
					checkSet("history", b.name, h, hist)
				}
				l, err := b.st.Last(n)
				if len(hist) == 0 {
					if err == nil {
						fail("C10:last/empty-history-succeeds/"+b.name, "name="+n)
					}
				} else if err != nil || l.Version != last {
					fail("C10:last/not-highest-revision/"+b.name, fmt.Sprintf("name=%s err=%v want=%d", n, err, last))
				}
			}
		},
		"": func(t *rapid.T) {
			// full scan every 5th step (and once more at the end of the sequence)
			step++
			if step%5 == 0 {
				scan()
			}
		},
	})
	scan()
	lbls := []string{}
	if sawPrecondFail {
		lbls = append(lbls, "failing-precondition-call")
	}
	if sawQueryAfterStatusUpdate {
		lbls = append(lbls, "status-query-after-status-update")
	}
	if dotName {
		lbls = append(lbls, "dotted-name")
	}
	if mixedDigits {
		lbls = append(lbls, "revisions-with-different-digit-counts")
	}
	if sawUpdateOfReadBack {
		lbls = append(lbls, "update-of-a-release-as-read-back")
	}
	nontrivial := (sawPrecondFail && sawQueryAfterStatusUpdate) || dotName
	evid.Case(lbls, strings.Join(names, ",")+"|"+strings.Join(trace, ";"), nontrivial, map[string]interface{}{"names": names, "calls": trace})
}

func TestC10(t *testing.T) {
	evid.Extra("rule", "C10: rapid state machine of create/update/get/delete/query/list/history/last calls with generated releases over 2-4 generated release names x four revision numbers drawn from 1..101 (often with different digit counts), including creates that the API server rejects (which must fail and change nothing), updates that write back a release object exactly as Query/List/Get of that backend returned it with only the status changed, re-creation of a stored release with identical content, and updates that change nothing but the user labels, run in lock-step on the memory, Secret and ConfigMap backends and a reference map; after every call error classes, returned releases and result sets are compared (the canonical form of a release carries the nanoseconds of every timestamp, computed without Helm's JSON encoder), followed by a full scan. Non-trivial = the sequence contains a call whose precondition fails (create existing / get, update, delete missing) and a status query after a status-changing update, or uses a release name containing a dot; distinct by (names, call sequence).")
	evid.Extra("assumptions", []string{
		"Secret/ConfigMap backends run over client-go's fake clientset (no real API server, no size limit of 1 MiB per object enforced)",
		"integers in values are limited to |n| <= 2^53 (the record format is JSON; larger integers are not representable)",
		"SQL backend not covered (needs a database)",
		"single namespace 'default'",
	})
	rapid.Check(t, c10Prop)
}
