package props

// C12 — hooks run in weight order, gate the operation, and honour delete policies.

import (
	"fmt"
	"regexp"
	"sort"
	"strings"
	"testing"

	"pgregory.net/rapid"

	"verif/internal/evid"
	"verif/internal/vt"
	"verif/internal/world"
)

var c12EventsOf = map[string][2]string{
	"install":   {"pre-install", "post-install"},
	"upgrade":   {"pre-upgrade", "post-upgrade"},
	"rollback":  {"pre-rollback", "post-rollback"},
	"uninstall": {"pre-delete", "post-delete"},
}

// c12GenHooks draws 0..5 hooks; object names are a shuffled subset of h0..h9 so that name order, template order
// and weight order all differ.
func c12GenHooks(t *rapid.T) []world.HookSpec {
	n := rapid.IntRange(0, 5).Draw(t, "nHooks")
	ids := rapid.SliceOfNDistinct(rapid.IntRange(0, 9), n, n, func(i int) int { return i }).Draw(t, "hookIds")
	var hs []world.HookSpec
	for _, id := range ids {
		ev := rapid.SliceOfNDistinct(rapid.SampledFrom(wgHookEvents), 1, 4, func(s string) string { return s }).Draw(t, "hookEvents")
		sort.Strings(ev)
		h := world.HookSpec{
			Name:   fmt.Sprintf("h%d", id),
			Kind:   rapid.SampledFrom([]string{"ConfigMap", "Pod", "Job", "Secret"}).Draw(t, "hookKind"),
			Events: ev,
		}
		if rapid.IntRange(0, 3).Draw(t, "hasWeight") > 0 {
			h.HasWeight = true
			h.Weight = rapid.IntRange(-5, 5).Draw(t, "weight")
			if rapid.Bool().Draw(t, "tieWeight") {
				h.Weight = rapid.SampledFrom([]int{-1, 0, 0, 3}).Draw(t, "tieW")
			}
		}
		h.Policies = rapid.SampledFrom([][]string{
			nil, nil, {"before-hook-creation"}, {"hook-succeeded"}, {"hook-failed"},
			{"hook-succeeded", "hook-failed"}, {"before-hook-creation", "hook-succeeded"}, {"before-hook-creation", "hook-failed"},
			{"before-hook-creation", "hook-succeeded", "hook-failed"},
		}).Draw(t, "policies")
		h.Spaced = len(h.Policies) > 0 && rapid.IntRange(0, 3).Draw(t, "policiesWrittenWithBlanks") == 0
		hs = append(hs, h)
	}
	return hs
}

func hasPolicy(h world.HookSpec, p string) bool {
	if len(h.Policies) == 0 {
		return p == "before-hook-creation" // documented default
	}
	for _, x := range h.Policies {
		if x == p {
			return true
		}
	}
	return false
}

func hooksFor(hs []world.HookSpec, event string) []world.HookSpec {
	var out []world.HookSpec
	for _, h := range hs {
		for _, e := range h.Events {
			if e == event {
				out = append(out, h)
				break
			}
		}
	}
	sort.SliceStable(out, func(i, j int) bool {
		wi, wj := 0, 0
		if out[i].HasWeight {
			wi = out[i].Weight
		}
		if out[j].HasWeight {
			wj = out[j].Weight
		}
		if wi != wj {
			return wi < wj
		}
		return out[i].Name < out[j].Name
	})
	return out
}

// c12Model is the reference for one lifecycle event: which hooks get created in which order, whether the event fails,
// and which hook objects exist afterwards.
type c12Model struct {
	exists map[string]bool // hook object path -> exists
}

type c12Expect struct {
	posts  []string // hook object paths in creation order (including a create that is rejected)
	failed bool
	why    string
}

func (m *c12Model) runEvent(hooks []world.HookSpec, failName string, failUsed *bool) c12Expect {
	var ex c12Expect
	for i, h := range hooks {
		p := h.Path()
		if hasPolicy(h, "before-hook-creation") {
			m.exists[p] = false
		}
		ex.posts = append(ex.posts, p)
		if m.exists[p] {
			ex.failed, ex.why = true, "leftover object of "+h.Name+" without before-hook-creation: create is rejected"
			return ex
		}
		m.exists[p] = true
		if h.Name == failName && !*failUsed {
			*failUsed = true
			ex.failed, ex.why = true, "hook "+h.Name+" fails"
			if hasPolicy(h, "hook-failed") {
				m.exists[p] = false
			}
			for _, prev := range hooks[:i] {
				if hasPolicy(prev, "hook-succeeded") {
					m.exists[prev.Path()] = false
				}
			}
			return ex
		}
	}
	for _, h := range hooks {
		if hasPolicy(h, "hook-succeeded") {
			m.exists[h.Path()] = false
		}
	}
	return ex
}

type c12Judge struct {
	t     vt.TB
	w     *world.World
	ops   []*world.Op
	trace []string
	*revTracker
}

func (j *c12Judge) fail(sig, detail string) bool {
	return vt.Violation(j.t, sig, detail+"\n   "+traceOf(j.trace), map[string]interface{}{"backend": j.w.Backend.Kind, "ops": j.ops, "trace": j.trace})
}

var hookInManifestRe = regexp.MustCompile(`(?m)^\s*name: h\d+\s*$`)

// judge compares what the operation did about hooks with the reference. preExists = hook object existence before the op.
func (j *c12Judge) judge(op *world.Op, res *world.Result, preExists map[string]bool) (cut bool, info c12Info) {
	defer j.observe(op, res)
	// which hook set applies
	var hooks []world.HookSpec
	applicable := true
	switch op.Kind {
	case "install", "upgrade":
		hooks = op.Chart.Hooks
	case "rollback":
		tv := op.Target
		if tv == 0 {
			tv = maxRev(res.Pre) - 1
		}
		s, ok := j.specOf[tv]
		if _, exists := revSet(res.Pre)[tv]; !ok || !exists {
			applicable = false
		}
		hooks = s.Hooks
	case "uninstall":
		if len(res.Pre) == 0 {
			applicable = false
		} else if s, ok := j.specOf[res.Pre[len(res.Pre)-1].Version]; ok {
			hooks = s.Hooks
			if res.Pre[len(res.Pre)-1].Status == "uninstalled" {
				applicable = false // purge-only call
			}
		} else {
			applicable = false
		}
	}
	hs := fmt.Sprintf("pre %s post %s", world.HistString(res.Pre), world.HistString(res.Post))
	ctx := op.Kind

	// hook resources are never part of a release manifest
	for _, r := range res.Post {
		if hookInManifestRe.MatchString(r.Manifest) {
			return j.fail("C12:hook-object-in-release-manifest/"+ctx, fmt.Sprintf("revision %d manifest names a hook object; %s", r.Version, hs)), info
		}
	}
	// split the operation's hook-related calls into the pre-event and post-event segments
	var pre, post []world.Event
	marker := false
	var resourceWrites []world.Event
	for _, e := range res.Events {
		isMarker := e.Layer == "wait" && (e.Verb == "Wait" || e.Verb == "WaitWithJobs" || (op.Kind == "uninstall" && e.Verb == "WaitForDelete" && !isHookKey(e.Key)))
		if isMarker {
			marker = true
			continue
		}
		hookRelated := (e.Layer == "kube" && isHookKey(e.Key)) || (e.Layer == "wait" && isHookKey(e.Key))
		if !hookRelated {
			if e.Mutating() && !e.Injected {
				resourceWrites = append(resourceWrites, e)
			}
			continue
		}
		if marker {
			post = append(post, e)
		} else {
			pre = append(pre, e)
		}
	}
	if op.DisableHooks {
		for _, e := range append(pre, post...) {
			if e.Layer == "kube" && e.Verb == "POST" {
				return j.fail("C12:hook-created-although-hooks-disabled/"+ctx, e.String()+"; "+hs), info
			}
		}
		return false, info
	}
	if !applicable || op.Atomic {
		return false, info
	}
	// did the operation get as far as running hooks at all? (it may be refused earlier: name in use, no such revision ...)
	reached := false
	for _, e := range res.Events {
		if e.StoreWrite() || (e.Layer == "kube" && isHookKey(e.Key)) {
			reached = true
		}
	}
	if !reached {
		return false, info
	}
	failName := ""
	if op.Fault.Kind == "waitmatch" {
		failName = op.Fault.Path
	}
	failUsed := false
	m := &c12Model{exists: map[string]bool{}}
	for k, v := range preExists {
		m.exists[k] = v
	}
	evs := c12EventsOf[op.Kind]
	byPath := map[string]world.HookSpec{}
	for _, h := range hooks {
		byPath[h.Path()] = h
	}
	check := func(event string, seg []world.Event, hooksE []world.HookSpec, ex c12Expect) (bool, bool) {
		var posts []string
		for _, e := range seg {
			if e.Layer == "kube" && e.Verb == "POST" {
				posts = append(posts, e.Key)
			}
		}
		if strings.Join(posts, " ") != strings.Join(ex.posts, " ") {
			return true, j.fail("C12:hooks-created-in-wrong-order-or-number/"+event, fmt.Sprintf("%s: created %v, expected %v (ascending weight, ties by name; stop at first failure); %s", event, posts, ex.posts, hs))
		}
		// each hook is created only after the previous one completed; before-hook-creation delete precedes the create
		lastPost := -1
		for idx, e := range seg {
			if !(e.Layer == "kube" && e.Verb == "POST") {
				continue
			}
			h := byPath[e.Key]
			if lastPost >= 0 {
				prev := seg[lastPost]
				done := false
				for _, x := range seg[lastPost+1 : idx] {
					if x.Layer == "wait" && x.Verb == "WatchUntilReady" && x.Code == 0 && strings.Contains(x.Key, "/"+byPath[prev.Key].Name+"]") {
						done = true
					}
				}
				if !done {
					return true, j.fail("C12:hook-created-before-previous-hook-completed/"+event, fmt.Sprintf("%s created before %s completed; %s", e.Key, prev.Key, hs))
				}
			}
			deletedFirst := false
			for _, x := range seg[lastPost+1 : idx] {
				if x.Layer == "kube" && x.Verb == "DELETE" && x.Key == e.Key {
					deletedFirst = true
				}
			}
			if deletedFirst != hasPolicy(h, "before-hook-creation") {
				return true, j.fail("C12:before-hook-creation-policy-not-honoured/"+event, fmt.Sprintf("%s policies %v: delete-before-create=%v; %s", h.Name, h.Policies, deletedFirst, hs))
			}
			lastPost = idx
		}
		return false, false
	}
	exPre := m.runEvent(hooksFor(hooks, evs[0]), failName, &failUsed)
	info.hooksPre = len(exPre.posts)
	if stop, cut := check(evs[0], pre, hooksFor(hooks, evs[0]), exPre); stop {
		return cut, info
	}
	if exPre.failed {
		info.failed = true
		if res.Err == nil {
			return j.fail("C12:pre-hook-failed-but-operation-succeeded/"+ctx, exPre.why+"; "+hs), info
		}
		if len(resourceWrites) > 0 {
			return j.fail("C12:release-resource-written-although-pre-hook-failed/"+ctx, resourceWrites[0].String()+"; "+exPre.why+"; "+hs), info
		}
		for _, e := range post {
			if e.Layer == "kube" && e.Verb == "POST" {
				return j.fail("C12:later-hook-ran-after-pre-hook-failure/"+ctx, e.String()+"; "+hs), info
			}
		}
	} else {
		if !marker {
			// the operation failed between the events for a reason outside this property (not generated here)
			return false, info
		}
		exPost := m.runEvent(hooksFor(hooks, evs[1]), failName, &failUsed)
		info.hooksPost = len(exPost.posts)
		if stop, cut := check(evs[1], post, hooksFor(hooks, evs[1]), exPost); stop {
			return cut, info
		}
		if exPost.failed {
			info.failed = true
			if res.Err == nil {
				return j.fail("C12:post-hook-failed-but-operation-succeeded/"+ctx, exPost.why+"; "+hs), info
			}
		} else if res.Err != nil && !res.Fired {
			// no hook failed and no fault: an error here is not about hooks (e.g. rollback "no X with the name found")
			return false, info
		}
	}
	// hook objects exist afterwards exactly as policy and outcome say
	keys := make([]string, 0, len(m.exists))
	for k := range m.exists {
		keys = append(keys, k)
	}
	sort.Strings(keys)
	// an object whose deletion the cluster itself rejected may stay (the second injected fault): not judged - everything
	// else, in particular the clean-up of the hooks that succeeded before, still is
	rejectedDelete := map[string]bool{}
	for _, e := range res.Events {
		if e.Layer == "kube" && e.Verb == "DELETE" && e.Injected {
			rejectedDelete[e.Key] = true
		}
	}
	for _, p := range keys {
		live := j.w.Cluster.Get(p) != nil
		if rejectedDelete[p] {
			continue
		}
		if live != m.exists[p] {
			h := byPath[p]
			return j.fail("C12:hook-object-existence-contradicts-delete-policy/"+ctx, fmt.Sprintf("%s policies %v: exists=%v, expected %v; %s", p, h.Policies, live, m.exists[p], hs)), info
		}
	}
	return false, info
}

type c12Info struct {
	hooksPre, hooksPost int
	failed              bool
}

func c12HookExistence(w *world.World) map[string]bool {
	out := map[string]bool{}
	for _, p := range w.Cluster.Paths() {
		if isHookKey(p) {
			out[p] = true
		}
	}
	return out
}

func c12Line(op *world.Op, res *world.Result) string {
	line := fmt.Sprintf("%s => err=%v fired=%v %s", op.Describe(), res.Err != nil, res.Fired, world.HistString(res.Post))
	if len(op.Chart.Hooks) > 0 {
		var hs []string
		for _, h := range op.Chart.Hooks {
			w := ""
			if h.HasWeight {
				w = fmt.Sprintf("w%d", h.Weight)
			}
			hs = append(hs, fmt.Sprintf("%s/%s%s%v%v", h.Kind, h.Name, w, h.Events, h.Policies))
		}
		line += " hooks{" + strings.Join(hs, " ") + "}"
	}
	if res.Err != nil {
		line += fmt.Sprintf("  (%.140s)", res.Err.Error())
	}
	return line
}

func c12RunCase(tb vt.TB, backend string, ops []*world.Op) {
	w := world.New(backend)
	j := &c12Judge{t: tb, w: w, revTracker: newRevTracker()}
	for _, op := range ops {
		j.ops = append(j.ops, op)
		pre := c12HookExistence(w)
		res := w.Run(op)
		j.trace = append(j.trace, c12Line(op, res))
		if cut, _ := j.judge(op, res, pre); cut {
			return
		}
	}
}

func c12Prop(t *rapid.T) {
	backend := rapid.SampledFrom([]string{"memory", "secret"}).Draw(t, "backend")
	w := world.New(backend)
	j := &c12Judge{t: t, w: w, revTracker: newRevTracker()}
	maxOps := 5
	if vt.Thorough() {
		maxOps = 8
	}
	nops := rapid.IntRange(1, maxOps).Draw(t, "nops")
	lbl := map[string]bool{}
	var fp []string
	nontrivial := false
	for i := 0; i < nops; i++ {
		kinds := []string{"upgrade", "upgrade", "rollback", "uninstall", "install"}
		if len(w.History()) == 0 {
			kinds = []string{"install"}
		}
		op := &world.Op{Kind: rapid.SampledFrom(kinds).Draw(t, "op")}
		op.DisableHooks = rapid.IntRange(0, 7).Draw(t, "noHooks") == 0
		switch op.Kind {
		case "install":
			op.Replace = len(w.History()) > 0
		case "rollback":
			op.Target = rapid.IntRange(0, 3).Draw(t, "target")
		case "uninstall":
			op.KeepHistory = rapid.Bool().Draw(t, "keepHistory")
		}
		var cand []world.HookSpec
		if op.Kind == "install" || op.Kind == "upgrade" {
			op.Chart = world.ChartSpec{Version: i + 1, Resources: genResources(t, 2, nil), Hooks: c12GenHooks(t)}
			cand = op.Chart.Hooks
		} else {
			// hooks of any stored revision may be the ones that run
			for _, s := range j.specOf {
				cand = append(cand, s.Hooks...)
			}
			sort.Slice(cand, func(a, b int) bool { return cand[a].Name < cand[b].Name })
		}
		// upgrade --atomic whose readiness wait fails: the internal rollback must honour "hooks disabled" too
		// (with hooks enabled the rollback's own hooks are outside this check's model: only the disabled clause is judged)
		if op.Kind == "upgrade" && rapid.IntRange(0, 4).Draw(t, "atomicUpgrade") == 0 {
			op.Atomic = true
			op.DisableHooks = rapid.Bool().Draw(t, "atomicNoHooks")
			if rapid.IntRange(0, 2).Draw(t, "atomicFails") > 0 {
				op.Fault = world.Fault{Kind: "wait", K: 0}
			}
			lbl["atomic-upgrade"] = true
		} else if len(cand) > 0 && rapid.IntRange(0, 2).Draw(t, "failAHook") == 0 {
			fh := cand[rapid.IntRange(0, len(cand)-1).Draw(t, "failWhich")]
			op.Fault = world.Fault{Kind: "waitmatch", Verb: "WatchUntilReady", Path: fh.Name}
			// ... and the deletion of the failed hook (policy hook-failed) is rejected by the cluster as well: the hooks
			// that succeeded before it must still be cleaned up
			if hasPolicy(fh, "hook-failed") && rapid.Bool().Draw(t, "deleteOfFailedHookRejected") {
				op.Also = world.Fault{Kind: "kubematch", Verb: "DELETE", Path: fh.Path(), Code: 500}
				lbl["delete-of-failed-hook-rejected"] = true
			}
		}
		j.ops = append(j.ops, op)
		pre := c12HookExistence(w)
		leftover := len(pre) > 0
		res := w.Run(op)
		j.trace = append(j.trace, c12Line(op, res))
		fp = append(fp, c12Line(op, res))
		cut, info := j.judge(op, res, pre)
		if info.hooksPre >= 2 || info.hooksPost >= 2 {
			lbl["two-or-more-hooks-in-one-event"] = true
			nontrivial = true
		}
		if info.failed {
			lbl["hook-failed:"+op.Kind] = true
			nontrivial = true
		}
		if leftover && (info.hooksPre+info.hooksPost) > 0 {
			lbl["leftover-hook-object-present"] = true
			nontrivial = true
		}
		lbl["op:"+op.Kind] = true
		if cut {
			lbl["cut-at-known-finding"] = true
			break
		}
	}
	var lbls []string
	for k := range lbl {
		lbls = append(lbls, k)
	}
	sort.Strings(lbls)
	evid.Case(lbls, backend+"|"+strings.Join(fp, ";"), nontrivial, map[string]interface{}{"backend": backend, "history": j.trace})
}

func TestC12(t *testing.T) {
	evid.Extra("rule", "C12: rapid-generated histories (1..5 operations quick, 1..8 thorough) of install/upgrade/rollback/uninstall whose charts carry 0-5 hooks (object names a shuffled subset of h0..h9, kinds ConfigMap/Pod/Job/Secret, 1-4 of the 8 lifecycle events, weights -5..5 with forced ties or absent, every delete-policy combination or none, one list in four written with blanks around the commas); in a third of the operations the completion wait of one chosen hook fails; one upgrade in five runs with --atomic (hooks on or off) and a failing readiness wait, where only 'hooks disabled => no hook object is created, also not by the internal rollback' is judged. From the global order of cluster requests and waiter calls the check compares with a reference model of the documented semantics: creation order per event (ascending weight, ties by name, stop at the first failure), each create after the previous hook completed, delete-before-create iff before-hook-creation (default when no policy), existence of every hook object afterwards per policy and outcome (including 409 on a leftover without before-hook-creation), pre-hook failure => error, no write to a release resource and no later hook, post-hook failure => error, no hook object in any stored manifest, no hook created with hooks disabled. Non-trivial = an event with at least two hooks, or a failing hook, or a leftover hook object present when hooks run; distinct by the full history with hook sets.")
	evid.Extra("assumptions", []string{"hook completion is a scripted waiter outcome (WatchUntilReady)", "atomic / cleanup-on-fail are off here (C03)", "hook log output policies and CRD hooks are not generated"})
	rapid.Check(t, c12Prop)
}

func TestC12_Known(t *testing.T)  { runKnownWorldCases(t, "C12", c12RunCase) }
func TestC12_Replay(t *testing.T) { replayWorldCase(t, c12RunCase) }
