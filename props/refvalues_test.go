package props

// Reference models for values handling, written from the property statements and Helm's user documentation
// (never by calling the functions under test): --set path assignment, layered merge, chart-tree coalescing.

import (
	"encoding/json"
	"fmt"
	"sort"
	"strings"

	chart "helm.sh/helm/v4/pkg/chart/v2"
)

// ---------- --set style path assignment ----------

type pathSeg struct {
	Key string `json:"k,omitempty"`
	Idx int    `json:"i"` // -1 => key segment
}

type assignment struct {
	Path []pathSeg   `json:"path"`
	Val  interface{} `json:"val"` // string | int64/float64 | bool | nil | []interface{} | map
	Lit  string      `json:"lit"` // how the value is written on the command line
}

// refAssign sets root[path] = val, creating missing containers. It reports false when the path runs through an existing
// value of the wrong shape (scalar, null or the other container kind) - an ill-typed assignment whose outcome the
// documentation does not define.
func refAssign(root map[string]interface{}, path []pathSeg, val interface{}) bool {
	var set func(c interface{}, present bool, p []pathSeg) (interface{}, bool)
	set = func(c interface{}, present bool, p []pathSeg) (interface{}, bool) {
		if len(p) == 0 {
			return val, true
		}
		s := p[0]
		if s.Idx < 0 {
			var m map[string]interface{}
			if !present {
				m = map[string]interface{}{}
			} else {
				var ok bool
				if m, ok = c.(map[string]interface{}); !ok {
					return nil, false
				}
			}
			child, has := m[s.Key]
			nv, ok := set(child, has, p[1:])
			if !ok {
				return nil, false
			}
			m[s.Key] = nv
			return m, true
		}
		var l []interface{}
		if present {
			var ok bool
			if l, ok = c.([]interface{}); !ok {
				return nil, false
			}
		}
		for len(l) <= s.Idx {
			l = append(l, nil)
		}
		child := l[s.Idx]
		nv, ok := set(child, child != nil, p[1:])
		if !ok {
			return nil, false
		}
		l[s.Idx] = nv
		return l, true
	}
	_, ok := set(root, true, path)
	return ok
}

func escapeRunes(s, special string) string {
	var sb strings.Builder
	for _, r := range s {
		if strings.ContainsRune(special, r) || r == '\\' {
			sb.WriteByte('\\')
		}
		sb.WriteRune(r)
	}
	return sb.String()
}

// printPath renders a path in --set syntax with the documented escaping.
func printPath(p []pathSeg, escape bool) string {
	var sb strings.Builder
	for j, s := range p {
		if s.Idx >= 0 {
			fmt.Fprintf(&sb, "[%d]", s.Idx)
			continue
		}
		if j > 0 {
			sb.WriteByte('.')
		}
		if escape {
			sb.WriteString(escapeRunes(s.Key, ".,=["))
		} else {
			sb.WriteString(s.Key)
		}
	}
	return sb.String()
}

// ---------- layered merge (values files, JSON objects) ----------

// refLayer overlays hi on lo: tables merge key by key, everything else (scalar, list, null) replaces.
func refLayer(hi, lo map[string]interface{}) map[string]interface{} {
	out := map[string]interface{}{}
	for k, v := range lo {
		out[k] = deepCopyVal(v)
	}
	for k, v := range hi {
		if vm, ok := v.(map[string]interface{}); ok {
			if bm, ok := out[k].(map[string]interface{}); ok {
				out[k] = refLayer(vm, bm)
				continue
			}
		}
		out[k] = deepCopyVal(v)
	}
	return out
}

// canonJSON is the comparison form of a value tree (numbers by their decimal text, keys sorted).
func canonJSON(v interface{}) string {
	b, err := json.Marshal(v)
	if err != nil {
		return fmt.Sprintf("<unencodable %v>", err)
	}
	var o interface{}
	dec := json.NewDecoder(strings.NewReader(string(b)))
	dec.UseNumber()
	if err := dec.Decode(&o); err != nil {
		return string(b)
	}
	b, _ = json.Marshal(o)
	return string(b)
}

// ---------- chart-tree coalescing ----------

// refChart is the generator's structured description of a chart tree.
type refChart struct {
	Name     string                 `json:"name"`           // name the chart is loaded under (alias if any)
	Defaults map[string]interface{} `json:"defaults"`       // values.yaml
	Deps     []*refChart            `json:"deps,omitempty"` // enabled subcharts
	Schema   string                 `json:"schema,omitempty"`
}

// refScope computes the values chart c sees, given what its parent passes down for it (user values for the root).
// Precedence: passed-down values > the chart's own defaults; tables merge; globals of the parent scope override the
// chart's own globals and flow to every descendant. Nulls are carried as values and removed at the end (prune): a
// null from a higher-precedence source removes the default.
func refScope(c *refChart, passed map[string]interface{}) map[string]interface{} {
	merged := refLayer(passed, c.Defaults)
	for _, d := range c.Deps {
		sec, _ := merged[d.Name].(map[string]interface{})
		sub := map[string]interface{}{}
		for k, v := range sec {
			sub[k] = deepCopyVal(v)
		}
		pg, _ := merged["global"].(map[string]interface{})
		sg, _ := sub["global"].(map[string]interface{})
		if pg != nil || sg != nil {
			if pg == nil {
				pg = map[string]interface{}{}
			}
			if sg == nil {
				sg = map[string]interface{}{}
			}
			// the descendant's own default globals sit below both
			dg, _ := d.Defaults["global"].(map[string]interface{})
			if dg == nil {
				dg = map[string]interface{}{}
			}
			sub["global"] = refLayer(pg, refLayer(sg, dg))
		}
		merged[d.Name] = refScope(d, sub)
	}
	return merged
}

// pruneNulls removes null entries and tables that are empty after pruning: what a template can observe.
func pruneNulls(v interface{}) interface{} {
	switch x := v.(type) {
	case map[string]interface{}:
		o := map[string]interface{}{}
		for k, e := range x {
			if e == nil {
				continue
			}
			pe := pruneNulls(e)
			if pm, ok := pe.(map[string]interface{}); ok && len(pm) == 0 {
				continue
			}
			o[k] = pe
		}
		return o
	}
	return v
}

// buildChart constructs the real chart tree for a refChart (values deep-copied).
func (c *refChart) buildChart(extraTemplates func(rc *refChart) []*chart.File) *chart.Chart {
	ch := &chart.Chart{Metadata: &chart.Metadata{APIVersion: "v2", Name: c.Name, Version: "1.0.0"}, Values: deepCopyVal(c.Defaults).(map[string]interface{})}
	if c.Schema != "" {
		ch.Schema = []byte(c.Schema)
	}
	if extraTemplates != nil {
		ch.Templates = extraTemplates(c)
	}
	for _, d := range c.Deps {
		ch.AddDependency(d.buildChart(extraTemplates))
	}
	return ch
}

func sortedKeys(m map[string]interface{}) []string {
	ks := make([]string, 0, len(m))
	for k := range m {
		ks = append(ks, k)
	}
	sort.Strings(ks)
	return ks
}
