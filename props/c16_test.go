package props

// C16 — file-writing operations never escape their directory or exceed size limits.
//
//   TestC16A  adversarial tar+gzip streams x pre-planted destination layouts through loader.LoadArchiveFiles,
//             loader.LoadArchive, chartutil.Expand / ExpandFile, installer.TarGzExtractor.Extract and action.Pull
//             (served from a loopback HTTP server); oracle = snapshot of a sandbox tree before/after the call.
//   TestC16B  lazily generated archives against lowered MaxDecompressedChartSize / MaxDecompressedFileSize;
//             oracle = independent size model + count of decompressed bytes the loader pulled.
//   TestC16C  downloader.Manager.Update/Build on chart directories with a symlink planted at the lock file.
//   FuzzC16Expand / FuzzC16Extract  native fuzz targets: bytes -> structured case -> same judge as TestC16A.

import (
	"bytes"
	"encoding/json"
	"fmt"
	"io"
	"log"
	"log/slog"
	"net/http"
	"net/http/httptest"
	"net/url"
	"os"
	"path"
	"path/filepath"
	"regexp"
	"sort"
	"strings"
	"sync"
	"testing"

	"pgregory.net/rapid"

	"helm.sh/helm/v4/pkg/action"
	chart "helm.sh/helm/v4/pkg/chart/v2"
	"helm.sh/helm/v4/pkg/chart/v2/loader"
	chartutil "helm.sh/helm/v4/pkg/chart/v2/util"
	"helm.sh/helm/v4/pkg/cli"
	"helm.sh/helm/v4/pkg/downloader"
	"helm.sh/helm/v4/pkg/getter"
	"helm.sh/helm/v4/pkg/plugin/installer"

	"verif/internal/evid"
	"verif/internal/vt"
)

func init() {
	// silence "found symbolic link in path" and friends
	log.SetOutput(io.Discard)
	slog.SetDefault(slog.New(slog.NewTextHandler(io.Discard, nil)))
}

// ---- sandbox ---------------------------------------------------------------------------------------------------

// c16Box is the sandbox of one case:
//
//	root/rootcanary  root/mid/midcanary  root/mid/dest/ (the destination)  root/outside/{canary,sub/canary2}
//	root/tmp (TMPDIR while action.Pull runs)  root/home (helm repository config/cache for Pull)
type c16Box struct{ root, dest, outside string }

const c16AbsEscape = "/tmp/c16-abs-escape"

func c16NewBox(tb vt.TB) *c16Box {
	root, err := os.MkdirTemp("", "c16-")
	if err != nil {
		tb.Fatalf("c16 sandbox: %v", err)
	}
	if r, err := filepath.EvalSymlinks(root); err == nil {
		root = r
	}
	b := &c16Box{root: root, dest: filepath.Join(root, "mid", "dest"), outside: filepath.Join(root, "outside")}
	for _, d := range []string{"mid/dest", "outside/sub", "tmp", "home"} {
		if err := os.MkdirAll(filepath.Join(root, d), 0o755); err != nil {
			tb.Fatalf("c16 sandbox: %v", err)
		}
	}
	for _, f := range []string{"rootcanary", "mid/midcanary", "outside/canary", "outside/sub/canary2"} {
		if err := os.WriteFile(filepath.Join(root, f), []byte("canary:"+f+"\n"), 0o644); err != nil {
			tb.Fatalf("c16 sandbox: %v", err)
		}
	}
	return b
}

func (b *c16Box) cleanup() {
	// a case may have created unreadable directories
	_ = filepath.WalkDir(b.root, func(p string, d os.DirEntry, err error) error {
		if err == nil && d.IsDir() {
			_ = os.Chmod(p, 0o755)
		}
		return nil
	})
	_ = os.RemoveAll(b.root)
}

func (b *c16Box) subst(s string) string {
	if !strings.Contains(s, "$") {
		return s
	}
	s = strings.ReplaceAll(s, "$ROOT", b.root)
	s = strings.ReplaceAll(s, "$OUT", b.outside)
	s = strings.ReplaceAll(s, "$DEST", b.dest)
	return s
}

// ---- case A: archives ------------------------------------------------------------------------------------------

type c16Plant struct {
	Path   string `json:"path"` // relative to dest; unclean paths are ignored
	Kind   string `json:"kind"` // dir | file | symlink
	Target string `json:"target,omitempty"`
}

type c16Mut struct {
	Off int  `json:"off"`
	Xor byte `json:"xor"`
}

type c16ACase struct {
	Target   string     `json:"target"` // loadfiles | load | expand | expandfile | extract | pull | plugin-install
	Plants   []c16Plant `json:"plants,omitempty"`
	Entries  []c16Entry `json:"entries"`
	NoEnd    bool       `json:"no_end,omitempty"`
	Muts     []c16Mut   `json:"muts,omitempty"` // byte flips on the tar stream (offset modulo length)
	FixSums  bool       `json:"fix_sums,omitempty"`
	Split    int        `json:"split,omitempty"`    // two gzip members, cut at this tar offset
	Trailer  c16S       `json:"trailer,omitempty"`  // raw bytes after the gzip stream
	Truncate int        `json:"truncate,omitempty"` // bytes dropped from the end of the tar stream
	URLPath  string     `json:"url_path,omitempty"` // pull, plugin-install: path the archive is served at
	Untar    bool       `json:"untar,omitempty"`    // pull
	UntarDir string     `json:"untar_dir,omitempty"`
	// ViaRepo (pull): the chart is named as myrepo/c16chart; repositories.yaml lists myrepo and its cached index lists
	// the chart with the absolute URL <server><URLPath> (a hostile or careless index)
	ViaRepo bool `json:"via_repo,omitempty"`
}

var c16DriveAbs = regexp.MustCompile(`^[A-Za-z]:[/\\]`)
var c16DriveRel = regexp.MustCompile(`^[A-Za-z]:`)

// c16NameProblem is the oracle for "clean relative path" (independent of the loader's own checks).
func c16NameProblem(n string) string {
	switch {
	case n == "" || n == ".":
		return "empty"
	case strings.HasPrefix(n, "/"):
		return "absolute"
	case strings.Contains(n, "\\"):
		return "backslash"
	case c16DriveAbs.MatchString(n):
		return "drive-absolute"
	}
	for _, c := range strings.Split(n, "/") {
		if c == ".." {
			return "dotdot"
		}
	}
	if path.Clean(n) != n {
		return "not-clean"
	}
	return ""
}

func c16HostileName(n string) bool {
	if len(n) > 100 || strings.HasPrefix(n, "/") || strings.Contains(n, "\\") || c16DriveRel.MatchString(n) || strings.Contains(n, "\x00") {
		return true
	}
	for _, c := range strings.Split(n, "/") {
		if c == ".." {
			return true
		}
	}
	return false
}

func c16ChartNames(c *chart.Chart, prefix string, out *[]string) {
	if c == nil {
		return
	}
	for _, f := range c.Raw {
		*out = append(*out, f.Name)
	}
	for _, f := range c.Templates {
		*out = append(*out, f.Name)
	}
	for _, f := range c.Files {
		*out = append(*out, f.Name)
	}
	for _, d := range c.Dependencies() {
		c16ChartNames(d, prefix+"/"+d.Name(), out)
	}
}

var (
	c16SrvOnce sync.Once
	c16Srv     *httptest.Server
	c16SrvMu   sync.Mutex
	c16SrvBody []byte
)

func c16Server() *httptest.Server {
	c16SrvOnce.Do(func() {
		c16Srv = httptest.NewServer(http.HandlerFunc(func(w http.ResponseWriter, _ *http.Request) {
			c16SrvMu.Lock()
			b := c16SrvBody
			c16SrvMu.Unlock()
			w.Header().Set("Content-Type", "application/gzip")
			_, _ = w.Write(b)
		}))
	})
	return c16Srv
}

// c16PlainFileName reports whether the last segment of a URL path names a file (what a download may be saved as).
func c16PlainFileName(urlPath string) bool {
	p, err := url.PathUnescape(urlPath)
	if err != nil {
		p = urlPath
	}
	if strings.HasSuffix(p, "/") {
		return false
	}
	seg := p[strings.LastIndex(p, "/")+1:]
	return seg != "" && seg != "." && seg != ".."
}

// c16Setenv sets (or, for "", unsets) environment variables and returns the function restoring the previous state.
func c16Setenv(kv map[string]string) func() {
	type old struct {
		v  string
		ok bool
	}
	prev := map[string]old{}
	for k, v := range kv {
		o, ok := os.LookupEnv(k)
		prev[k] = old{o, ok}
		if v == "" {
			os.Unsetenv(k)
		} else {
			os.Setenv(k, v)
		}
	}
	return func() {
		for k, o := range prev {
			if o.ok {
				os.Setenv(k, o.v)
			} else {
				os.Unsetenv(k)
			}
		}
	}
}

func c16Call(fn func() error) (err error) {
	defer func() {
		if r := recover(); r != nil {
			evid.Note("C16: panic inside the call under test (counted as a failing call)")
			err = fmt.Errorf("panic: %v", r)
		}
	}()
	return fn()
}

type c16Verdict struct {
	labels     []string
	nontrivial bool
}

// c16JudgeA executes one archive case in a fresh sandbox and judges it.
func c16JudgeA(tb vt.TB, c *c16ACase) c16Verdict {
	box := c16NewBox(tb)
	defer box.cleanup()
	replay := map[string]interface{}{"kind": "A", "a": c}
	lbl := map[string]bool{"target:" + c.Target: true}

	// planted destination layout
	for _, p := range c.Plants {
		if p.Path == "" || path.Clean(p.Path) != p.Path || strings.HasPrefix(p.Path, "/") || p.Path == ".." || strings.HasPrefix(p.Path, "../") {
			continue
		}
		if c.Target == "plugin-install" && !strings.HasPrefix(p.Path, "data/plugins/") {
			// cache/data homes and their plugins/ subdirectories are infrastructure chosen by the user (people do link them elsewhere)
			continue
		}
		if c.Target == "pull" && p.Kind == "symlink" {
			// the directory Pull is told to untar into (dest/<untar_dir>) is part of the caller's choice: a link
			// planted there (or above it) makes the link target the chosen destination, which is not a case for this check
			ud := strings.TrimPrefix(c.UntarDir, "$DEST/")
			if ud == p.Path || strings.HasPrefix(ud, p.Path+"/") {
				continue
			}
		}
		// the harness itself must not write through a link planted earlier: parents are created one real
		// directory at a time and nothing is planted on top of an existing path
		full := box.dest
		parts := strings.Split(p.Path, "/")
		usable := true
		for i, part := range parts {
			full = filepath.Join(full, part)
			fi, lerr := os.Lstat(full)
			if i == len(parts)-1 {
				usable = lerr != nil
				break
			}
			if lerr != nil {
				if os.Mkdir(full, 0o755) != nil {
					usable = false
					break
				}
			} else if !fi.IsDir() {
				usable = false
				break
			}
		}
		if !usable {
			continue
		}
		switch p.Kind {
		case "dir":
			_ = os.MkdirAll(full, 0o755)
		case "file":
			_ = os.WriteFile(full, []byte("planted\n"), 0o644)
		case "symlink":
			if os.Symlink(box.subst(p.Target), full) == nil {
				lbl["planted-symlink"] = true
			}
		}
	}

	// the stream
	tarBytes, hdrs := c16Tar(c.Entries, box.subst, !c.NoEnd)
	if c.Truncate > 0 && c.Truncate < len(tarBytes) {
		tarBytes = tarBytes[:len(tarBytes)-c.Truncate]
		lbl["truncated"] = true
	}
	if len(c.Muts) > 0 && len(tarBytes) > 0 {
		lbl["mutated"] = true
		for _, m := range c.Muts {
			off := m.Off % len(tarBytes)
			if off < 0 {
				off = -off
			}
			tarBytes[off] ^= m.Xor
		}
		if c.FixSums {
			for _, h := range hdrs {
				if h+512 <= len(tarBytes) {
					c16Checksum(tarBytes[h : h+512])
				}
			}
		}
	}
	gz := c16Gzip(tarBytes, c.Split, []byte(c.Trailer))
	for i := range c.Entries {
		e := &c.Entries[i]
		if c16HostileName(box.subst(string(e.Name))) {
			lbl["hostile-name"] = true
		}
		if tf := e.typeflag(); tf == '1' || tf == '2' {
			lbl["link-entry"] = true
		}
		if e.Nested != nil {
			lbl["nested-archive"] = true
		}
		if e.Enc == "gnu" || e.Enc == "pax" {
			lbl["long-name-encoding"] = true
		}
	}

	absExisted := false
	if _, err := os.Lstat(c16AbsEscape); err == nil {
		absExisted = true
	}
	archivePath := filepath.Join(box.root, "tmp", "in.tgz")
	if c.Target == "expandfile" {
		_ = os.WriteFile(archivePath, gz, 0o644)
	}
	before := c16Snapshot(box.root, "mid/dest", "tmp", "home")

	var names []string
	var err error
	allowed := []string{"tmp", "home"}
	sigCtx := c.Target
	switch c.Target {
	case "loadfiles":
		err = c16Call(func() error {
			files, e := loader.LoadArchiveFiles(bytes.NewReader(gz))
			for _, f := range files {
				names = append(names, f.Name)
			}
			return e
		})
	case "load":
		err = c16Call(func() error {
			ch, e := loader.LoadArchive(bytes.NewReader(gz))
			if e == nil {
				c16ChartNames(ch, "", &names)
			}
			return e
		})
	case "expand":
		allowed = append(allowed, "mid/dest")
		err = c16Call(func() error { return chartutil.Expand(box.dest, bytes.NewReader(gz)) })
	case "expandfile":
		allowed = append(allowed, "mid/dest")
		sigCtx = "expand"
		err = c16Call(func() error { return chartutil.ExpandFile(box.dest, archivePath) })
	case "extract":
		allowed = append(allowed, "mid/dest")
		sigCtx = "plugin-extract"
		err = c16Call(func() error { return (&installer.TarGzExtractor{}).Extract(bytes.NewBuffer(gz), box.dest) })
	case "plugin-install":
		// HTTPInstaller: download, Extract into <cache home>/plugins/<key>, copy to <data home>/plugins/<name>; both homes live under dest
		allowed = append(allowed, "mid/dest")
		srv := c16Server()
		c16SrvMu.Lock()
		c16SrvBody = gz
		c16SrvMu.Unlock()
		restore := c16Setenv(map[string]string{
			"TMPDIR": filepath.Join(box.root, "tmp"), "HELM_CACHE_HOME": filepath.Join(box.dest, "cache"),
			"HELM_DATA_HOME": filepath.Join(box.dest, "data"), "HELM_CONFIG_HOME": filepath.Join(box.dest, "config"), "HELM_PLUGINS": "",
		})
		err = c16Call(func() error {
			inst, e := installer.NewHTTPInstaller(srv.URL + c.URLPath)
			if e != nil {
				return e
			}
			return inst.Install()
		})
		restore()
	case "pull":
		allowed = append(allowed, "mid/dest")
		sigCtx = "pull-untar"
		if !c16PlainFileName(c.URLPath) {
			sigCtx = "pull-download-name-not-a-file-name"
			lbl["pull-odd-download-name"] = true
		}
		srv := c16Server()
		c16SrvMu.Lock()
		c16SrvBody = gz
		c16SrvMu.Unlock()
		home := filepath.Join(box.root, "home")
		restore := c16Setenv(map[string]string{"TMPDIR": filepath.Join(box.root, "tmp"), "HELM_CACHE_HOME": home, "HELM_CONFIG_HOME": home, "HELM_DATA_HOME": home, "HELM_PLUGINS": ""})
		st := cli.New()
		st.RepositoryConfig = filepath.Join(box.root, "home", "repositories.yaml")
		st.RepositoryCache = filepath.Join(box.root, "home", "cache")
		st.PluginsDirectory = filepath.Join(box.root, "home", "plugins")
		p := action.NewPull(action.WithConfig(&action.Configuration{}))
		p.Settings = st
		p.DestDir = box.dest
		p.Untar = c.Untar
		p.UntarDir = box.subst(c.UntarDir)
		if c.Untar {
			lbl["pull-untar"] = true
		}
		ref := srv.URL + c.URLPath
		if c.ViaRepo {
			lbl["pull-by-repository-name"] = true
			_ = os.MkdirAll(st.RepositoryCache, 0o755)
			_ = os.WriteFile(st.RepositoryConfig, []byte("apiVersion: \"\"\ngenerated: \"0001-01-01T00:00:00Z\"\nrepositories:\n- name: myrepo\n  url: "+srv.URL+"\n"), 0o644)
			idx, _ := json.Marshal(map[string]interface{}{"apiVersion": "v1", "generated": "2020-01-01T00:00:00Z", "entries": map[string]interface{}{
				"c16chart": []interface{}{map[string]interface{}{"apiVersion": "v2", "name": "c16chart", "version": "1.0.0", "urls": []string{srv.URL + c.URLPath}}}}})
			_ = os.WriteFile(filepath.Join(st.RepositoryCache, "myrepo-index.yaml"), idx, 0o644)
			ref = "myrepo/c16chart"
		}
		err = c16Call(func() error { _, e := p.Run(ref); return e })
		restore()
	default:
		tb.Fatalf("c16: unknown target %q", c.Target)
	}
	after := c16Snapshot(box.root, "mid/dest", "tmp", "home")
	if err == nil {
		lbl["call-ok"] = true
		lbl["ok:"+c.Target] = true
	} else {
		lbl["call-failed"] = true
	}

	hostile := lbl["hostile-name"] || lbl["link-entry"] || lbl["planted-symlink"] || lbl["pull-odd-download-name"]
	if !hostile {
		lbl["benign"] = true
	}
	verdict := func() c16Verdict {
		if err == nil {
			for _, l := range []string{"hostile-name", "link-entry", "planted-symlink"} {
				if lbl[l] {
					lbl["call-ok+"+l] = true
				}
			}
		}
		if lbl["planted-symlink"] && lbl["wrote-in-dest"] {
			lbl["planted-symlink+wrote-in-dest"] = true
		}
		var ls []string
		for l := range lbl {
			ls = append(ls, l)
		}
		sort.Strings(ls)
		return c16Verdict{labels: ls, nontrivial: hostile}
	}

	// oracle 1: nothing outside the destination changed (whether or not the call failed)
	var escaped []string
	for _, rel := range c16Diff(before, after) {
		ok := false
		for _, a := range allowed {
			if c16Under(rel, a) {
				ok = true
			}
		}
		if ok {
			if c16Under(rel, "mid/dest") && rel != "mid/dest" {
				lbl["wrote-in-dest"] = true
			}
			continue
		}
		escaped = append(escaped, fmt.Sprintf("%s: %q -> %q", rel, before[rel], after[rel]))
	}
	if !absExisted {
		if _, e := os.Lstat(c16AbsEscape); e == nil {
			escaped = append(escaped, c16AbsEscape+" was created")
			_ = os.RemoveAll(c16AbsEscape)
		}
	}
	if len(escaped) > 0 {
		what := "change-outside-destination"
		if c.Target == "load" || c.Target == "loadfiles" {
			what = "loader-changed-files"
		}
		if vt.Violation(tb, "C16:"+what+"/"+sigCtx,
			fmt.Sprintf("target=%s err=%v\npaths outside the destination that changed:\n  %s", c.Target, err, strings.Join(escaped, "\n  ")), replay) {
			return verdict()
		}
	}

	// oracle 2: every exposed file name is a clean relative path
	if err == nil {
		for _, n := range names {
			if prob := c16NameProblem(n); prob != "" {
				if vt.Violation(tb, "C16:exposed-file-name-not-clean-relative/"+prob, fmt.Sprintf("target=%s exposed name %q", c.Target, n), replay) {
					return verdict()
				}
			}
			if c16DriveRel.MatchString(n) {
				evid.Note("C16: exposed name starts with a drive-relative prefix like 'C:x' (clean and relative on this platform; not judged)")
			}
		}
		if len(names) > 0 {
			lbl["names-exposed"] = true
		}
	}
	return verdict()
}

// ---- generator for case A ---------------------------------------------------------------------------------------

var (
	c16Benign  = []string{"templates", "a", "x", "values.yaml", "charts", "lnk", "f.txt", "crds", "canary"}
	c16Hostile = []string{"..", "..", "..", ".", "", "C:", "c:", "..a", "a..", "...", "ü", "b c", "outside", "canary", "mid", "$OUT", "\x00x", "\xff\xfe", strings.Repeat("n", 120), ". .", "..\u2215", " .."}
	c16Prefix  = []string{"", "", "/", "mychart/", "mychart/", "mychart\\", "c:\\", "C:/", "\\\\", "$OUT/", "$ROOT/mid/", "//", "./", "mychart/../", "../../outside/", "../../../outside/", "mychart/../../../outside/", "..\\..\\outside\\", "mychart\\..\\..\\..\\outside\\", "/tmp/c16-abs-escape/", "mychart//", "mychart/./"}
	c16Links   = []string{"$OUT", "$OUT/canary", "../../outside", "../../../outside/canary", "..", "/", "x", "$ROOT/rootcanary", "../../outside/sub", "mychart/values.yaml", "/tmp/c16-abs-escape"}
	c16ChartNm = []string{"mychart", "mychart", "mychart", "mychart", "mychart", "..", "../outside", "../../outside", ".", "a/b", "/abs", "$OUT", "$OUT/pwn", "lnk", "mychart/../..", "", "C:\\x", "..\\..\\outside", "/tmp/c16-abs-escape", "lnk/x"}
	c16PlantAt = []string{"mychart", "mychart/templates", "mychart/values.yaml", "mychart/Chart.yaml", "lnk", "a", "mychart/charts", "mychart/a", "templates", "x", "mychart/lnk", "sub", "sub/mychart", "mychart/x", "plugin.yaml", "outside", "abs"}
	c16PlantTo = []string{"$OUT", "$OUT", "$OUT/canary", "$OUT/missing", "REL/outside", "REL/outside/canary", "REL/outside/sub", "REL/rootcanary", "..", "/", "$ROOT/rootcanary", "$DEST", ".", "$ROOT/mid", "/tmp/c16-abs-escape"}
	c16URLs    = []string{"/charts/mychart-1.0.0.tgz", "/charts/mychart-1.0.0.tgz", "/charts/mychart-1.0.0.tgz", "/charts/mychart-1.0.0.tgz", "/mychart", "/", "/..", "/a/%2e%2e", "/x/..%2f..%2fy.tgz", "/x/..%2f..%2f..%2foutside%2fy.tgz", "/x/..%2f..%2fy.tgz", "/a%5c..%5cb.tgz", "/.", "/a/", "/%2e%2e/", "//", "/a/..%2f", "/x/%2e"}
)

func c16ChartYAML(name string) string {
	return fmt.Sprintf("apiVersion: v2\nname: %q\nversion: 1.0.0\n", name)
}

func c16GenName(t *rapid.T, hostile bool, last string) string {
	if !hostile {
		n := rapid.IntRange(1, 3).Draw(t, "nc")
		parts := []string{"mychart"}
		if rapid.IntRange(0, 9).Draw(t, "top") == 0 {
			parts = nil
		}
		for i := 0; i < n; i++ {
			parts = append(parts, rapid.SampledFrom(c16Benign).Draw(t, "comp"))
		}
		return strings.Join(parts, "/")
	}
	if last != "" && rapid.IntRange(0, 2).Draw(t, "viaLink") == 0 {
		return last + rapid.SampledFrom([]string{"/pwned", "/canary", "\\pwned", "/sub/canary2"}).Draw(t, "tail")
	}
	if rapid.IntRange(0, 2).Draw(t, "singleFeature") == 0 {
		// one hostile feature only: a hostile prefix (or one hostile component) in an otherwise benign name
		a, b := rapid.SampledFrom(c16Benign).Draw(t, "comp"), rapid.SampledFrom(c16Benign).Draw(t, "comp")
		switch rapid.IntRange(0, 3).Draw(t, "feature") {
		case 0:
			return "mychart/" + a + "/" + rapid.SampledFrom(c16Hostile).Draw(t, "comp") + "/" + b
		case 1:
			return "mychart/" + rapid.SampledFrom([]string{"c:/", "C:/", "/", "\\", "..\\", "../", "./", "c:\\", "a\\", "$OUT/", "a/../../../../outside/", "a\\..\\..\\..\\..\\outside\\"}).Draw(t, "inner") + a
		default:
			return rapid.SampledFrom(c16Prefix[2:]).Draw(t, "prefix") + a + "/" + b
		}
	}
	n := rapid.IntRange(1, 5).Draw(t, "nc")
	var sb strings.Builder
	sb.WriteString(rapid.SampledFrom(c16Prefix).Draw(t, "prefix"))
	for i := 0; i < n; i++ {
		if i > 0 {
			sb.WriteString(rapid.SampledFrom([]string{"/", "/", "/", "\\"}).Draw(t, "sep"))
		}
		if rapid.IntRange(0, 2).Draw(t, "hostileComp") == 0 {
			sb.WriteString(rapid.SampledFrom(c16Benign).Draw(t, "comp"))
		} else {
			sb.WriteString(rapid.SampledFrom(c16Hostile).Draw(t, "comp"))
		}
	}
	if rapid.IntRange(0, 3).Draw(t, "endCanary") == 0 {
		sb.WriteString(rapid.SampledFrom([]string{"/canary", "/pwned", "\\canary"}).Draw(t, "end"))
	}
	return sb.String()
}

// c16GenEntries draws 1..max members. style 0 = all benign, 1 = exactly one hostile member among benign ones (so that
// a single missing check lets the whole archive through), 2 = every member hostile.
func c16GenEntries(t *rapid.T, style int, top string, max int) []c16Entry {
	var es []c16Entry
	lastLink := ""
	n := rapid.IntRange(1, max).Draw(t, "ne")
	theOne := -1
	if style == 1 {
		theOne = rapid.IntRange(0, n-1).Draw(t, "hostileIdx")
	}
	for i := 0; i < n; i++ {
		hostile := style == 2 || i == theOne
		e := c16Entry{Body: c16S(fmt.Sprintf("PWNED-%d\n", i))}
		e.Name = c16S(c16GenName(t, hostile, lastLink))
		if top != "mychart" && strings.HasPrefix(string(e.Name), "mychart/") {
			e.Name = c16S(top + strings.TrimPrefix(string(e.Name), "mychart"))
		}
		tk := rapid.IntRange(0, 19).Draw(t, "type")
		switch {
		case tk < 9:
			e.Type = "0"
		case tk < 10:
			e.Type = ""
		case tk < 12:
			e.Type = "5"
			e.Body = ""
		case tk < 15 && hostile:
			e.Type = "2"
		case tk < 17 && hostile:
			e.Type = "1"
		case tk < 18 && hostile:
			e.Type = rapid.SampledFrom([]string{"3", "4", "6", "7", "g", "Z", "S"}).Draw(t, "oddType")
		default:
			e.Type = "0"
		}
		if e.Type == "1" || e.Type == "2" {
			e.Link = c16S(rapid.SampledFrom(c16Links).Draw(t, "link"))
			e.Body = ""
			lastLink = string(e.Name)
		}
		if e.Type == "S" {
			e.RealSize = int64(len(e.Body)) + int64(rapid.IntRange(0, 2000).Draw(t, "hole"))
		}
		e.Enc = rapid.SampledFrom([]string{"", "", "", "", "gnu", "pax", "v7"}).Draw(t, "enc")
		if rapid.IntRange(0, 24).Draw(t, "mode") == 0 {
			e.Mode = rapid.SampledFrom([]int64{0, 0o4755, 0o777, 0o200, 0o7777}).Draw(t, "modeV")
		}
		if hostile && rapid.IntRange(0, 29).Draw(t, "sizeLie") == 0 {
			v := int64(rapid.IntRange(0, 1200).Draw(t, "decl"))
			e.DeclSize = &v
		}
		es = append(es, e)
	}
	return es
}

// c16WithDirs inserts a directory member for every not yet announced ancestor of the members with an ordinary
// name, the way real plugin tarballs are laid out (TarGzExtractor.Extract does not create parents on its own).
func c16WithDirs(es []c16Entry, plants []c16Plant) []c16Entry {
	seen := map[string]bool{}
	for _, p := range plants {
		// the author of a hostile archive knows the layout: no directory member where something is already planted
		seen[p.Path] = true
	}
	var out []c16Entry
	for _, e := range es {
		n := string(e.Name)
		if c16NameProblem(strings.TrimSuffix(n, "/")) == "" && !strings.ContainsAny(n, "$:") {
			parts := strings.Split(strings.TrimSuffix(n, "/"), "/")
			for i := 1; i < len(parts); i++ {
				d := strings.Join(parts[:i], "/")
				if !seen[d] {
					seen[d] = true
					out = append(out, c16Entry{Name: c16S(d + "/"), Type: "5", Mode: 0o755})
				}
			}
			if e.typeflag() == '5' {
				if seen[strings.TrimSuffix(n, "/")] {
					continue
				}
				seen[strings.TrimSuffix(n, "/")] = true
			}
		}
		out = append(out, e)
	}
	return out
}

func c16GenA(t *rapid.T) *c16ACase {
	c := &c16ACase{}
	c.Target = rapid.SampledFrom([]string{"extract", "expand", "loadfiles", "pull", "load", "extract", "expand", "loadfiles", "pull", "extract", "expand",
		"load", "plugin-install", "extract", "expand", "expandfile", "loadfiles", "pull", "load", "plugin-install"}).Draw(t, "target")
	style := []int{0, 0, 1, 1, 1, 1, 2, 2, 2, 1}[rapid.IntRange(0, 9).Draw(t, "style")]
	chartName := "mychart"
	if rapid.IntRange(0, 3).Draw(t, "oddChartName") == 0 {
		chartName = rapid.SampledFrom(c16ChartNm).Draw(t, "chartName")
	}
	top := "mychart"
	if rapid.IntRange(0, 11).Draw(t, "oddTop") == 0 {
		top = rapid.SampledFrom([]string{"..", ".", "", "x/y", "C:"}).Draw(t, "top")
	}
	chartYAML := c16Entry{Name: c16S(top + "/Chart.yaml"), Type: "0", Body: c16S(c16ChartYAML(chartName))}
	rest := c16GenEntries(t, style, top, 5)
	if rapid.IntRange(0, 11).Draw(t, "nested") == 0 {
		sub := []c16Entry{{Name: "sub/Chart.yaml", Type: "0", Body: c16S(c16ChartYAML("sub"))}}
		sub = append(sub, c16GenEntries(t, style, "sub", 2)...)
		rest = append(rest, c16Entry{Name: c16S(top + "/charts/sub-1.0.0.tgz"), Type: "0", Nested: sub})
	}
	switch rapid.IntRange(0, 9).Draw(t, "chartYamlPos") {
	case 0:
		c.Entries = append(rest, chartYAML)
	case 1:
		c.Entries = rest // no Chart.yaml at all
	default:
		c.Entries = append([]c16Entry{chartYAML}, rest...)
	}
	// planted layout
	if np := rapid.IntRange(0, 4).Draw(t, "plants"); np > 0 {
		if np > 2 {
			np = 1
		}
		for i := 0; i < np; i++ {
			p := c16Plant{Path: rapid.SampledFrom(c16PlantAt).Draw(t, "plantAt")}
			switch rapid.IntRange(0, 7).Draw(t, "plantKind") {
			case 0:
				p.Kind = "dir"
			case 1:
				p.Kind = "file"
			default:
				p.Kind = "symlink"
				p.Target = rapid.SampledFrom(c16PlantTo).Draw(t, "plantTo")
				if strings.HasPrefix(p.Target, "REL/") {
					// relative to the directory holding the link: dest is root/mid/dest
					up := strings.Count(p.Path, "/") + 2
					p.Target = strings.Repeat("../", up) + strings.TrimPrefix(p.Target, "REL/")
				}
			}
			c.Plants = append(c.Plants, p)
		}
	}
	if rapid.IntRange(0, 9).Draw(t, "mutate") == 0 {
		for i, n := 0, rapid.IntRange(1, 3).Draw(t, "nmut"); i < n; i++ {
			off := rapid.IntRange(0, 511).Draw(t, "mutOff") + 512*rapid.IntRange(0, 6).Draw(t, "mutBlock")
			c.Muts = append(c.Muts, c16Mut{Off: off, Xor: byte(rapid.IntRange(1, 255).Draw(t, "mutXor"))})
		}
		c.FixSums = rapid.Bool().Draw(t, "fixSums")
	}
	switch rapid.IntRange(0, 39).Draw(t, "framing") {
	case 0:
		c.NoEnd = true
	case 1:
		c.Split = rapid.IntRange(1, 2000).Draw(t, "split")
	case 2:
		c.Trailer = c16S(rapid.SampledFrom([]string{"garbage", "\x1f\x8b\x08\x00", strings.Repeat("\x00", 40)}).Draw(t, "trailer"))
	case 3:
		c.Truncate = rapid.IntRange(1, 1500).Draw(t, "truncate")
	}
	if (c.Target == "extract" || c.Target == "plugin-install") && rapid.IntRange(0, 5).Draw(t, "withDirs") > 0 {
		c.Entries = c16WithDirs(c.Entries, c.Plants)
	}
	if c.Target == "plugin-install" {
		c.URLPath = rapid.SampledFrom([]string{"/plugins/myplugin-1.0.0.tgz", "/plugins/myplugin-1.0.0.tgz", "/plugins/myplugin.tar.gz", "/plugins/..tgz", "/plugins/...tgz", "/plugins/a%2f..%2f..tar.gz", "/.tgz"}).Draw(t, "pluginURL")
		py := c16Entry{Name: "plugin.yaml", Type: "0", Body: "name: myplugin\nversion: 1.0.0\nusage: x\ncommand: $HELM_PLUGIN_DIR/x.sh\n"}
		if rapid.IntRange(0, 4).Draw(t, "pluginYamlLast") == 0 {
			c.Entries = append(c.Entries, py)
		} else {
			c.Entries = append([]c16Entry{py}, c.Entries...)
		}
		if rapid.IntRange(0, 2).Draw(t, "plantPluginDir") == 0 {
			c.Plants = append(c.Plants, c16Plant{Path: rapid.SampledFrom([]string{"data/plugins/myplugin", "data/plugins/myplugin/bin", "data/plugins/myplugin/plugin.yaml"}).Draw(t, "pluginPlantAt"),
				Kind: "symlink", Target: rapid.SampledFrom([]string{"$OUT", "$OUT/missing", "$OUT/canary", "$OUT/sub"}).Draw(t, "pluginPlantTo")})
		}
	}
	if c.Target == "pull" {
		c.URLPath = rapid.SampledFrom(c16URLs).Draw(t, "url")
		c.Untar = rapid.IntRange(0, 3).Draw(t, "untar") > 0
		c.ViaRepo = rapid.IntRange(0, 2).Draw(t, "viaRepo") == 0
		c.UntarDir = rapid.SampledFrom([]string{".", ".", "sub", "$DEST/abs", "", "..", "$OUT"}).Draw(t, "untarDir")
		if c.UntarDir == ".." || c.UntarDir == "$OUT" {
			// the caller chose a directory outside dest: that directory is then the destination; not a case for this check
			c.UntarDir = "sub"
		}
	}
	return c
}

func c16JSON(v interface{}) string {
	b, err := json.Marshal(v)
	if err != nil {
		return fmt.Sprintf("%+v", v)
	}
	return string(b)
}

func TestC16A(t *testing.T) {
	evid.Extra("rule", "C16A: rapid-generated tar+gzip streams written with a raw header encoder (names from a hostile component/prefix grammar with mixed / and \\ separators, absolute and drive prefixes, '..', NUL, invalid UTF-8, long names in ustar-prefix/GNU-L/PAX encodings; regular, old-regular, dir, symlink, hard link, device, fifo, sparse, global-pax and unknown type flags; link names pointing at sandbox canaries; entries routed through an earlier link entry; nested charts/*.tgz; lying size fields; byte flips with optional checksum repair; split/truncated/trailing gzip framing) x destination layouts with planted symlinks/files/dirs, run through LoadArchiveFiles, LoadArchive, Expand, ExpandFile, TarGzExtractor.Extract, installer.HTTPInstaller.Install (loopback HTTP; cache and data home under the destination) and action.Pull (loopback HTTP, odd download names, untar). Oracle: snapshot (type, mode, link target, sha256, mtime) of the sandbox tree without following links before/after: nothing outside root/mid/dest may differ (also when the call fails; TMPDIR and the helm home of Pull are exempt) and /tmp/c16-abs-escape must not appear; every file name exposed by a loaded archive/chart (incl. subcharts) is non-empty, relative, path.Clean-stable, without '..' component, backslash or '<letter>:/' prefix. Non-trivial = the case contains a hostile name, a link entry, a planted symlink or an odd download name; distinct by the JSON of the case.")
	evid.Extra("assumptions", []string{
		"Linux path semantics only (a name like 'C:x' is an ordinary relative name here; noted, not judged)",
		"reads that follow a link out of the destination are not observable by a snapshot; only creations/modifications/deletions are judged",
		"the destination itself is a real directory two levels below the sandbox root; planted hard links are not generated",
		"action.Pull is served over a loopback HTTP listener; TMPDIR is pointed into the sandbox for the duration of the call",
		"changes outside the sandbox root are only detected at the fixed path /tmp/c16-abs-escape",
	})
	rapid.Check(t, func(t *rapid.T) {
		c := c16GenA(t)
		v := c16JudgeA(t, c)
		evid.Case(v.labels, c16JSON(c), v.nontrivial, c)
	})
}

// ---- case B: size limits -----------------------------------------------------------------------------------------

type c16BEntry struct {
	Kind string `json:"kind"` // chartyaml | reg | old | cont | unknown | sparse | paxsize | b256 | dir | symlink | global
	Size int64  `json:"size"`
}

type c16BCase struct {
	Target     string      `json:"target"` // loadfiles | load | expand
	FileLimit  int64       `json:"file_limit"`
	TotalLimit int64       `json:"total_limit"`
	Entries    []c16BEntry `json:"entries"`
	Tail       string      `json:"tail,omitempty"` // huge | huge-pax | huge-sparse | small | meta
	TailSize   int64       `json:"tail_size,omitempty"`
	Compressed bool        `json:"compressed,omitempty"`
	// BOMContent: every file member's content starts with the UTF-8 byte order mark (which the loader strips from the
	// data it keeps; the limits count what is decompressed)
	BOMContent bool `json:"bom_content,omitempty"`
}

const (
	c16Slack    = 8 << 10 // read-ahead allowance (bufio 4 KiB + one chunk + member headers); measured read-ahead on the pinned toolchain is 0 because every chunk ends in a sync flush
	c16Overrun  = 6 * c16Slack
	c16HugeSize = int64(1) << 33
)

var c16BChartYAML = c16ChartYAML("c")

type c16Seg struct {
	hdr     []byte
	stored  int64 // payload bytes physically in the stream (before padding)
	logical int64 // size that counts against the limits (0 for members without file content)
	file    bool
}

func c16BSeg(kind string, size int64, idx int) c16Seg {
	name := fmt.Sprintf("c/templates/f%d.txt", idx)
	one := func(e c16Entry) []byte {
		b, _ := c16Tar([]c16Entry{e}, func(s string) string { return s }, false)
		return b
	}
	switch kind {
	case "chartyaml":
		e := c16Entry{Name: "c/Chart.yaml", Type: "0", Body: c16S(c16BChartYAML)}
		b := one(e)
		return c16Seg{hdr: b[:512], stored: int64(len(c16BChartYAML)), logical: int64(len(c16BChartYAML)), file: true}
	case "dir":
		return c16Seg{hdr: one(c16Entry{Name: c16S(fmt.Sprintf("c/d%d/", idx)), Type: "5", Mode: 0o755})}
	case "symlink":
		return c16Seg{hdr: one(c16Entry{Name: c16S(name), Type: "2", Link: "x"})}
	case "global":
		b := one(c16Entry{Name: "pax_global_header", Type: "g", Body: c16S(c16PaxRecord("comment", "c16"))})
		return c16Seg{hdr: b} // header + its (padded) record block
	case "sparse":
		stored := size
		if stored > 16 {
			stored = 16
		}
		e := c16Entry{Name: c16S(name), Type: "S", Body: c16S(strings.Repeat("s", int(stored))), RealSize: size}
		b := one(e)
		return c16Seg{hdr: b[:512], stored: stored, logical: size, file: true}
	case "paxsize":
		d := size
		e := c16Entry{Name: c16S(name), Type: "0", Enc: "pax", PaxSize: true, DeclSize: &d}
		b := one(e) // x header + records + real header (no body emitted: Body is empty, padding of 0 bytes)
		return c16Seg{hdr: b, stored: size, logical: size, file: true}
	default: // reg old cont unknown b256
		tf := map[string]string{"reg": "0", "old": "", "cont": "7", "unknown": "Z", "b256": "0"}[kind]
		d := size
		e := c16Entry{Name: c16S(name), Type: tf, DeclSize: &d}
		b := one(e)
		h := b[:512]
		if kind == "b256" {
			for i := 124; i < 136; i++ {
				h[i] = 0
			}
			v := size
			for i := 135; i > 124; i-- {
				h[i] = byte(v)
				v >>= 8
			}
			h[124] = 0x80
			c16Checksum(h)
		}
		return c16Seg{hdr: h, stored: size, logical: size, file: true}
	}
}

func c16Pad512(n int64) int64 { return (n + 511) / 512 * 512 }

// c16JudgeB runs one size-limit case.
func c16JudgeB(tb vt.TB, c *c16BCase) c16Verdict {
	replay := map[string]interface{}{"kind": "B", "b": c}
	lbl := map[string]bool{"target:" + c.Target: true}
	if c.FileLimit < 1 || c.TotalLimit < 1 || len(c.Entries) > 200 {
		tb.Fatalf("c16B: malformed case")
	}

	// independent model: walk the planned members; k = first file member that breaks a limit
	var segs []c16Seg
	for i, e := range c.Entries {
		if e.Size < 0 {
			tb.Fatalf("c16B: negative size")
		}
		segs = append(segs, c16BSeg(e.Kind, e.Size, i))
	}
	var off, cum int64
	bound, which := int64(-1), ""
	consider := func(s c16Seg) bool {
		if s.file {
			over := ""
			if s.logical > c.FileLimit {
				over = "per-file-limit"
			} else if cum+s.logical > c.TotalLimit {
				over = "total-limit"
			}
			if over != "" {
				room := c.TotalLimit - cum
				if room > c.FileLimit {
					room = c.FileLimit
				}
				if room < 0 {
					room = 0
				}
				bound, which = off+int64(len(s.hdr))+room, over
				return true
			}
			cum += s.logical
		}
		off += int64(len(s.hdr)) + c16Pad512(s.stored)
		return false
	}
	for _, s := range segs {
		if consider(s) {
			break
		}
	}
	// the tail is generated lazily, member by member
	var tailSeg func(i int) (c16Seg, bool)
	switch c.Tail {
	case "":
	case "huge":
		tailSeg = func(i int) (c16Seg, bool) { return c16BSeg("b256", c16HugeSize, 1000), i == 0 }
	case "huge-pax":
		tailSeg = func(i int) (c16Seg, bool) { return c16BSeg("paxsize", c16HugeSize, 1000), i == 0 }
	case "huge-sparse":
		tailSeg = func(i int) (c16Seg, bool) { return c16BSeg("sparse", c16HugeSize, 1000), i == 0 }
	case "small":
		if c.TailSize < 1 {
			tb.Fatalf("c16B: tail size")
		}
		tailSeg = func(i int) (c16Seg, bool) { return c16BSeg("reg", c.TailSize, 1000+i), true }
	case "meta":
		tailSeg = func(i int) (c16Seg, bool) { return c16BSeg([]string{"dir", "symlink", "global"}[i%3], 0, 1000+i), true }
	default:
		tb.Fatalf("c16B: unknown tail %q", c.Tail)
	}
	if bound < 0 && tailSeg != nil && c.Tail != "meta" {
		for i := 0; i < 1<<20; i++ {
			s, ok := tailSeg(i)
			if !ok {
				break
			}
			if consider(s) {
				break
			}
		}
	}
	stopAt := int64(c.TotalLimit) + off + c16Overrun
	if bound >= 0 {
		stopAt = bound + c16Overrun
	}

	// chunk generator
	segIdx, tailIdx := 0, 0
	var cur *c16Seg
	var curLeft, curPad int64
	hdrDone := false
	var lz *c16Lazy
	filler := bytes.Repeat([]byte("x"), 512)
	next := func() []byte {
		for {
			if lz.fed > stopAt {
				return nil
			}
			if cur == nil {
				if segIdx < len(segs) {
					cur = &segs[segIdx]
					segIdx++
				} else if tailSeg != nil {
					s, ok := tailSeg(tailIdx)
					tailIdx++
					if !ok {
						tailSeg = nil
						continue
					}
					cur = &s
				} else {
					if curPad == -1 {
						return nil
					}
					curPad = -1
					return make([]byte, 1024) // end-of-archive marker
				}
				hdrDone = false
				curLeft = cur.stored
				curPad = c16Pad512(cur.stored) - cur.stored
			}
			if !hdrDone {
				hdrDone = true
				return cur.hdr
			}
			if curLeft > 0 {
				n := curLeft
				if n > 512 {
					n = 512
				}
				first := curLeft == cur.stored
				curLeft -= n
				if cur.hdr[156] == '0' && bytes.HasPrefix(cur.hdr, []byte("c/Chart.yaml")) {
					return []byte(c16BChartYAML)
				}
				if c.BOMContent && first && n >= 3 {
					return append([]byte("\xef\xbb\xbf"), filler[:n-3]...)
				}
				return filler[:n]
			}
			if curPad > 0 {
				p := make([]byte, curPad)
				curPad = 0
				return p
			}
			cur = nil
		}
	}
	level := 0 // stored blocks: compressed offset ~ decompressed offset
	if c.Compressed {
		level = 6
		lbl["compressed"] = true
	}
	lz = c16NewLazy(level, next)

	oldChart, oldFile := loader.MaxDecompressedChartSize, loader.MaxDecompressedFileSize
	loader.MaxDecompressedChartSize, loader.MaxDecompressedFileSize = c.TotalLimit, c.FileLimit
	defer func() { loader.MaxDecompressedChartSize, loader.MaxDecompressedFileSize = oldChart, oldFile }()

	var err error
	var box *c16Box
	switch c.Target {
	case "loadfiles":
		err = c16Call(func() error { _, e := loader.LoadArchiveFiles(lz); return e })
	case "load":
		err = c16Call(func() error { _, e := loader.LoadArchive(lz); return e })
	case "expand":
		box = c16NewBox(tb)
		defer box.cleanup()
		err = c16Call(func() error { return chartutil.Expand(box.dest, lz) })
	default:
		tb.Fatalf("c16B: unknown target %q", c.Target)
	}
	sizeErr := err != nil && strings.Contains(err.Error(), "larger than the maximum")
	if c.Tail != "" {
		lbl["tail:"+c.Tail] = true
	}
	verdict := func() c16Verdict {
		var ls []string
		for l := range lbl {
			ls = append(ls, l)
		}
		sort.Strings(ls)
		return c16Verdict{labels: ls, nontrivial: bound >= 0 && sizeErr}
	}
	if bound >= 0 {
		lbl["over:"+which] = true
		if err == nil {
			lbl["over-limit-accepted"] = true
			if vt.Violation(tb, "C16:over-limit-archive-accepted/"+which,
				fmt.Sprintf("target=%s file limit %d total limit %d: a member breaks the %s (model: decompressed offset %d) but the call succeeded", c.Target, c.FileLimit, c.TotalLimit, which, bound), replay) {
				return verdict()
			}
		} else if sizeErr {
			lbl["rejected-with-size-error"] = true
		} else {
			lbl["rejected-with-other-error"] = true
			evid.Note("C16B: over-limit archive rejected with an error other than the size error: " + c16ErrClass(err))
		}
		if !c.Compressed {
			if over := lz.fed - bound; over > c16Slack {
				if vt.Violation(tb, "C16:read-beyond-size-limit/"+which,
					fmt.Sprintf("target=%s file limit %d total limit %d: the loader pulled %d decompressed bytes; header of the first member breaking the %s plus what the limits still allowed to read ends at offset %d (+%d read-ahead slack); err=%v",
						c.Target, c.FileLimit, c.TotalLimit, lz.fed, which, bound, c16Slack, err), replay) {
					return verdict()
				}
			} else if over > c16bMaxOver {
				c16bMaxOver = over
				evid.Extra("c16b_max_read_past_bound", over)
			}
		}
	} else {
		switch {
		case c.Tail == "meta":
			if lz.fed > c.TotalLimit+off+c16Slack {
				evid.Note("C16B: members without file content (directories, links, global PAX headers) are not counted against any limit: more than MaxDecompressedChartSize+8KiB of them was read (documented limit = 'decompressed size of all the files'; not judged)")
				lbl["meta-tail-read-past-limit"] = true
			}
		case err == nil:
			lbl["under-limit-accepted"] = true
		case sizeErr && cum == c.TotalLimit:
			lbl["total-equals-limit-rejected"] = true
			evid.Note("C16B: an archive whose files sum to exactly MaxDecompressedChartSize is rejected (off by one on the safe side; not judged)")
		default:
			lbl["under-limit-rejected"] = true
			evid.Note("C16B: under-limit archive rejected: " + c16ErrClass(err))
		}
	}
	return verdict()
}

var c16bMaxOver int64 = -1 << 62

var c16Digits = regexp.MustCompile(`[0-9]+`)

func c16ErrClass(err error) string {
	s := err.Error()
	if len(s) > 90 {
		s = s[:90]
	}
	return c16Digits.ReplaceAllString(s, "N")
}

func c16GenB(t *rapid.T) *c16BCase {
	c := &c16BCase{Target: rapid.SampledFrom([]string{"loadfiles", "loadfiles", "load", "expand"}).Draw(t, "target")}
	c.FileLimit = int64(rapid.SampledFrom([]int{64, 200, 512, 1000, 4096}).Draw(t, "fileLimit"))
	c.TotalLimit = c.FileLimit * int64(rapid.SampledFrom([]int{1, 2, 3, 8}).Draw(t, "totalFactor"))
	if rapid.IntRange(0, 5).Draw(t, "oddTotal") == 0 {
		c.TotalLimit += int64(rapid.IntRange(-40, 700).Draw(t, "totalDelta"))
		if c.TotalLimit < 50 {
			c.TotalLimit = 50
		}
	}
	c.Entries = []c16BEntry{{Kind: "chartyaml", Size: int64(len(c16BChartYAML))}}
	n := rapid.IntRange(0, 6).Draw(t, "ne")
	var cum int64 = int64(len(c16BChartYAML))
	for i := 0; i < n; i++ {
		kind := rapid.SampledFrom([]string{"reg", "reg", "reg", "reg", "old", "cont", "unknown", "sparse", "paxsize", "b256", "dir", "symlink", "global"}).Draw(t, "kind")
		var size int64
		switch rapid.IntRange(0, 9).Draw(t, "sizeKind") {
		case 0:
			size = c.FileLimit // exactly at the per-file limit
		case 1:
			size = c.FileLimit + 1
		case 2:
			size = c.TotalLimit - cum // fills the total exactly
		case 3:
			size = c.TotalLimit - cum + 1
		case 4:
			size = c.TotalLimit - cum - 1
		case 5:
			size = int64(rapid.IntRange(0, int(c.FileLimit)*3).Draw(t, "size"))
		case 6:
			size = 0
		default:
			size = int64(rapid.IntRange(0, int(c.FileLimit)).Draw(t, "size"))
		}
		if size < 0 {
			size = 0
		}
		if size > 40000 {
			size = 40000
		}
		if kind == "dir" || kind == "symlink" || kind == "global" {
			size = 0
		} else {
			cum += size
		}
		c.Entries = append(c.Entries, c16BEntry{Kind: kind, Size: size})
	}
	switch rapid.IntRange(0, 15).Draw(t, "tail") {
	case 0, 1:
		c.Tail = "huge"
	case 2:
		c.Tail = "huge-pax"
	case 3:
		c.Tail = "huge-sparse"
	case 4, 5, 7:
		c.Tail = "small"
		c.TailSize = 1 + c.FileLimit/int64(rapid.SampledFrom([]int{1, 2, 5}).Draw(t, "tailDiv"))
		if c.TailSize > c.FileLimit {
			c.TailSize = c.FileLimit
		}
	case 6:
		if rapid.IntRange(0, 3).Draw(t, "meta") == 0 {
			c.Tail = "meta"
		}
	}
	c.Compressed = rapid.IntRange(0, 5).Draw(t, "compressed") == 0
	c.BOMContent = rapid.IntRange(0, 3).Draw(t, "bomContent") == 0
	return c
}

func TestC16B(t *testing.T) {
	evid.Extra("rule", "C16B: MaxDecompressedFileSize (64..4096) and MaxDecompressedChartSize (1..8x, sometimes off by a few bytes) are lowered per case and restored; the archive is a gzip stream generated lazily member by member (regular, old-regular, contiguous, unknown type, base-256 size, PAX size= record, old-GNU sparse with a hole, directories, symlinks, global PAX headers; sizes at, one below and one above either limit; in a quarter of the cases every member's content starts with a UTF-8 byte order mark) followed by an optional tail: one member declaring 8 GiB (base-256, PAX or sparse) or an endless run of small members, generation stopping 48 KiB past the model's bound. Oracle (independent model over the planned members): the first file member whose size exceeds the per-file limit or whose running sum exceeds the total limit makes the archive over-limit: LoadArchiveFiles/LoadArchive/Expand must return an error, and (stored-block gzip, so compressed offset = decompressed offset) the number of decompressed bytes pulled may not exceed the end of that member's header + what was left of the limit + 8 KiB read-ahead. Non-trivial = over-limit case that was rejected with the size error; distinct by the JSON of the case. Under-limit archives are the control class (labels under-limit-accepted / total-equals-limit-rejected).")
	evid.Extra("assumptions", []string{
		"the limit counts the decompressed content of file members, as documented on MaxDecompressedChartSize ('the decompressed size of all the files'); headers and members without content are not counted",
		"read-ahead of up to 8 KiB beyond the bound is tolerated (bufio 4 KiB + one 512-byte chunk + member headers; every chunk ends in a sync flush, so inflate does not read ahead)",
		"for compressed (level 6) streams only rejection is judged, not the amount read",
	})
	rapid.Check(t, func(t *rapid.T) {
		c := c16GenB(t)
		v := c16JudgeB(t, c)
		evid.Case(v.labels, c16JSON(c), v.nontrivial, c)
	})
}

// ---- case C: lock file behind a planted symlink ---------------------------------------------------------------

type c16CDep struct {
	Name       string `json:"name"`
	Constraint string `json:"constraint"`
	Version    string `json:"version"` // version of the local chart directory ../<name>
}

type c16CCase struct {
	API       string    `json:"api"` // v1 | v2
	Op        string    `json:"op"`  // update | build
	Deps      []c16CDep `json:"deps"`
	LinkName  string    `json:"link_name,omitempty"` // Chart.lock | requirements.lock | "" (nothing planted)
	LinkTo    string    `json:"link_to,omitempty"`   // outside-stale | outside-missing | inside-stale | chain | dep-chart-yaml | outside-dir | sibling-stale
	Relative  bool      `json:"relative,omitempty"`
	StaleDeps bool      `json:"stale_deps,omitempty"` // the stale lock lists a dependency (otherwise an empty list)
}

func c16StaleLock(withDeps bool) string {
	deps := "dependencies: []\n"
	if withDeps {
		deps = "dependencies:\n- name: dep0\n  repository: file://../dep0\n  version: 0.0.1\n"
	}
	return deps + "digest: sha256:0000000000000000000000000000000000000000000000000000000000000000\ngenerated: \"2020-01-01T00:00:00Z\"\n"
}

// c16JudgeC builds work/parent (+ work/<dep> local charts, outside/ canaries), plants the link and runs the manager.
func c16JudgeC(tb vt.TB, c *c16CCase) c16Verdict {
	replay := map[string]interface{}{"kind": "C", "c": c}
	lbl := map[string]bool{"api:" + c.API: true, "op:" + c.Op: true}
	box := c16NewBox(tb)
	defer box.cleanup()
	root := box.root
	must := func(err error) {
		if err != nil {
			tb.Fatalf("c16C setup: %v", err)
		}
	}
	write := func(rel, content string) {
		must(os.MkdirAll(filepath.Dir(filepath.Join(root, rel)), 0o755))
		must(os.WriteFile(filepath.Join(root, rel), []byte(content), 0o644))
	}
	if c.API != "v1" && c.API != "v2" {
		tb.Fatalf("c16C: api %q", c.API)
	}
	var depYAML strings.Builder
	depYAML.WriteString("dependencies:\n")
	for _, d := range c.Deps {
		if d.Name == "" || strings.ContainsAny(d.Name, "/\\. ") {
			tb.Fatalf("c16C: dependency name %q", d.Name)
		}
		fmt.Fprintf(&depYAML, "- name: %s\n  version: %q\n  repository: file://../%s\n", d.Name, d.Constraint, d.Name)
		write("work/"+d.Name+"/Chart.yaml", fmt.Sprintf("apiVersion: v2\nname: %s\nversion: %s\n", d.Name, d.Version))
		write("work/"+d.Name+"/values.yaml", "a: 1\n")
	}
	if len(c.Deps) == 0 {
		depYAML.Reset()
	}
	if c.API == "v2" {
		write("work/parent/Chart.yaml", "apiVersion: v2\nname: parent\nversion: 0.1.0\n"+depYAML.String())
	} else {
		write("work/parent/Chart.yaml", "apiVersion: v1\nname: parent\nversion: 0.1.0\n")
		if depYAML.Len() > 0 {
			write("work/parent/requirements.yaml", depYAML.String())
		}
	}
	write("work/parent/values.yaml", "x: 1\n")
	write("home/repositories.yaml", "apiVersion: \"\"\ngenerated: \"0001-01-01T00:00:00Z\"\nrepositories: []\n")
	must(os.MkdirAll(filepath.Join(root, "home/cache"), 0o755))
	chartDir := filepath.Join(root, "work", "parent")

	// plant the link; target = physical path (relative to root) a write through the link would hit
	target := ""
	if c.LinkName != "" {
		if c.LinkName != "Chart.lock" && c.LinkName != "requirements.lock" {
			tb.Fatalf("c16C: link name %q", c.LinkName)
		}
		switch c.LinkTo {
		case "outside-stale":
			target = "outside/lock-canary"
			write(target, c16StaleLock(c.StaleDeps))
		case "outside-missing":
			target = "outside/not-there.lock"
		case "inside-stale":
			target = "work/parent/files/old.lock"
			write(target, c16StaleLock(c.StaleDeps))
		case "sibling-stale":
			target = "work/shared.lock"
			write(target, c16StaleLock(c.StaleDeps))
		case "chain":
			target = "outside/lock-canary"
			write(target, c16StaleLock(c.StaleDeps))
		case "dep-chart-yaml":
			if len(c.Deps) == 0 {
				tb.Fatalf("c16C: dep-chart-yaml without deps")
			}
			target = "work/" + c.Deps[0].Name + "/Chart.yaml"
		case "outside-dir":
			target = "outside/sub"
		default:
			tb.Fatalf("c16C: link target %q", c.LinkTo)
		}
		linkTarget := filepath.Join(root, target)
		if c.Relative {
			rel, err := filepath.Rel(chartDir, linkTarget)
			must(err)
			linkTarget = rel
		}
		if c.LinkTo == "chain" {
			must(os.Symlink(linkTarget, filepath.Join(root, "work", "hop")))
			linkTarget = "../hop"
		}
		must(os.Symlink(linkTarget, filepath.Join(chartDir, c.LinkName)))
		lbl["link:"+c.LinkTo] = true
	} else {
		lbl["no-link"] = true
	}
	matching := (c.API == "v2" && c.LinkName == "Chart.lock") || (c.API == "v1" && c.LinkName == "requirements.lock")
	if c.LinkName != "" && !matching {
		lbl["link-at-other-api-lock-name"] = true
	}

	before := c16Snapshot(root, "work/parent", "tmp", "home")
	m := &downloader.Manager{
		Out: io.Discard, ChartPath: chartDir, SkipUpdate: true, Getters: getter.Providers{},
		RepositoryConfig: filepath.Join(root, "home", "repositories.yaml"), RepositoryCache: filepath.Join(root, "home", "cache"),
	}
	var err error
	switch c.Op {
	case "update":
		err = c16Call(m.Update)
	case "build":
		err = c16Call(m.Build)
	default:
		tb.Fatalf("c16C: op %q", c.Op)
	}
	after := c16Snapshot(root, "work/parent", "tmp", "home")
	if err == nil {
		lbl["call-ok"] = true
	} else {
		lbl["call-failed"] = true
	}
	satisfiable := len(c.Deps) > 0
	verdict := func() c16Verdict {
		var ls []string
		for l := range lbl {
			ls = append(ls, l)
		}
		sort.Strings(ls)
		return c16Verdict{labels: ls, nontrivial: matching && satisfiable && err == nil && c.Op == "update"}
	}

	diff := c16Diff(before, after)
	var other []string
	through := ""
	for _, rel := range diff {
		if rel == target {
			through = fmt.Sprintf("%s: %q -> %q", rel, before[rel], after[rel])
			continue
		}
		if c16Under(rel, "work/parent") {
			if strings.HasPrefix(rel, "work/parent/charts/") {
				lbl["dependency-archive-written"] = true
			}
			continue
		}
		if c16Under(rel, "tmp") || c16Under(rel, "home") {
			continue
		}
		other = append(other, fmt.Sprintf("%s: %q -> %q", rel, before[rel], after[rel]))
	}
	linkPath := filepath.Join(chartDir, c.LinkName)
	if c.LinkName != "" {
		if fi, e := os.Lstat(linkPath); e == nil && fi.Mode()&os.ModeSymlink != 0 {
			lbl["link-still-there"] = true
		} else if e == nil && fi.Mode().IsRegular() {
			lbl["link-replaced-by-regular-file"] = true
		}
	}
	if through != "" {
		// the file behind the planted link changed: the lock was written through the link (the link target lies
		// outside the chart directory, or inside it but reached via the link)
		lbl["written-through-link"] = true
		if vt.Violation(tb, "C16:lock-written-through-planted-symlink/manager-writeLock",
			fmt.Sprintf("api=%s op=%s: %s is a symlink (%s); after the call (err=%v) the file behind it changed:\n  %s", c.API, c.Op, c.LinkName, c.LinkTo, err, through), replay) {
			return verdict()
		}
	}
	if len(other) > 0 {
		if vt.Violation(tb, "C16:change-outside-chart-directory/dependency-update",
			fmt.Sprintf("api=%s op=%s err=%v; paths outside the chart directory that changed:\n  %s", c.API, c.Op, err, strings.Join(other, "\n  ")), replay) {
			return verdict()
		}
	}
	if err == nil && satisfiable {
		lockName := "Chart.lock"
		if c.API == "v1" {
			lockName = "requirements.lock"
		}
		if fi, e := os.Lstat(filepath.Join(chartDir, lockName)); e == nil && fi.Mode().IsRegular() {
			lbl["lock-is-regular-file-in-chart-dir"] = true
		}
	}
	return verdict()
}

func c16GenC(t *rapid.T) *c16CCase {
	c := &c16CCase{
		API: rapid.SampledFrom([]string{"v2", "v2", "v1"}).Draw(t, "api"),
		Op:  rapid.SampledFrom([]string{"update", "update", "update", "update", "build"}).Draw(t, "op"),
	}
	for i, n := 0, rapid.IntRange(0, 3).Draw(t, "ndeps"); i < n; i++ {
		c.Deps = append(c.Deps, c16CDep{
			Name:       fmt.Sprintf("dep%d", i),
			Constraint: rapid.SampledFrom([]string{"^1.0.0", "*", ">=1.0.0", "*", ">=1.0.0", "^1.0.0", "~1.2", "1.2.3", "^3.0.0"}).Draw(t, "constraint"),
			Version:    rapid.SampledFrom([]string{"1.2.3", "1.2.3", "1.0.0", "1.2.9", "2.0.0"}).Draw(t, "version"),
		})
	}
	if rapid.IntRange(0, 7).Draw(t, "plant") > 0 {
		c.LinkName = "Chart.lock"
		if c.API == "v1" {
			c.LinkName = "requirements.lock"
		}
		if rapid.IntRange(0, 7).Draw(t, "otherName") == 0 {
			c.LinkName = map[string]string{"Chart.lock": "requirements.lock", "requirements.lock": "Chart.lock"}[c.LinkName]
		}
		kinds := []string{"outside-stale", "outside-stale", "outside-missing", "inside-stale", "sibling-stale", "chain", "outside-dir"}
		if len(c.Deps) > 0 {
			kinds = append(kinds, "dep-chart-yaml")
		}
		c.LinkTo = rapid.SampledFrom(kinds).Draw(t, "linkTo")
		c.Relative = rapid.Bool().Draw(t, "relative")
		c.StaleDeps = rapid.Bool().Draw(t, "staleDeps")
	}
	return c
}

func TestC16C(t *testing.T) {
	evid.Extra("rule", "C16C: chart directories work/parent (apiVersion v1 with requirements.yaml, or v2) with 0-3 file://../depN dependencies on generated local charts (constraints satisfiable or not) and a symlink planted at Chart.lock / requirements.lock pointing (absolute or relative, directly or through a second link) at a valid stale lock outside the chart, a missing file, a lock inside the chart, a lock in the parent directory, a dependency's Chart.yaml or a directory; downloader.Manager.Update or Build runs offline. Oracle: sandbox snapshot before/after without following links: the file behind the planted link must be unchanged and nothing outside work/parent may change (whether or not the call fails). Non-trivial = link planted at the lock name the chart's API version uses, at least one dependency, and Update returned nil (so the new lock had to be written somewhere; Build with a stale lock stops at 'out of sync' and is a control); distinct by the JSON of the case.")
	evid.Extra("assumptions", []string{
		"only file:// dependencies (no repository access); SkipUpdate=true; empty repositories.yaml",
		"a symlink planted at charts/ or tmpcharts-<pid> is out of scope of the statement (lock file only) and not generated",
	})
	rapid.Check(t, func(t *rapid.T) {
		c := c16GenC(t)
		v := c16JudgeC(t, c)
		evid.Case(v.labels, c16JSON(c), v.nontrivial, c)
	})
}

// ---- replay / known findings ---------------------------------------------------------------------------------

type c16ReplayCase struct {
	Kind string    `json:"kind"`
	A    *c16ACase `json:"a,omitempty"`
	B    *c16BCase `json:"b,omitempty"`
	C    *c16CCase `json:"c,omitempty"`
}

type c16ReplayDoc struct {
	Signature string          `json:"signature"`
	Detail    string          `json:"detail"`
	Case      json.RawMessage `json:"case"`
}

type c16KnownEntry struct {
	Property  string `json:"property"`
	Signature string `json:"signature"`
	Status    string `json:"status"`
	What      string `json:"what"`
	Replay    string `json:"replay"`
}

func c16VerifRoot() string {
	if r := os.Getenv("VERIF_ROOT"); r != "" {
		return r
	}
	return "/verif"
}

func c16KnownEntries() []c16KnownEntry {
	b, err := os.ReadFile(filepath.Join(c16VerifRoot(), "known_findings.json"))
	if err != nil {
		return nil
	}
	var doc struct {
		Entries []c16KnownEntry `json:"entries"`
	}
	if json.Unmarshal(b, &doc) != nil {
		return nil
	}
	var out []c16KnownEntry
	for _, e := range doc.Entries {
		if e.Property == "C16" && e.Status == "known" {
			out = append(out, e)
		}
	}
	return out
}

func c16LoadReplay(p string) (*c16ReplayCase, error) {
	if !filepath.IsAbs(p) {
		p = filepath.Join(c16VerifRoot(), p)
	}
	b, err := os.ReadFile(p)
	if err != nil {
		return nil, err
	}
	var d c16ReplayDoc
	if err := json.Unmarshal(b, &d); err != nil {
		return nil, err
	}
	var rc c16ReplayCase
	if err := json.Unmarshal(d.Case, &rc); err != nil {
		return nil, err
	}
	return &rc, nil
}

func c16RunReplay(tb vt.TB, rc *c16ReplayCase) {
	switch {
	case rc.Kind == "A" && rc.A != nil:
		c16JudgeA(tb, rc.A)
	case rc.Kind == "B" && rc.B != nil:
		c16JudgeB(tb, rc.B)
	case rc.Kind == "C" && rc.C != nil:
		c16JudgeC(tb, rc.C)
	default:
		tb.Fatalf("c16 replay: unknown case kind %q", rc.Kind)
	}
}

func TestC16_Replay(t *testing.T) {
	p := os.Getenv("VERIF_REPLAY_JSON")
	if p == "" {
		t.Skip("no VERIF_REPLAY_JSON")
	}
	rc, err := c16LoadReplay(p)
	if err != nil {
		t.Fatal(err)
	}
	c16RunReplay(t, rc)
}

func TestC16_Known(t *testing.T) {
	for _, e := range c16KnownEntries() {
		rc, err := c16LoadReplay(e.Replay)
		if err != nil {
			fmt.Printf("KNOWN-GONE sig=%s :: replay unreadable: %v\n", e.Signature, err)
			continue
		}
		vt.CheckKnown(e.Signature, e.What, func(tb vt.TB) { c16RunReplay(tb, rc) })
	}
}
