package props

// C15 — Packaging and loading a chart preserves its content.
//   TestC15A  round trip: intent -> file set -> LoadFiles -> Save/Load, SaveDir/Load, directory vs archive
//   TestC15B  .helmignore rules: chart directory -> action.Package -> entry list against an independent matcher
//   TestC15C  a chart whose name or version is invalid is not packaged (and nothing is left behind)

import (
	"encoding/json"
	"fmt"
	"io"
	"log"
	"log/slog"
	"os"
	"path/filepath"
	"sort"
	"strings"
	"testing"

	"pgregory.net/rapid"

	"helm.sh/helm/v4/pkg/action"
	chart "helm.sh/helm/v4/pkg/chart/v2"
	"helm.sh/helm/v4/pkg/chart/v2/loader"
	chartutil "helm.sh/helm/v4/pkg/chart/v2/util"

	"verif/internal/evid"
	"verif/internal/vt"
)

type c15Replay struct {
	Part string    `json:"part"`
	A    *c15Spec  `json:"a,omitempty"`
	B    *c15CaseB `json:"b,omitempty"`
	C    *c15CaseC `json:"c,omitempty"`
}

func c15Quiet() {
	log.SetOutput(io.Discard)
	slog.SetDefault(slog.New(slog.NewTextHandler(io.Discard, nil)))
}

// c15Report hands the differences to vt.Violation: unexplained ones first, then those whose shape names a specific
// cause. It returns true when a listed known finding was hit (the case is cut there).
func c15Report(tb vt.TB, diffs []c15Diff, rc c15Replay) bool {
	sort.SliceStable(diffs, func(i, j int) bool { return diffs[i].Rank < diffs[j].Rank })
	for _, d := range diffs {
		if vt.Violation(tb, d.Sig, d.Detail, rc) {
			return true
		}
	}
	return false
}

// c15ErrClass names the failure classes that have a recognisable cause: the YAML writer refusing a string (DEL, C1
// controls, U+FFFE/U+FFFF) that the YAML reader accepted as an escape sequence; the archive loader's parent-directory
// guard firing.
func c15ErrClass(err error) string {
	switch {
	case strings.Contains(err.Error(), "control characters are not allowed"):
		return "/yaml-writer-rejects-control-character"
	case strings.Contains(err.Error(), "illegally references parent directory"):
		// the archive loader refusing an entry; no generated name contains a ".." path element
		return "/name-starting-with-two-dots-taken-for-parent-directory"
	}
	return ""
}

// c15ErrSig: an error with a recognised cause gets one signature for the cause; any other is named by the leg.
func c15ErrSig(what, leg string, err error) string {
	if c := c15ErrClass(err); c != "" {
		return what + c
	}
	return what + "/" + leg
}

func c15LoadFlat(files []c15File) (*chart.Chart, error) {
	bf := make([]*loader.BufferedFile, 0, len(files))
	for _, f := range files {
		bf = append(bf, &loader.BufferedFile{Name: f.Name, Data: append([]byte(nil), f.Data...)})
	}
	return loader.LoadFiles(bf)
}

// ---------------------------------------------------------------------------------------------------------------
// part A

func c15JudgeA(tb vt.TB, spec *c15Spec) (cut bool) {
	rc := c15Replay{Part: "A", A: spec}
	fail := func(sig, detail string) bool { return vt.Violation(tb, sig, detail, rc) }
	want := c15Expect(spec)
	flat := c15Flat(spec)

	// leg 1: the file set loads and gives the chart the intent describes
	c0, err := c15LoadFlat(flat)
	if err != nil {
		return fail(c15ErrSig("C15:chart-not-loadable", "load-files", err), "LoadFiles: "+err.Error())
	}
	var diffs []c15Diff
	c15Compare(want, c15SnapOf(c0), "load-files", want.Name, &diffs)
	if len(diffs) > 0 {
		// a case that ends here because of the recorded byte-order-mark finding still has its directory and archive
		// forms compared with each other: the two loaders must at least agree
		onlyBOM := true
		for _, d := range diffs {
			if !strings.Contains(d.Sig, "leading-utf8-bom-removed-on-load") {
				onlyBOM = false
			}
		}
		if onlyBOM {
			if tmpB, err := os.MkdirTemp("", "c15ab-"); err == nil {
				defer os.RemoveAll(tmpB)
				dirB, tgzB := filepath.Join(tmpB, "chartdir"), filepath.Join(tmpB, "harness.tgz")
				if c15WriteTree(dirB, flat) == nil && os.WriteFile(tgzB, c15Tgz("chartdir", flat), 0o644) == nil {
					cT, errT := loader.Load(tgzB)
					cD, errD := loader.Load(dirB)
					if errT == nil && errD == nil {
						var dd []c15Diff
						c15Compare(c15FilterRoot(c15SnapOf(cT), c15DefaultRules), c15SnapOf(cD), "directory-vs-archive", want.Name, &dd)
						if c15Report(tb, dd, rc) {
							return true
						}
					}
				}
			}
		}
		if c15Report(tb, diffs, rc) {
			return true
		}
	}
	before := c15SnapOf(c0).c15Text()

	tmp, err := os.MkdirTemp("", "c15a-")
	if err != nil {
		tb.Fatalf("tempdir: %v", err)
	}
	defer os.RemoveAll(tmp)

	// leg 2: archive round trip
	outA := filepath.Join(tmp, "out")
	if err := os.MkdirAll(outA, 0o755); err != nil {
		tb.Fatalf("mkdir: %v", err)
	}
	tgz, err := chartutil.Save(c0, outA)
	if err != nil {
		return fail(c15ErrSig("C15:valid-chart-not-saved", "save", err), "Save: "+err.Error())
	}
	if after := c15SnapOf(c0).c15Text(); after != before {
		if fail("C15:saving-modifies-chart-in-memory/save", fmt.Sprintf("before %s\nafter  %s", c15Q(before), c15Q(after))) {
			return true
		}
	}
	// documented: "/foo/bar-1.0.0.tgz" for chart bar, version 1.0.0, directory /foo
	if wantPath := filepath.Join(outA, want.Name+"-"+spec.Meta.Version+".tgz"); tgz != wantPath {
		if fail("C15:archive-path-differs/save", fmt.Sprintf("got %q, expected %q", tgz, wantPath)) {
			return true
		}
	}
	// what was written, read with the harness's tar reader: every file of the chart, byte for byte
	if ents, err := c15ReadTgz(tgz); err != nil {
		return fail("C15:archive-unreadable/save", err.Error())
	} else {
		gotB := map[string]string{}
		diffs = nil
		for _, e := range ents {
			if _, dup := gotB[e.Name]; dup {
				diffs = append(diffs, c15Diff{Sig: "C15:duplicate-entries/save", Detail: "archive entry " + e.Name})
			}
			gotB[e.Name] = string(e.Data)
		}
		wantB, reenc := map[string]string{}, map[string]bool{}
		c15ArchiveWant(want, want.Name+"/", wantB, reenc)
		c15WrittenDiffs("save", wantB, reenc, nil, gotB, &diffs)
		if c15Report(tb, diffs, rc) {
			return true
		}
	}
	c1, err := loader.Load(tgz)
	if err != nil {
		return fail(c15ErrSig("C15:chart-not-loadable", "save", err), "Load(archive written by Save): "+err.Error())
	}
	diffs = nil
	c15Compare(want, c15SnapOf(c1), "save", want.Name, &diffs)
	if c15Report(tb, diffs, rc) {
		return true
	}

	// leg 3: the same content read from a directory and from an archive (both written by the harness)
	dirH := filepath.Join(tmp, "h", "chartdir")
	if err := c15WriteTree(dirH, flat); err != nil {
		tb.Fatalf("write tree: %v", err)
	}
	tgzH := filepath.Join(tmp, "h", "harness.tgz")
	if err := os.WriteFile(tgzH, c15Tgz("chartdir", flat), 0o644); err != nil {
		tb.Fatalf("write tgz: %v", err)
	}
	cT, errT := loader.Load(tgzH)
	cD, errD := loader.Load(dirH)
	switch {
	case errT != nil:
		return fail(c15ErrSig("C15:chart-not-loadable", "load-archive", errT), "Load(harness archive): "+errT.Error())
	case errD != nil:
		return fail(c15ErrSig("C15:chart-not-loadable", "load-directory", errD), "Load(harness directory): "+errD.Error())
	}
	diffs = nil
	c15Compare(c15FilterRoot(c15SnapOf(cT), c15DefaultRules), c15SnapOf(cD), "directory-vs-archive", want.Name, &diffs)
	if c15Report(tb, diffs, rc) {
		return true
	}

	// leg 4: directory round trip; the built-in ignore rule of directory loads applies to the root chart
	outD := filepath.Join(tmp, "outdir")
	if err := os.MkdirAll(outD, 0o755); err != nil {
		tb.Fatalf("mkdir: %v", err)
	}
	if err := chartutil.SaveDir(c0, outD); err != nil {
		return fail(c15ErrSig("C15:valid-chart-not-saved", "save-dir", err), "SaveDir: "+err.Error())
	}
	if after := c15SnapOf(c0).c15Text(); after != before {
		if fail("C15:saving-modifies-chart-in-memory/save-dir", fmt.Sprintf("before %s\nafter  %s", c15Q(before), c15Q(after))) {
			return true
		}
	}
	// what was written: the root chart's files as they are, every subchart as charts/<name>-<version>.tgz
	if tree, err := c15ReadTree(filepath.Join(outD, want.Name)); err != nil {
		return fail("C15:directory-unreadable/save-dir", err.Error())
	} else {
		wantB, reenc, opt := map[string]string{}, map[string]bool{"Chart.yaml": true}, map[string]bool{"Chart.lock": true}
		c15WantBytes(want, "", wantB)
		gotB := map[string]string{}
		for n, d := range tree {
			gotB[n] = d
		}
		for _, dn := range c15SortedDeps(want) {
			dep := want.Deps[dn]
			packed := "charts/" + dn + "-" + dep.Version + ".tgz"
			raw, ok := tree[packed]
			if !ok {
				reenc[packed] = true // reported as missing below
				continue
			}
			delete(gotB, packed)
			ents, err := c15ReadTgzBytes([]byte(raw))
			if err != nil {
				return fail("C15:archive-unreadable/save-dir", packed+": "+err.Error())
			}
			for _, e := range ents {
				gotB[packed+"!"+e.Name] = string(e.Data)
			}
			c15ArchiveWant(dep, packed+"!"+dn+"/", wantB, reenc)
		}
		diffs = nil
		c15WrittenDiffs("save-dir", wantB, reenc, opt, gotB, &diffs)
		if c15Report(tb, diffs, rc) {
			return true
		}
	}
	c2, err := loader.Load(filepath.Join(outD, want.Name))
	if err != nil {
		return fail(c15ErrSig("C15:chart-not-loadable", "save-dir", err), "Load(directory written by SaveDir): "+err.Error())
	}
	diffs = nil
	c15Compare(c15FilterRoot(want, c15DefaultRules), c15SnapOf(c2), "save-dir", want.Name, &diffs)
	return c15Report(tb, diffs, rc)
}

func c15SpecFingerprint(s *c15Spec) string {
	var b strings.Builder
	for _, f := range c15Flat(s) {
		fmt.Fprintf(&b, "%s=%x;", f.Name, evid.FP(string(f.Data)))
	}
	return b.String()
}

func c15PropA(t *rapid.T) {
	info := &c15Info{labels: map[string]bool{}, bom: rapid.IntRange(0, 7).Draw(t, "bomCase") == 0}
	name := rapid.SampledFrom([]string{"c", "my-chart", "Chart_1.x", "ünï-chart", "sp ace", "UPPER", "a.v1", "x-1.0.0"}).Draw(t, "rootName")
	spec := c15GenSpec(t, 0, name, info)
	if c15JudgeA(t, spec) {
		info.add("cut-at-known-finding")
	}
	var lbls []string
	nontrivial := false
	for l := range info.labels {
		lbls = append(lbls, l)
		if strings.HasPrefix(l, "subchart:") || l == "content:binary" || l == "content:bom" {
			nontrivial = true
		}
	}
	sort.Strings(lbls)
	var names []string
	for _, f := range c15Flat(spec) {
		names = append(names, f.Name)
	}
	evid.Case(lbls, c15SpecFingerprint(spec), nontrivial, map[string]interface{}{"chartYAML": string(spec.ChartYAML), "files": names})
}

func TestC15A(t *testing.T) {
	c15Quiet()
	evid.Extra("rule", "C15A: a chart is generated as an intent (all Chart.yaml fields with YAML-hostile, unicode and control-character strings; v1 / v2 / unset apiVersion; dependency lists with aliases and import-values in Chart.yaml or requirements.yaml; values.yaml as curated texts (comments, multi-document, anchors, CRLF, BOM) or an emitted value tree; schema; Chart.lock / requirements.lock with zone and nanosecond timestamps; up to 6 (thorough 10) templates and files with nested, unicode, dot, long (>100 bytes) and odd names and empty / binary / BOM / 60-140 kB content; subcharts as directories and as .tgz, nested to depth 2) and written as a file set by the harness's own YAML and tar writers. Oracle, per leg: (load-files) LoadFiles gives exactly the intended chart; (save) Load(Save(c)) equals the intent, Save leaves c unchanged and returns <dir>/<name>-<version>.tgz; (directory-vs-archive) the same file set written as a directory and as an archive loads to equal charts apart from root entries matching the built-in rule templates/.?*; (save-dir) Load(SaveDir(c)) equals the intent minus those entries. Equality = metadata (JSON text after the documented sanitising), raw values bytes, parsed values, schema bytes, lock (instant, digest, entries), templates and files as name->bytes, dependency tree by chart name, recursively. Non-trivial = chart with a subchart or a binary / BOM file; distinct by the complete file set.")
	evid.Extra("assumptions", []string{
		"file names contain no backslash and no ':' (the archive loader rewrites those on purpose for Windows-made archives)",
		"names are clean relative paths; no two files differ only by path normalisation; subchart names are distinct",
		"v1 charts declare dependencies in requirements.yaml only; a v1 chart has no Chart.lock",
		"values.schema.json is valid JSON; values.yaml is a valid mapping",
		"absent values and an empty values table are compared as equal",
	})
	rapid.Check(t, c15PropA)
}

// ---------------------------------------------------------------------------------------------------------------
// part B

// c15ExpectB computes, from the file list and the rule text alone, whether the directory is a loadable chart and which
// archive entries packaging must produce (entry name -> source bytes; nil = content not compared).
func c15ExpectB(c *c15CaseB) (loadable bool, why string, entries map[string][]byte, nIgnored int, firing map[string]bool) {
	rules := append(c15ParseIgnore(c.Ignore), c15DefaultRules...)
	kept := map[string][]byte{}
	firing = map[string]bool{}
	for _, f := range c.Files {
		ig, fired := c15Ignored(rules, f.Name)
		if ig {
			nIgnored++
			for _, r := range fired {
				firing[r] = true
			}
			continue
		}
		kept[f.Name] = f.Data
	}
	entries = map[string][]byte{}
	if _, ok := kept["Chart.yaml"]; !ok {
		return false, "Chart.yaml is excluded by the rules", nil, nIgnored, firing
	}
	subs := map[string]bool{}
	for n := range kept {
		if strings.HasPrefix(n, "charts/") && n != c.PackedFile {
			subs[strings.SplitN(n, "/", 3)[1]] = true
		}
	}
	for s := range subs {
		if _, ok := kept["charts/"+s+"/Chart.yaml"]; !ok {
			return false, "subchart " + s + " keeps files but its Chart.yaml is excluded", nil, nIgnored, firing
		}
	}
	for n, d := range kept {
		switch {
		case n == "Chart.yaml" || n == "Chart.lock" || strings.HasSuffix(n, "/Chart.yaml"):
			entries[c.Name+"/"+n] = nil // rewritten from the parsed form
		case n == c.PackedFile:
			for _, e := range c.PackedEntries {
				entries[c.Name+"/charts/"+c.PackedName+"/"+e] = nil
			}
		default:
			entries[c.Name+"/"+n] = d
		}
	}
	return true, "", entries, nIgnored, firing
}

func c15JudgeB(tb vt.TB, c *c15CaseB) (cut bool, labels []string, nontrivial bool) {
	rc := c15Replay{Part: "B", B: c}
	fail := func(sig, detail string) bool { return vt.Violation(tb, sig, detail, rc) }
	loadable, why, wantEntries, nIgnored, firing := c15ExpectB(c)
	nRules := len(c15ParseIgnore(c.Ignore))
	labels = append(labels, fmt.Sprintf("rules:%d", nRules))
	if nIgnored > 0 {
		labels = append(labels, "some-file-excluded")
	}
	for _, r := range c15ParseIgnore(c.Ignore) {
		if !firing[r.raw] {
			continue
		}
		switch {
		case r.negate:
			labels = append(labels, "firing:negated")
		case r.dirOnly:
			labels = append(labels, "firing:dir-only")
		case r.rooted:
			labels = append(labels, "firing:rooted")
		case r.slash:
			labels = append(labels, "firing:path")
		case strings.ContainsAny(r.pat, "*?["):
			labels = append(labels, "firing:glob-basename")
		default:
			labels = append(labels, "firing:literal-basename")
		}
	}
	if firing["templates/.?*"] {
		labels = append(labels, "firing:built-in-rule")
	}
	nontrivial = nRules >= 3 && nIgnored > 0

	tmp, err := os.MkdirTemp("", "c15b-")
	if err != nil {
		tb.Fatalf("tempdir: %v", err)
	}
	defer os.RemoveAll(tmp)
	src := filepath.Join(tmp, "src", c.Name)
	if err := c15WriteTree(src, c.Files); err != nil {
		tb.Fatalf("write tree: %v", err)
	}
	out := filepath.Join(tmp, "out")
	if err := os.MkdirAll(out, 0o755); err != nil {
		tb.Fatalf("mkdir: %v", err)
	}
	p := action.NewPackage()
	if c.SecondOfTwo {
		// the same action object packages another chart first (other name, other version, other destination)
		first := filepath.Join(tmp, "first", "decoy")
		if err := c15WriteTree(first, []c15File{c15F("Chart.yaml", []byte("apiVersion: v2\nname: decoy\nversion: 9.9.9-decoy\nappVersion: \"decoy\"\n")), c15F("values.yaml", []byte("decoy: true\n"))}); err != nil {
			tb.Fatalf("write tree: %v", err)
		}
		p.Destination = filepath.Join(tmp, "first-out")
		if err := os.MkdirAll(p.Destination, 0o755); err != nil {
			tb.Fatalf("mkdir: %v", err)
		}
		if _, err := p.Run(first, nil); err != nil {
			tb.Fatalf("harness: packaging the first chart failed: %v", err)
		}
		labels = append(labels, "second-chart-of-one-package-action")
	}
	p.Destination = out
	tgz, err := p.Run(src, nil)
	if !loadable {
		labels = append(labels, "not-a-chart-after-exclusion")
		if err != nil {
			return false, labels, nontrivial
		}
		// an archive was produced: then it contains (at least) a file the rules exclude
		got, _ := c15ReadTgz(tgz)
		var names []string
		for _, f := range got {
			names = append(names, f.Name)
		}
		return fail("C15:excluded-file-in-archive/package", fmt.Sprintf("%s, yet packaging succeeded with entries %q\n.helmignore: %q", why, names, c.Ignore)), labels, nontrivial
	}
	if err != nil {
		return fail("C15:valid-chart-not-packaged/package", fmt.Sprintf("Package: %v\n.helmignore: %q", err, c.Ignore)), labels, nontrivial
	}
	got, err := c15ReadTgz(tgz)
	if err != nil {
		return fail("C15:archive-unreadable/package", err.Error()), labels, nontrivial
	}
	gotNames := map[string][]byte{}
	for _, f := range got {
		if _, dup := gotNames[f.Name]; dup {
			if fail("C15:duplicate-entries/package", f.Name) {
				return true, labels, nontrivial
			}
		}
		gotNames[f.Name] = f.Data
	}
	rules := append(c15ParseIgnore(c.Ignore), c15DefaultRules...)
	var gn []string
	for n := range gotNames {
		gn = append(gn, n)
	}
	sort.Strings(gn)
	for _, n := range gn {
		if _, ok := wantEntries[n]; ok {
			continue
		}
		rel := strings.TrimPrefix(n, c.Name+"/")
		if ig, fired := c15Ignored(rules, rel); ig {
			if fail("C15:excluded-file-in-archive/package", fmt.Sprintf("entry %q is in the archive although rule(s) %q exclude it\n.helmignore: %q\nentries: %q", n, fired, c.Ignore, gn)) {
				return true, labels, nontrivial
			}
			continue
		}
		if fail("C15:unexpected-entry-in-archive/package", fmt.Sprintf("entry %q\n.helmignore: %q\nentries: %q", n, c.Ignore, gn)) {
			return true, labels, nontrivial
		}
	}
	var wn []string
	for n := range wantEntries {
		wn = append(wn, n)
	}
	sort.Strings(wn)
	for _, n := range wn {
		g, ok := gotNames[n]
		if !ok {
			if fail("C15:kept-file-missing-from-archive/package", fmt.Sprintf("%q is not excluded by any rule but is not in the archive\n.helmignore: %q\nentries: %q", n, c.Ignore, gn)) {
				return true, labels, nontrivial
			}
			continue
		}
		if w := wantEntries[n]; w != nil && string(w) != string(g) {
			if fail("C15:file-content-differs/package", fmt.Sprintf("%q: source %s, archived %s", n, c15Q(string(w)), c15Q(string(g)))) {
				return true, labels, nontrivial
			}
		}
	}
	// nothing but the archive is written
	if l := c15Listing(out); l != "d .\nf "+filepath.Base(tgz)+fmt.Sprintf(" %d", c15Size(tgz)) {
		if fail("C15:destination-holds-more-than-the-archive/package", l) {
			return true, labels, nontrivial
		}
	}
	// the packaged chart is the chart the directory loads to
	cD, errD := loader.Load(src)
	cT, errT := loader.Load(tgz)
	if errD != nil || errT != nil {
		return fail("C15:packaged-chart-not-loadable/package", fmt.Sprintf("Load(dir)=%v Load(archive)=%v", errD, errT)), labels, nontrivial
	}
	var diffs []c15Diff
	c15Compare(c15SnapOf(cD), c15SnapOf(cT), "package", c.Name, &diffs)
	return c15Report(tb, diffs, rc), labels, nontrivial
}

func c15Size(p string) int64 {
	fi, err := os.Stat(p)
	if err != nil {
		return -1
	}
	return fi.Size()
}

func c15PropB(t *rapid.T) {
	c := c15GenCaseB(t)
	cut, labels, nontrivial := c15JudgeB(t, c)
	if cut {
		labels = append(labels, "cut-at-known-finding")
	}
	if c.PackedFile != "" {
		labels = append(labels, "packed-subchart")
	}
	var names []string
	for _, f := range c.Files {
		names = append(names, f.Name)
		if strings.HasPrefix(f.Name, "charts/child/") && !c15Has(labels, "directory-subchart") {
			labels = append(labels, "directory-subchart")
		}
	}
	sort.Strings(names)
	labels = c15Uniq(labels)
	evid.Case(labels, strings.Join(names, "|")+"#"+c.Ignore, nontrivial, map[string]interface{}{"files": names, "helmignore": c.Ignore})
}

func c15Has(l []string, s string) bool {
	for _, x := range l {
		if x == s {
			return true
		}
	}
	return false
}

func c15Uniq(l []string) []string {
	sort.Strings(l)
	var out []string
	for i, x := range l {
		if i == 0 || l[i-1] != x {
			out = append(out, x)
		}
	}
	return out
}

func TestC15B(t *testing.T) {
	c15Quiet()
	evid.Extra("rule", "C15B: a chart directory is written by the harness (Chart.yaml v1/v2, optional values / schema / Chart.lock, 1-8 files over a small universe of directory and base names so that rules and names collide, optionally a subchart directory charts/child with its own files and .helmignore, optionally a packed subchart charts/packed-0.3.0.tgz) together with a .helmignore of 0-6 lines drawn from the documented syntax (literals, *, ?, [a-c] classes, leading /, trailing /, paths, leading !, comments, blank lines, padding, CRLF) or derived from an existing file. action.Package is run on it. Oracle: a matcher written from pkg/ignore/doc.go (a file is excluded when a rule matches it or a directory above it; the built-in rule templates/.?* is appended) decides, file by file, whether it must be in the archive; the archive is read with the harness's tar reader: exactly the kept files are entries (byte-identical content for everything except the rewritten Chart.yaml / Chart.lock; a kept packed subchart appears unpacked), no excluded file is, the destination holds only the archive, and Load(archive) equals Load(directory). When the rules exclude Chart.yaml (or a kept subchart's Chart.yaml) packaging must fail. Non-trivial = at least 3 rules and at least one excluded file; distinct by (file names, rule text).")
	evid.Extra("assumptions", []string{"only documented rule syntax is generated (no '**', no escapes, no negated classes)", "Chart.yaml lists no dependencies (packaging checks them against charts/)"})
	rapid.Check(t, c15PropB)
}

// ---------------------------------------------------------------------------------------------------------------
// part C

func c15ChartC(name, version string, subName string) *chart.Chart {
	c := &chart.Chart{
		Metadata:  &chart.Metadata{APIVersion: "v2", Name: name, Version: version},
		Templates: []*chart.File{{Name: "templates/cm.yaml", Data: []byte("kind: ConfigMap\n")}},
		Files:     []*chart.File{{Name: "README.md", Data: []byte("readme\n")}},
		Raw:       []*chart.File{{Name: "values.yaml", Data: []byte("a: 1\n")}},
		Values:    map[string]interface{}{"a": 1},
	}
	if subName != "\x00none" {
		c.AddDependency(&chart.Chart{Metadata: &chart.Metadata{APIVersion: "v2", Name: subName, Version: "0.1.0"}, Files: []*chart.File{{Name: "x.txt", Data: []byte("x")}}})
	}
	return c
}

func c15JudgeC(tb vt.TB, c *c15CaseC) (cut bool, labels []string, nontrivial bool) {
	rc := c15Replay{Part: "C", C: c}
	fail := func(sig, detail string) bool { return vt.Violation(tb, sig, detail, rc) }
	tmp, err := os.MkdirTemp("", "c15c-")
	if err != nil {
		tb.Fatalf("tempdir: %v", err)
	}
	defer os.RemoveAll(tmp)
	// the destination sits two levels down so that "../x" names stay inside tmp and are seen by the listing
	out := filepath.Join(tmp, "w", "out")
	if err := os.MkdirAll(out, 0o755); err != nil {
		tb.Fatalf("mkdir: %v", err)
	}
	if err := os.WriteFile(filepath.Join(out, "sentinel.txt"), []byte("keep"), 0o644); err != nil {
		tb.Fatalf("sentinel: %v", err)
	}
	nameClass, verClass := c15NameClass(c.Name), c15VersionClass(c.Version)
	effVersion := c.Version
	var runErr error
	var produced string
	desc := fmt.Sprintf("route=%s name=%q version=%q flagVersion=%q", c.Route, c.Name, c.Version, c.FlagVersion)
	src := filepath.Join(tmp, "src", "chartdir")
	writeSrc := func(name, version string) {
		e := &c15Emitter{pick: func(int) int { return 2 }} // always double-quoted
		files := []c15File{
			{Name: "Chart.yaml", Data: []byte("apiVersion: v2\nname: " + e.str(name) + "\nversion: " + e.str(version) + "\n")},
			{Name: "values.yaml", Data: []byte("a: 1\n")},
			{Name: "templates/cm.yaml", Data: []byte("kind: ConfigMap\n")},
		}
		if err := c15WriteTree(src, files); err != nil {
			tb.Fatalf("write tree: %v", err)
		}
	}
	before := c15Listing(filepath.Join(tmp, "w"))
	switch c.Route {
	case "save":
		produced, runErr = chartutil.Save(c15ChartC(c.Name, c.Version, "\x00none"), out)
	case "save-dir":
		runErr = chartutil.SaveDir(c15ChartC(c.Name, c.Version, "\x00none"), out)
		verClass = "unclear" // a directory copy is not a package: the version is not judged on this route
	case "save-subchart":
		// the invalid name sits on a subchart of a valid parent; a subchart's version is left unjudged
		produced, runErr = chartutil.Save(c15ChartC("parent", "1.0.0", c.Name), out)
		verClass = "valid"
	case "package":
		writeSrc(c.Name, c.Version)
		p := action.NewPackage()
		p.Destination = out
		produced, runErr = p.Run(src, nil)
	case "package-version-flag":
		writeSrc(c.Name, c.Version)
		p := action.NewPackage()
		p.Destination = out
		p.Version = c.FlagVersion
		effVersion = c.FlagVersion
		// the chart on disk must itself be loadable; the flag then replaces its version
		switch base, flag := c15VersionClass(c.Version), c15VersionClass(c.FlagVersion); {
		case base == "invalid" || flag == "invalid":
			verClass = "invalid"
		case base == "valid" && flag == "valid":
			verClass = "valid"
		default:
			verClass = "unclear"
		}
		produced, runErr = p.Run(src, nil)
	default:
		tb.Fatalf("unknown route %q", c.Route)
	}
	after := c15Listing(filepath.Join(tmp, "w"))
	labels = []string{"route:" + c.Route, "name:" + nameClass, "version:" + verClass}
	switch {
	case nameClass == "invalid" || verClass == "invalid":
		nontrivial = true
		what := "name"
		if nameClass != "invalid" {
			what = "version"
		}
		if runErr == nil {
			sig := "C15:invalid-" + what + "-packaged/" + c.Route
			if what == "name" && c.Name == "/" {
				// one cause on every route: the name checks compare the name with its last path element, and the last
				// path element of "/" is "/"
				sig = "C15:invalid-name-packaged/name-is-a-bare-path-separator"
			}
			return fail(sig, desc+": no error; destination now:\n"+after), labels, nontrivial
		}
		if after != before {
			return fail("C15:rejected-chart-leaves-files-behind/"+c.Route+"/invalid-"+what, desc+": error "+runErr.Error()+"\nbefore:\n"+before+"\nafter:\n"+after), labels, nontrivial
		}
	case nameClass == "valid" && verClass == "valid":
		if runErr != nil {
			return fail("C15:valid-chart-not-packaged/"+c.Route, desc+": "+runErr.Error()), labels, nontrivial
		}
		if c.Route != "save-dir" {
			name := c.Name
			if c.Route == "save-subchart" {
				name, effVersion = "parent", "1.0.0"
			}
			wantPath := filepath.Join(out, name+"-"+effVersion+".tgz")
			if produced != wantPath {
				if fail("C15:archive-path-differs/"+c.Route, fmt.Sprintf("%s: got %q, expected %q", desc, produced, wantPath)) {
					return true, labels, nontrivial
				}
			}
			ch, err := loader.Load(produced)
			if err != nil {
				return fail("C15:saved-chart-not-loadable/"+c.Route, desc+": "+err.Error()), labels, nontrivial
			}
			if ch.Name() != name || ch.Metadata.Version != effVersion {
				return fail("C15:metadata-differs/"+c.Route, fmt.Sprintf("%s: archive holds %q %q", desc, ch.Name(), ch.Metadata.Version)), labels, nontrivial
			}
		}
	default:
		// "." / "..", versions a lenient reader accepts and a strict one rejects: observed, not judged
		evid.Note(fmt.Sprintf("C15C unjudged name:%s version:%s on %s -> error=%v", nameClass, verClass, c.Route, runErr != nil))
	}
	return false, labels, nontrivial
}

func c15PropC(t *rapid.T) {
	c := c15GenCaseC(t)
	cut, labels, nontrivial := c15JudgeC(t, c)
	if cut {
		labels = append(labels, "cut-at-known-finding")
	}
	evid.Case(labels, fmt.Sprintf("%s|%q|%q|%q", c.Route, c.Name, c.Version, c.FlagVersion), nontrivial, c)
}

func TestC15C(t *testing.T) {
	c15Quiet()
	evid.Extra("rule", "C15C: a chart name (valid pool, or invalid: empty / containing a path separator) and a version (strict SemVer 2 texts, generated x.y.z[-pre][+build], or invalid: curated non-versions and valid versions with one forbidden character inserted) are put on one of the routes chartutil.Save (in-memory chart), chartutil.SaveDir (name only), chartutil.Save of a valid parent whose subchart carries the name, action.Package of a chart directory, action.Package --version. Oracle: validity is decided by the harness (name: non-empty and no '/'; version: valid = matches the regular expression published with SemVer 2, invalid = does not even match v?N[.N[.N]][-ids][+ids]; anything in between, '.' and '..' are not judged). Invalid => an error is returned and the directory tree around the destination (it holds a sentinel file) is exactly as before; valid => success, the archive is <dest>/<name>-<version>.tgz and loads with that name and version. Non-trivial = an invalid case; distinct by (route, name, version, flag).")
	evid.Extra("assumptions", []string{"SaveDir is a directory copy, not packaging: only the name is judged there", "the version of a subchart inside a valid parent is not judged"})
	rapid.Check(t, c15PropC)
}

// ---------------------------------------------------------------------------------------------------------------
// replay and known findings

func c15RunReplay(tb vt.TB, raw json.RawMessage) error {
	var rc c15Replay
	if err := json.Unmarshal(raw, &rc); err != nil {
		return err
	}
	switch {
	case rc.Part == "A" && rc.A != nil:
		c15JudgeA(tb, rc.A)
	case rc.Part == "B" && rc.B != nil:
		c15JudgeB(tb, rc.B)
	case rc.Part == "C" && rc.C != nil:
		c15JudgeC(tb, rc.C)
	default:
		return fmt.Errorf("replay case has no part A/B/C")
	}
	return nil
}

type c15ReplayDoc struct {
	Signature string          `json:"signature"`
	Detail    string          `json:"detail"`
	Case      json.RawMessage `json:"case"`
}

func c15VerifRoot() string {
	if r := os.Getenv("VERIF_ROOT"); r != "" {
		return r
	}
	return "/verif"
}

func c15LoadReplayDoc(path string) (*c15ReplayDoc, error) {
	if !filepath.IsAbs(path) {
		path = filepath.Join(c15VerifRoot(), path)
	}
	b, err := os.ReadFile(path)
	if err != nil {
		return nil, err
	}
	var d c15ReplayDoc
	if err := json.Unmarshal(b, &d); err != nil {
		return nil, err
	}
	return &d, nil
}

func c15KnownEntries() []vt.Finding {
	// the replay test always reads the committed list (VERIF_KNOWN only steers which signatures the search excludes)
	path := filepath.Join(c15VerifRoot(), "known_findings.json")
	b, err := os.ReadFile(path)
	if err != nil {
		return nil
	}
	var doc struct {
		Entries []vt.Finding `json:"entries"`
	}
	if json.Unmarshal(b, &doc) != nil {
		return nil
	}
	var out []vt.Finding
	for _, e := range doc.Entries {
		if e.Property == "C15" && e.Status == "known" {
			out = append(out, e)
		}
	}
	return out
}

func TestC15_Known(t *testing.T) {
	c15Quiet()
	for _, e := range c15KnownEntries() {
		d, err := c15LoadReplayDoc(e.Replay)
		if err != nil {
			fmt.Printf("KNOWN-GONE sig=%s :: replay unreadable: %v\n", e.Signature, err)
			continue
		}
		vt.CheckKnown(e.Signature, e.What, func(tb vt.TB) {
			if err := c15RunReplay(tb, d.Case); err != nil {
				tb.Fatalf("replay undecodable: %v", err)
			}
		})
	}
}

func TestC15_Replay(t *testing.T) {
	c15Quiet()
	p := os.Getenv("VERIF_REPLAY_JSON")
	if p == "" {
		t.Skip("no VERIF_REPLAY_JSON")
	}
	d, err := c15LoadReplayDoc(p)
	if err != nil {
		t.Fatal(err)
	}
	if err := c15RunReplay(t, d.Case); err != nil {
		t.Fatal(err)
	}
}
