package props

// C01 — the release revision ledger stays well-formed under any history and faults.

import (
	"encoding/json"
	"fmt"
	"sort"
	"strings"
	"testing"

	"pgregory.net/rapid"

	"helm.sh/helm/v4/pkg/storage"

	"verif/internal/evid"
	"verif/internal/vt"
	"verif/internal/world"
)

// c01GenOp draws one operation (without fault).
func c01GenOp(t *rapid.T, first bool, ver int) *world.Op {
	kinds := []string{"install", "upgrade", "upgrade", "upgrade", "rollback", "rollback", "uninstall"}
	if first {
		kinds = []string{"install", "install", "install", "upgrade", "rollback", "uninstall"}
	}
	return c01GenOpOf(t, kinds, ver)
}

// c01GenOpAfter draws the next operation the way a user reacts to the state of the history: after an uninstall that kept
// the history the name is usually installed again (with --replace), after a failure the release is often uninstalled.
func c01GenOpAfter(t *rapid.T, hist []world.Rev, ver int) *world.Op {
	if len(hist) == 0 {
		return c01GenOp(t, true, ver)
	}
	switch hist[len(hist)-1].Status {
	case "uninstalled":
		op := c01GenOpOf(t, []string{"install", "install", "install", "install", "upgrade", "rollback", "uninstall"}, ver)
		if op.Kind == "install" && rapid.Bool().Draw(t, "replaceAfterUninstall") {
			op.Replace = true
		}
		return op
	case "failed":
		return c01GenOpOf(t, []string{"install", "upgrade", "upgrade", "rollback", "rollback", "uninstall", "uninstall", "uninstall"}, ver)
	}
	return c01GenOp(t, false, ver)
}

func c01GenOpOf(t *rapid.T, kinds []string, ver int) *world.Op {
	op := &world.Op{Kind: rapid.SampledFrom(kinds).Draw(t, "op")}
	op.DisableHooks = rapid.IntRange(0, 3).Draw(t, "noHooks") == 0
	switch op.Kind {
	case "install":
		op.Atomic = rapid.IntRange(0, 2).Draw(t, "atomic") == 0
		op.Replace = rapid.Bool().Draw(t, "replace")
	case "upgrade":
		op.Atomic = rapid.IntRange(0, 2).Draw(t, "atomic") == 0
		op.CleanupOnFail = rapid.Bool().Draw(t, "cleanup")
		op.MaxHistory = rapid.SampledFrom([]int{0, 0, 1, 2, 3, 4}).Draw(t, "maxHistory")
	case "rollback":
		op.Target = rapid.IntRange(0, 6).Draw(t, "target")
		op.CleanupOnFail = rapid.Bool().Draw(t, "cleanup")
		op.MaxHistory = rapid.SampledFrom([]int{0, 0, 1, 2, 3, 4}).Draw(t, "maxHistory")
	case "uninstall":
		op.KeepHistory = rapid.Bool().Draw(t, "keepHistory")
	}
	if op.Kind == "install" || op.Kind == "upgrade" {
		op.Chart = world.ChartSpec{Version: ver, Resources: genResources(t, 3, []string{"", "", "", "", "keep"}), Hooks: genSimpleHooks(t)}
	}
	return op
}

// c01GenFault draws a fault plan for op on world w (positions from the real number of calls the operation makes).
func c01GenFault(t *rapid.T, w *world.World, op *world.Op, allowCrash bool) world.Fault {
	kinds := []string{"none", "none", "kube", "kube", "wait", "store", "store", "store-read"}
	if allowCrash {
		kinds = append(kinds, "crash", "crash")
	}
	kind := rapid.SampledFrom(kinds).Draw(t, "faultKind")
	if kind == "none" {
		return world.Fault{}
	}
	pos := rapid.IntRange(0, 999).Draw(t, "faultPos")
	dry := w.DryCount(op)
	if kind == "store-read" {
		// a storage READ fails (on the Kubernetes backends reads are cluster calls too): position among all storage calls
		// half of the time aimed at one of the "which revision is deployed" lookups (the ones pruning and the
		// supersede step depend on), otherwise anywhere
		total := 0
		var deployedLookups []int
		for _, e := range dry.Events {
			if e.Layer == "store" {
				if e.Verb == "Query" && strings.Contains(e.Key, "deployed") {
					deployedLookups = append(deployedLookups, total)
				}
				total++
			}
		}
		if total == 0 {
			return world.Fault{}
		}
		if len(deployedLookups) > 0 && rapid.Bool().Draw(t, "aimAtDeployedLookup") {
			return world.Fault{Kind: "store", K: deployedLookups[pos*len(deployedLookups)/1000], StoreReads: true}
		}
		return world.Fault{Kind: "store", K: pos * total / 1000, StoreReads: true}
	}
	n := map[string]int{"kube": dry.KubeN, "wait": dry.WaitN, "store": dry.StoreN, "crash": dry.ExtN}[kind]
	if n == 0 {
		return world.Fault{}
	}
	f := world.Fault{Kind: kind, K: pos * n / 1000}
	if kind == "kube" {
		f.Code = rapid.SampledFrom([]int{500, 500, 403, 409}).Draw(t, "faultCode")
	}
	if kind == "store" {
		// Listed known findings are shallow (one particular storage write failing). Aim the fault at the other writes so
		// that a known defect does not end every such history early and hide what lies behind it (construction, not
		// rejection; the avoided positions are counted).
		var writes []world.Event
		for _, e := range dry.Events {
			if e.StoreWrite() {
				writes = append(writes, e)
			}
		}
		var ok []int
		for i, e := range writes {
			sig := ""
			switch {
			case e.Verb == "Update" && e.Note == "superseded":
				sig = "C01:I3-two-deployed/store-fault/store-Update(superseded)"
			case e.Verb == "Update" && e.Note == "deployed" && op.Kind == "install":
				sig = "C01:I4-success-but-created-revision-pending-install/store-fault/store-Update(deployed)"
			}
			if sig != "" && vt.IsKnown(sig) && rapid.IntRange(0, 9).Draw(t, "keepKnownTrigger") != 0 {
				evid.Note("C01:generator-avoided-known-finding-trigger")
				continue
			}
			ok = append(ok, i)
		}
		if len(ok) == 0 {
			return world.Fault{}
		}
		f.K = ok[pos*len(ok)/1000]
	}
	return f
}

type c01Judge struct {
	t     vt.TB
	w     *world.World
	trace []string
	ops   []*world.Op
}

func (j *c01Judge) fail(sig, detail string) bool {
	return vt.Violation(j.t, sig, detail+"\n   "+traceOf(j.trace), map[string]interface{}{"backend": j.w.Backend.Kind, "ops": j.ops, "trace": j.trace})
}

func chartJSON(r world.Rev) string {
	if r.Rel == nil || r.Rel.Chart == nil {
		return "null"
	}
	c := r.Rel.Chart
	b, _ := json.Marshal(map[string]interface{}{"metadata": c.Metadata, "templates": c.Templates, "values": c.Values, "schema": c.Schema, "files": c.Files})
	return string(b)
}

// judge evaluates the ledger invariants for one executed operation. It returns true when the history must be cut
// (a listed known finding was hit).
func (j *c01Judge) judge(op *world.Op, res *world.Result) (cut bool) {
	pre, post := res.Pre, res.Post
	inj := injectedDesc(res.Events)
	storeFault := op.Fault.Kind == "store" && res.Fired
	crashed := res.Crashed
	ctxSig := op.Kind
	if op.Replace && len(pre) > 0 && inj == "none" {
		ctxSig += "-replace" // with an injected fault the root cause is named by the failed call instead
	}
	if op.Atomic && res.Err != nil {
		ctxSig += "-atomic" // atomic only changes the failure path
	}
	ctxSig += "/" + inj
	if storeFault {
		// root cause = which storage write failed (the same unchecked write is reached from several operations,
		// e.g. the supersede write of rollback is also run by the internal rollback of upgrade --atomic)
		ctxSig = "store-fault/" + inj
	}
	if crashed {
		ctxSig = op.Kind + "/crash"
	}

	if res.Panic != nil {
		return j.fail("C01:panic/"+ctxSig, fmt.Sprintf("operation panicked: %v", res.Panic))
	}

	// I1: key, name and revision agree; revisions unique
	seen := map[int]bool{}
	st := storage.Init(j.w.RawDriver())
	for _, r := range post {
		if seen[r.Version] {
			return j.fail("C01:I1-duplicate-revision/"+ctxSig, fmt.Sprintf("revision %d appears twice in %s", r.Version, world.HistString(post)))
		}
		seen[r.Version] = true
		if r.Rel.Name != j.w.Name {
			return j.fail("C01:I1-foreign-name-in-history/"+ctxSig, fmt.Sprintf("record name %q", r.Rel.Name))
		}
		got, err := st.Get(j.w.Name, r.Version)
		if err != nil || got.Version != r.Version || got.Name != j.w.Name {
			return j.fail("C01:I1-key-and-record-disagree/"+ctxSig, fmt.Sprintf("revision %d not readable under its own key: %v", r.Version, err))
		}
	}
	// I2: created revisions are max(pre)+1, +2, ... (1 for an empty history)
	preSet := revSet(pre)
	var created []int
	for _, r := range post {
		if _, ok := preSet[r.Version]; !ok {
			created = append(created, r.Version)
		}
	}
	sort.Ints(created)
	exp := maxRev(pre)
	for _, c := range created {
		exp++
		if c != exp {
			return j.fail("C01:I2-new-revision-not-highest-plus-one/"+ctxSig, fmt.Sprintf("pre %s post %s created %v", world.HistString(pre), world.HistString(post), created))
		}
	}
	// I3: at most one deployed
	if d := deployedRevs(post); len(d) > 1 && len(deployedRevs(pre)) <= 1 {
		return j.fail("C01:I3-two-deployed/"+ctxSig, fmt.Sprintf("pre %s post %s", world.HistString(pre), world.HistString(post)))
	}
	if crashed {
		return false // what a dead process "returns" is not judged
	}
	dry := op.DryRun
	// I4: after reported success
	if res.Err == nil && !dry {
		switch op.Kind {
		case "install", "upgrade", "rollback":
			if len(created) == 0 {
				return j.fail("C01:I4-success-without-new-revision/"+ctxSig, fmt.Sprintf("pre %s post %s", world.HistString(pre), world.HistString(post)))
			}
			top := post[len(post)-1]
			if top.Version != created[len(created)-1] {
				return j.fail("C01:I4-created-revision-not-highest/"+ctxSig, fmt.Sprintf("pre %s post %s", world.HistString(pre), world.HistString(post)))
			}
			if top.Status != "deployed" {
				return j.fail("C01:I4-success-but-created-revision-"+top.Status+"/"+ctxSig, fmt.Sprintf("pre %s post %s", world.HistString(pre), world.HistString(post)))
			}
			postSet := revSet(post)
			for _, d := range deployedRevs(pre) {
				if p, ok := postSet[d]; !ok {
					return j.fail("C01:I4-earlier-deployed-revision-deleted/"+ctxSig, fmt.Sprintf("pre %s post %s", world.HistString(pre), world.HistString(post)))
				} else if p.Status != "superseded" {
					return j.fail("C01:I4-earlier-deployed-revision-"+p.Status+"-not-superseded/"+ctxSig, fmt.Sprintf("pre %s post %s", world.HistString(pre), world.HistString(post)))
				}
			}
			if op.Kind == "rollback" {
				tv := op.Target
				if tv == 0 {
					tv = maxRev(pre) - 1
				}
				tgt, ok := preSet[tv]
				if !ok {
					return j.fail("C01:I4-rollback-to-missing-revision-succeeded/"+ctxSig, fmt.Sprintf("target %d pre %s", tv, world.HistString(pre)))
				}
				if top.Manifest != tgt.Manifest {
					return j.fail("C01:I4-rollback-manifest-differs-from-target/"+ctxSig, fmt.Sprintf("target %d", tv))
				}
				if jsonOf(top.Rel.Config) != jsonOf(tgt.Rel.Config) {
					return j.fail("C01:I4-rollback-values-differ-from-target/"+ctxSig, fmt.Sprintf("target %d: %s vs %s", tv, jsonOf(top.Rel.Config), jsonOf(tgt.Rel.Config)))
				}
				if chartJSON(top) != chartJSON(tgt) {
					return j.fail("C01:I4-rollback-chart-differs-from-target/"+ctxSig, fmt.Sprintf("target %d", tv))
				}
			}
		case "uninstall":
			if !op.KeepHistory && len(post) != 0 {
				return j.fail("C01:I4-uninstall-success-but-history-remains/"+ctxSig, fmt.Sprintf("pre %s post %s", world.HistString(pre), world.HistString(post)))
			}
		}
	}
	// I5 (part that holds even when storage calls fail): pruning never removes the currently deployed revision
	if (op.Kind == "upgrade" || op.Kind == "rollback") && storeFault && !dry && op.MaxHistory > 0 {
		postSet := revSet(post)
		for _, d := range deployedRevs(pre) {
			if _, ok := postSet[d]; !ok {
				return j.fail("C01:I5-pruned-the-deployed-revision/"+ctxSig, fmt.Sprintf("limit %d pre %s post %s", op.MaxHistory, world.HistString(pre), world.HistString(post)))
			}
		}
	}
	// I5: pruning
	if (op.Kind == "upgrade" || op.Kind == "rollback") && !storeFault && !dry {
		postSet := revSet(post)
		var deleted []int
		for _, r := range pre {
			if _, ok := postSet[r.Version]; !ok {
				deleted = append(deleted, r.Version)
			}
		}
		n := op.MaxHistory
		preDep := deployedRevs(pre)
		isPreDep := func(v int) bool {
			for _, d := range preDep {
				if d == v {
					return true
				}
			}
			return false
		}
		if n <= 0 && len(deleted) > 0 {
			return j.fail("C01:I5-revisions-deleted-without-history-limit/"+ctxSig, fmt.Sprintf("pre %s post %s", world.HistString(pre), world.HistString(post)))
		}
		if n > 0 {
			for _, d := range deleted {
				if isPreDep(d) {
					return j.fail("C01:I5-pruned-the-deployed-revision/"+ctxSig, fmt.Sprintf("limit %d pre %s post %s", n, world.HistString(pre), world.HistString(post)))
				}
			}
			if len(deleted) > 0 {
				maxD := deleted[len(deleted)-1]
				for _, r := range pre {
					if _, alive := postSet[r.Version]; alive && !isPreDep(r.Version) && r.Version < maxD {
						return j.fail("C01:I5-pruned-a-newer-revision-before-an-older-one/"+ctxSig, fmt.Sprintf("limit %d pre %s post %s", n, world.HistString(pre), world.HistString(post)))
					}
				}
				if len(pre)+1 <= n {
					return j.fail("C01:I5-pruned-although-within-limit/"+ctxSig, fmt.Sprintf("limit %d pre %s post %s", n, world.HistString(pre), world.HistString(post)))
				}
			}
			if len(created) == 1 {
				// the count clause is stated for one pruning step; an atomic upgrade that fails creates a second
				// revision through an internal rollback (recorded as a note, see DESIGN section 8)
				okCount := len(post) <= n
				if !okCount && len(post) == n+1 && len(post) > 0 && isPreDep(post[0].Version) {
					okCount = true
				}
				if !okCount {
					return j.fail("C01:I5-more-revisions-than-limit/"+ctxSig, fmt.Sprintf("limit %d pre %s post %s", n, world.HistString(pre), world.HistString(post)))
				}
			} else if len(created) > 1 && len(post) > n+1 {
				evid.Note("C01:not-judged/atomic-upgrade-internal-rollback-exceeds-history-limit")
			}
		}
	}
	return false
}

func c01Prop(t *rapid.T) {
	backend := rapid.SampledFrom([]string{"memory", "secret", "configmap"}).Draw(t, "backend")
	w := world.New(backend)
	maxOps := 8
	if vt.Thorough() {
		maxOps = 12
	}
	nops := rapid.IntRange(1, maxOps).Draw(t, "nops")
	j := &c01Judge{t: t, w: w}
	var lbls []string
	lbl := map[string]bool{}
	fired, crashedAny, pruned, rbOrReplace := false, false, false, false
	var fp []string
	// one case in five starts from a long history (revision numbers with two digits: the Kubernetes backends list records
	// by name, where v10 sorts before v2), built by plain operations that are judged like all others
	var prefix []*world.Op
	if rapid.IntRange(0, 4).Draw(t, "longHistory") == 0 {
		for k, n := 0, rapid.IntRange(8, 11).Draw(t, "prefixLen"); k < n; k++ {
			op := &world.Op{Kind: "upgrade", DisableHooks: true, Chart: world.ChartSpec{Version: k + 1, Resources: []world.Res{{Kind: "ConfigMap", Name: "a", Variant: k % 3}}}}
			if k == 0 {
				op.Kind = "install"
			}
			prefix = append(prefix, op)
		}
		nops += len(prefix)
		lbl["long-history"] = true
	}
	for i := 0; i < nops; i++ {
		var op *world.Op
		if i < len(prefix) {
			op = prefix[i]
		} else {
			op = c01GenOpAfter(t, w.History(), i+1)
			if len(prefix) > 0 && op.MaxHistory > 0 && rapid.Bool().Draw(t, "largerLimit") {
				op.MaxHistory += 4
			}
			op.Fault = c01GenFault(t, w, op, backend != "memory")
		}
		j.ops = append(j.ops, op)
		res := w.Run(op)
		line := fmt.Sprintf("%s => err=%v fired=%v crashed=%v %s", op.Describe(), res.Err != nil, res.Fired, res.Crashed, world.HistString(res.Post))
		if res.Err != nil {
			line += fmt.Sprintf("  (%.120s)", res.Err.Error())
		}
		j.trace = append(j.trace, line)
		fp = append(fp, op.Describe())
		if res.Fired {
			fired = true
			lbl["fault-fired:"+op.Fault.Kind] = true
		}
		if res.Crashed {
			crashedAny = true
		}
		postSet := revSet(res.Post)
		for _, r := range res.Pre {
			if _, ok := postSet[r.Version]; !ok && op.Kind != "uninstall" && !(op.Kind == "install" && op.Atomic) {
				pruned = true
			}
		}
		if len(res.Post) > len(res.Pre) && (op.Kind == "rollback" || (op.Kind == "install" && op.Replace && len(res.Pre) > 0)) {
			rbOrReplace = true
		}
		lbl["op:"+op.Kind] = true
		if j.judge(op, res) {
			lbl["cut-at-known-finding"] = true
			break
		}
		// thorough tier: exhaustive single-fault placement for the last operation, on clones of the pre-state
		if vt.Thorough() && i == nops-1 && rapid.IntRange(0, 3).Draw(t, "exhaustLast") == 0 {
			// note: the pre-state of the last operation is rebuilt by replaying the history, see c01Exhaust
			c01Exhaust(t, j, backend)
		}
	}
	for k := range lbl {
		lbls = append(lbls, k)
	}
	sort.Strings(lbls)
	lbls = append(lbls, "backend:"+backend)
	if pruned {
		lbls = append(lbls, "pruned")
	}
	if crashedAny {
		lbls = append(lbls, "crashed")
	}
	nontrivial := len(j.ops) >= 2 && (fired || crashedAny || pruned || rbOrReplace)
	evid.Case(lbls, backend+"|"+strings.Join(fp, ";"), nontrivial, map[string]interface{}{"backend": backend, "history": j.trace})
}

// c01Exhaust replays the history up to (excluding) its last operation and then runs that last operation once per
// fault kind and position k in [0, n), each on its own clone, judging every run.
func c01Exhaust(t *rapid.T, j *c01Judge, backend string) {
	base := world.New(backend)
	ops := j.ops
	for _, op := range ops[:len(ops)-1] {
		base.Run(op)
	}
	last := ops[len(ops)-1]
	kn, wn, sn, en := base.Count(last)
	plans := []struct {
		kind string
		n    int
	}{{"kube", kn}, {"wait", wn}, {"store", sn}}
	if backend != "memory" {
		plans = append(plans, struct {
			kind string
			n    int
		}{"crash", en})
	}
	runs := 0
	for _, p := range plans {
		for k := 0; k < p.n; k++ {
			c := base.Clone()
			o := *last
			o.Fault = world.Fault{Kind: p.kind, K: k}
			res := c.Run(&o)
			jj := &c01Judge{t: j.t, w: c, ops: append(append([]*world.Op(nil), ops[:len(ops)-1]...), &o)}
			jj.trace = append(append([]string(nil), j.trace[:len(j.trace)-1]...), fmt.Sprintf("[exhaustive] %s => err=%v fired=%v %s", o.Describe(), res.Err != nil, res.Fired, world.HistString(res.Post)))
			jj.judge(&o, res)
			runs++
		}
	}
	evid.AddExtraInt("exhaustive_last_op_fault_runs", runs)
}

// c01RunCase executes a concrete history (known-finding replays, saved replays) through the same judge.
func c01RunCase(tb vt.TB, backend string, ops []*world.Op) {
	w := world.New(backend)
	j := &c01Judge{t: tb, w: w}
	for _, op := range ops {
		j.ops = append(j.ops, op)
		res := w.Run(op)
		j.trace = append(j.trace, fmt.Sprintf("%s => err=%v fired=%v crashed=%v %s", op.Describe(), res.Err != nil, res.Fired, res.Crashed, world.HistString(res.Post)))
		if j.judge(op, res) {
			return
		}
	}
}

func TestC01_Known(t *testing.T) { runKnownWorldCases(t, "C01", c01RunCase) }

func TestC01_Replay(t *testing.T) { replayWorldCase(t, c01RunCase) }

const c01Rule = "C01: rapid-generated histories (1..8 operations quick, 1..12 thorough) of install/upgrade/rollback/uninstall with flags (atomic, replace, cleanup-on-fail, keep-history, max-history 0..4, no-hooks) over generated charts and hook sets (the next operation is drawn with weights that follow the state of the history: a reinstall with --replace after an uninstall that kept the history, more uninstalls after a failure), on the memory, Secret and ConfigMap backends (the two Kubernetes backends list records by name, as an API server does); one case in five starts from a history of 9-12 revisions; each operation draws a fault plan (none | k-th cluster request rejected | k-th waiter call fails | k-th storage write fails | a storage READ fails, half of them aimed at the 'which revision is deployed' lookups | process death at external call k) with k drawn from the number of calls the operation really makes (counted on a clone); the thorough tier additionally enumerates every k for every fault kind for the last operation of a quarter of the histories. Ledger invariants I1-I5 are evaluated after every operation, including the recovery operations after a crash. Non-trivial = at least 2 operations and (a fault fired, or a crash happened, or pruning deleted a revision, or a rollback / install --replace created a revision); distinct by (backend, operations with flags and fault positions)."

var c01Assumptions = []string{
	"the cluster is the in-memory API-server simulator behind the real kube.Client (no admission, defaulting, conflicts, finalizers)",
	"readiness and hook completion are scripted waiter outcomes",
	"a crash is modelled as: from external call k on, every storage and cluster call of that operation fails without effect and the operation's in-memory state is discarded",
	"the memory backend persists copies of records (as the Kubernetes backends do), not the caller's live pointers",
	"SQL backend not covered",
}

func TestC01(t *testing.T) {
	evid.Extra("rule", c01Rule)
	evid.Extra("assumptions", c01Assumptions)
	rapid.Check(t, c01Prop)
}
