package props

// C03 — a failed operation is contained; --atomic restores the last good state.

import (
	"fmt"
	"regexp"
	"sort"
	"strings"
	"testing"

	"pgregory.net/rapid"

	"verif/internal/evid"
	"verif/internal/vt"
	"verif/internal/world"
)

func c03GenOp(t *rapid.T, first bool, ver int) *world.Op {
	kinds := []string{"upgrade", "upgrade", "upgrade", "rollback", "rollback", "install", "uninstall"}
	if first {
		kinds = []string{"install"}
	}
	op := &world.Op{Kind: rapid.SampledFrom(kinds).Draw(t, "op")}
	op.DisableHooks = rapid.IntRange(0, 3).Draw(t, "noHooks") == 0
	switch op.Kind {
	case "install":
		op.Atomic = rapid.Bool().Draw(t, "atomic")
		op.Replace = !first && rapid.Bool().Draw(t, "replace")
	case "upgrade":
		op.Atomic = rapid.Bool().Draw(t, "atomic")
		op.CleanupOnFail = rapid.Bool().Draw(t, "cleanup")
	case "rollback":
		op.Target = rapid.IntRange(0, 4).Draw(t, "target")
		op.CleanupOnFail = rapid.Bool().Draw(t, "cleanup")
	case "uninstall":
		op.KeepHistory = rapid.Bool().Draw(t, "keepHistory")
	}
	if op.Kind == "install" || op.Kind == "upgrade" {
		op.Chart = world.ChartSpec{Version: ver, Resources: genResources(t, 4, nil), Hooks: genSimpleHooks(t)}
	}
	return op
}

// c03HitsStaleObject reports whether op's cluster-request fault lands on the GET or DELETE of an object that the
// operation deletes as stale (a non-hook object deleted in a fault-free run).
func c03HitsStaleObject(w *world.World, op *world.Op) bool {
	if op.Fault.Kind != "kube" {
		return false
	}
	dry := w.DryCount(op)
	stale := map[string]bool{}
	for _, e := range dry.Events {
		if e.Layer == "kube" && e.Verb == "DELETE" && !isHookKey(e.Key) {
			stale[e.Key] = true
		}
	}
	k := 0
	for _, e := range dry.Events {
		if e.Layer != "kube" || e.Key == "/version" {
			continue
		}
		if k == op.Fault.K {
			return stale[e.Key] && (e.Verb == "GET" || e.Verb == "DELETE")
		}
		k++
	}
	return false
}

func c03GenFault(t *rapid.T, w *world.World, op *world.Op) world.Fault {
	// the first install is faulted less often, so that histories with a deployed revision (the base every upgrade and
	// rollback fault needs) are common
	weights := []string{"none", "phased", "phased", "uniform"}
	if len(w.History()) == 0 {
		weights = []string{"none", "none", "none", "phased", "uniform"}
	}
	how := rapid.SampledFrom(weights).Draw(t, "faultHow")
	if how == "none" || op.Kind == "uninstall" {
		return world.Fault{}
	}
	if how == "phased" {
		return genPhasedFault(t, w, op)
	}
	kind := rapid.SampledFrom([]string{"kube", "kube", "kube", "wait"}).Draw(t, "faultKind")
	pos := rapid.IntRange(0, 999).Draw(t, "faultPos")
	kn, wn, _, _ := w.Count(op)
	n := map[string]int{"kube": kn, "wait": wn}[kind]
	if n == 0 {
		return world.Fault{}
	}
	f := world.Fault{Kind: kind, K: pos * n / 1000}
	if kind == "kube" {
		f.Code = rapid.SampledFrom([]int{500, 500, 403, 409}).Draw(t, "faultCode")
	}
	return f
}

var atomicAbortRe = regexp.MustCompile(`(?s)an error occurred while rolling back the release.*no \w+ with the name "[^"]+" found`)

type c03Judge struct {
	t     vt.TB
	w     *world.World
	ops   []*world.Op
	trace []string
	*revTracker
}

func (j *c03Judge) fail(sig, detail string) bool {
	return vt.Violation(j.t, sig, detail+"\n   "+traceOf(j.trace), map[string]interface{}{"backend": j.w.Backend.Kind, "ops": j.ops, "trace": j.trace})
}

// clusterMatches checks C02(a) for the spec: every resource exists and manifest ⊑ live.
func clusterMatches(c *world.Cluster, spec world.ChartSpec) string {
	for _, r := range spec.Resources {
		live := c.Get(r.Path())
		if live == nil {
			return fmt.Sprintf("%s is missing from the cluster", r.Key())
		}
		if d := subsetOf(normObj(r.Object()), live, r.Key()); d != "" {
			return d
		}
	}
	return ""
}

func (j *c03Judge) judge(op *world.Op, res *world.Result, preCluster map[string]string) (cut bool) {
	defer j.observe(op, res)
	if !res.Fired || op.Kind == "uninstall" {
		return false
	}
	pre, post := res.Pre, res.Post
	phase := faultPhase(res.Events)
	ctx := op.Kind
	if op.Atomic && res.Err != nil {
		ctx += "-atomic" // atomic only changes the failure path
	}
	ctx += "/" + phase
	// The recovery clauses (atomic) speak about one failure. If the cluster rejected more than one call of this
	// operation - e.g. the injected fault left a hook object behind and re-creating it later got 409 because its
	// policy lacks before-hook-creation, or the operation failed on its own and the injected fault then hit the
	// recovery's deletes - the recovery itself was refused by the cluster and those clauses are not judged.
	rejections := 0
	for _, e := range res.Events {
		if (e.Layer == "kube" && (e.Injected || (e.Code >= 400 && e.Code != 404))) || (e.Layer == "wait" && e.Code != 0) {
			rejections++
		}
	}
	secondary := rejections > 1
	hs := fmt.Sprintf("pre %s post %s", world.HistString(pre), world.HistString(post))

	if res.Panic != nil {
		return j.fail("C03:panic/"+ctx, fmt.Sprintf("%v", res.Panic))
	}
	// 1. the operation returns an error
	if res.Err == nil {
		// one root cause whatever the operation: kube update only logs a failing GET / DELETE of a STALE object (one the
		// old manifest names and the new one does not)
		var newSpec *world.ChartSpec
		switch op.Kind {
		case "install", "upgrade":
			newSpec = &op.Chart
		case "rollback":
			tv := op.Target
			if tv == 0 {
				tv = maxRev(pre) - 1
			}
			if sp, ok := j.specOf[tv]; ok {
				newSpec = &sp
			}
		}
		if newSpec != nil && (phase == "resource-GET" || phase == "resource-DELETE") {
			inNew := false
			for _, e := range res.Events {
				if e.Injected {
					for _, r := range newSpec.Resources {
						if r.Path() == e.Key {
							inNew = true
						}
					}
				}
			}
			if !inNew {
				return j.fail("C03:fault-but-operation-reported-success/stale-object-"+strings.TrimPrefix(phase, "resource-"), hs)
			}
		}
		return j.fail("C03:fault-but-operation-reported-success/"+ctx, hs)
	}
	preSet, postSet := revSet(pre), revSet(post)
	var created []world.Rev
	for _, r := range post {
		if _, ok := preSet[r.Version]; !ok {
			created = append(created, r)
		}
	}
	preDep := deployedRevs(pre)
	atomicUpgrade := op.Kind == "upgrade" && op.Atomic
	atomicInstall := op.Kind == "install" && op.Atomic

	// 2. the revision it created is failed
	if !atomicUpgrade && !atomicInstall {
		for _, c := range created {
			if c.Status != "failed" {
				return j.fail("C03:created-revision-left-"+c.Status+"/"+ctx, hs)
			}
		}
		if len(created) > 1 {
			return j.fail("C03:more-than-one-revision-created/"+ctx, hs)
		}
	}
	// 3. install/upgrade: the previously deployed revision keeps its deployed status
	if (op.Kind == "install" || op.Kind == "upgrade") && !atomicUpgrade && !atomicInstall && len(preDep) == 1 {
		if p, ok := postSet[preDep[0]]; !ok || p.Status != "deployed" {
			st := "deleted"
			if ok {
				st = p.Status
			}
			return j.fail("C03:previously-deployed-revision-became-"+st+"/"+ctx, hs)
		}
	}
	// 3b. a rollback that its pre-rollback hook stopped has not touched any resource: the deployed revision is still the
	// one that is running and keeps its status
	if op.Kind == "rollback" && phase == "pre-hook" && !secondary && len(preDep) == 1 {
		if p, ok := postSet[preDep[0]]; !ok || p.Status != "deployed" {
			st := "deleted"
			if ok {
				st = p.Status
			}
			return j.fail("C03:deployed-revision-became-"+st+"-although-the-rollback-was-stopped-before-touching-anything/"+ctx, hs)
		}
	}
	// 4. cleanup-on-fail: resources this upgrade newly created are deleted again
	if op.Kind == "upgrade" && op.CleanupOnFail {
		for _, e := range res.Events {
			if e.Layer == "kube" && e.Verb == "POST" && e.Code == 201 && !isHookKey(e.Key) {
				if _, existed := preCluster[e.Key]; !existed {
					if j.w.Cluster.Get(e.Key) != nil {
						// with --atomic the rollback may legitimately need the object if the restored manifest names it
						if atomicUpgrade {
							continue
						}
						if secondary {
							// the cluster rejected more than one call (e.g. the operation failed by itself and the injected
							// fault then hit the cleanup's own DELETE): outside the one-failure reading of the clause
							evid.Note("C03:not-judged/cleanup-on-fail-with-more-than-one-rejected-call")
							continue
						}
						return j.fail("C03:cleanup-on-fail-left-newly-created-resource/"+ctx, fmt.Sprintf("%s still exists; %s", e.Key, hs))
					}
				}
			}
		}
	}
	if secondary && (atomicUpgrade || atomicInstall) {
		evid.Note("C03:not-judged/atomic-recovery-hit-a-second-cluster-rejection")
		return false
	}
	// 5. atomic upgrade
	if atomicUpgrade && len(created) > 0 {
		last := 0
		for v := range j.everDep {
			if v > last {
				last = v
			}
		}
		if j.everUninstalled {
			evid.Note("C03:not-judged/atomic-restore-after-uninstall-with-kept-history")
		} else if last > 0 {
			if _, still := preSet[last]; still {
				top := post[len(post)-1]
				if (top.Status != "deployed" || len(created) < 2) && atomicAbortRe.MatchString(res.Err.Error()) {
					// one root cause whatever the fault: the internal rollback diffs against the failed revision
					return j.fail("C03:atomic-rollback-aborted-object-exists-but-is-not-in-the-failed-manifest/upgrade-atomic", fmt.Sprintf("%s err=%.300v", hs, res.Err))
				}
				if top.Status != "deployed" || len(created) < 2 {
					return j.fail("C03:atomic-upgrade-did-not-end-with-a-new-deployed-revision/"+ctx, fmt.Sprintf("%s err=%.200v", hs, res.Err))
				}
				if top.Manifest != j.everDep[last] {
					// root cause seen so far: a failing rollback marks the (failed, never deployed) last revision superseded,
					// and --atomic then returns to the highest superseded-or-deployed revision
					for _, r := range pre {
						if _, dep := j.everDep[r.Version]; !dep && r.Status == "superseded" && r.Manifest == top.Manifest {
							return j.fail("C03:atomic-upgrade-restored-a-superseded-revision-that-was-never-deployed/upgrade-atomic", fmt.Sprintf("restored the manifest of revision %d; %s", r.Version, hs))
						}
					}
					return j.fail("C03:atomic-upgrade-restored-wrong-manifest/"+ctx, fmt.Sprintf("restored manifest is not that of revision %d (the most recent revision that had been deployed); %s", last, hs))
				}
				if spec, ok := j.specOf[last]; ok {
					if d := clusterMatches(j.w.Cluster, spec); d != "" {
						return j.fail("C03:atomic-upgrade-cluster-does-not-match-restored-manifest/"+ctx, d+"; "+hs)
					}
					want := spec.ResByKey()
					for _, r := range op.Chart.Resources {
						if _, keep := want[r.Key()]; keep {
							continue
						}
						if _, existed := preCluster[r.Path()]; existed {
							continue
						}
						if j.w.Cluster.Get(r.Path()) != nil {
							return j.fail("C03:atomic-upgrade-left-object-of-failed-manifest/"+ctx, r.Key()+" still exists; "+hs)
						}
					}
				}
			}
		}
	}
	// 6. atomic install
	if atomicInstall && len(pre) == 0 {
		if len(post) != 0 {
			return j.fail("C03:atomic-install-left-history/"+ctx, hs)
		}
		for _, r := range op.Chart.Resources {
			if _, existed := preCluster[r.Path()]; existed {
				continue // an orphan of an earlier failed release, not created by this install
			}
			if j.w.Cluster.Get(r.Path()) != nil {
				return j.fail("C03:atomic-install-left-resource/"+ctx, r.Key()+" still exists; "+hs)
			}
		}
	}
	return false
}

func c03RunCase(tb vt.TB, backend string, ops []*world.Op) {
	w := world.New(backend)
	j := &c03Judge{t: tb, w: w, revTracker: newRevTracker()}
	for _, op := range ops {
		j.ops = append(j.ops, op)
		preCluster := w.Cluster.Snapshot()
		res := w.Run(op)
		j.trace = append(j.trace, c03Line(op, res))
		if j.judge(op, res, preCluster) {
			return
		}
	}
}

func c03Line(op *world.Op, res *world.Result) string {
	line := fmt.Sprintf("%s => err=%v fired=%v(%s) %s", op.Describe(), res.Err != nil, res.Fired, faultPhase(res.Events), world.HistString(res.Post))
	if res.Err != nil {
		line += fmt.Sprintf("  (%.140s)", res.Err.Error())
	}
	return line
}

func c03Prop(t *rapid.T) {
	backend := rapid.SampledFrom([]string{"memory", "secret", "configmap"}).Draw(t, "backend")
	w := world.New(backend)
	maxOps := 6
	if vt.Thorough() {
		maxOps = 9
	}
	nops := rapid.IntRange(2, maxOps).Draw(t, "nops")
	j := &c03Judge{t: t, w: w, revTracker: newRevTracker()}
	lbl := map[string]bool{}
	var fp []string
	nontrivial := false
	var lastFailedInstall *world.ChartSpec
	for i := 0; i < nops; i++ {
		op := c03GenOp(t, len(w.History()) == 0, i+1)
		// a failed install is often retried with --replace (the leftovers of the first attempt are adopted)
		if h := w.History(); lastFailedInstall != nil && len(h) > 0 && h[len(h)-1].Status == "failed" && len(deployedRevs(h)) == 0 && rapid.Bool().Draw(t, "retryInstallReplace") {
			op = &world.Op{Kind: "install", Replace: true, Atomic: rapid.Bool().Draw(t, "retryAtomic"), DisableHooks: rapid.Bool().Draw(t, "retryNoHooks"), Chart: *lastFailedInstall}
			op.Chart.Version = i + 1
			if rapid.Bool().Draw(t, "retryChanged") {
				op.Chart.Resources = append([]world.Res(nil), op.Chart.Resources...)
				op.Chart.Resources[0].Variant = (op.Chart.Resources[0].Variant + 1) % 3
			}
			lbl["retry-failed-install-with-replace"] = true
		}
		// aimed away from the triggers of two recorded findings in three cases out of four (each cut history is one
		// that explores nothing behind it); the avoided draws are counted
		if op.Kind == "upgrade" && op.Atomic && rapid.IntRange(0, 3).Draw(t, "avoidKnownAtomicAbort") > 0 {
			// known: the internal rollback aborts when the upgrade drops a resource of the deployed revision
			if d := deployedRevs(w.History()); len(d) > 0 {
				if base, ok := j.specOf[d[len(d)-1]]; ok {
					have := op.Chart.ResByKey()
					for _, r := range base.Resources {
						if _, ok := have[r.Key()]; !ok {
							op.Chart.Resources = append(op.Chart.Resources, r)
							evid.Note("C03:generator/atomic-upgrade-keeps-the-deployed-resources (avoids a known finding)")
						}
					}
				}
			}
		}
		op.Fault = c03GenFault(t, w, op)
		if (op.Kind == "upgrade" || op.Kind == "rollback") && op.Fault.Kind == "kube" && rapid.IntRange(0, 3).Draw(t, "avoidKnownStaleSwallow") > 0 {
			// known: a rejected GET/DELETE of a stale object (deleted at the end of the update) is swallowed
			for try := 0; try < 4 && c03HitsStaleObject(w, op); try++ {
				evid.Note("C03:generator/fault-moved-off-a-stale-object-request (avoids a known finding)")
				op.Fault = c03GenFault(t, w, op)
			}
		}
		j.ops = append(j.ops, op)
		preCluster := w.Cluster.Snapshot()
		res := w.Run(op)
		j.trace = append(j.trace, c03Line(op, res))
		fp = append(fp, op.Describe())
		if res.Fired {
			ph := faultPhase(res.Events)
			lbl["fired:"+op.Kind+":"+ph] = true
			if op.Atomic {
				lbl["fired-atomic:"+op.Kind] = true
			}
			if op.CleanupOnFail {
				lbl["fired-cleanup-on-fail:"+op.Kind] = true
			}
			// non-trivial: the operation had already issued a request or written a record before the fault
			for _, e := range res.Events {
				if e.Injected {
					break
				}
				if e.Mutating() || e.StoreWrite() {
					nontrivial = true
				}
			}
		}
		if op.Kind == "install" && res.Err != nil && len(res.Post) > 0 && res.Post[len(res.Post)-1].Status == "failed" {
			c := op.Chart
			lastFailedInstall = &c
		}
		if j.judge(op, res, preCluster) {
			lbl["cut-at-known-finding"] = true
			break
		}
		if vt.Thorough() && i == nops-1 && op.Kind != "uninstall" && rapid.IntRange(0, 2).Draw(t, "exhaustLast") == 0 {
			c03Exhaust(j, backend)
		}
	}
	var lbls []string
	for k := range lbl {
		lbls = append(lbls, k)
	}
	sort.Strings(lbls)
	evid.Case(lbls, backend+"|"+strings.Join(fp, ";"), nontrivial, map[string]interface{}{"backend": backend, "history": j.trace})
}

// c03Exhaust re-runs the last operation of the history once for every cluster request index and every waiter call index.
func c03Exhaust(j *c03Judge, backend string) {
	ops := j.ops
	last := ops[len(ops)-1]
	replay := func() (*world.World, *c03Judge) {
		w := world.New(backend)
		jj := &c03Judge{t: j.t, w: w, revTracker: newRevTracker()}
		for _, op := range ops[:len(ops)-1] {
			jj.ops = append(jj.ops, op)
			pc := w.Cluster.Snapshot()
			res := w.Run(op)
			jj.trace = append(jj.trace, c03Line(op, res))
			jj.observe(op, res)
			_ = pc
		}
		return w, jj
	}
	base, _ := replay()
	kn, wn, _, _ := base.Count(last)
	runs := 0
	for _, p := range []struct {
		kind string
		n    int
	}{{"kube", kn}, {"wait", wn}} {
		for k := 0; k < p.n; k++ {
			w, jj := replay()
			o := *last
			o.Fault = world.Fault{Kind: p.kind, K: k}
			jj.ops = append(jj.ops, &o)
			pc := w.Cluster.Snapshot()
			res := w.Run(&o)
			jj.trace = append(jj.trace, "[exhaustive] "+c03Line(&o, res))
			jj.judge(&o, res, pc)
			runs++
		}
	}
	evid.AddExtraInt("exhaustive_last_op_fault_runs", runs)
}

func TestC03(t *testing.T) {
	evid.Extra("rule", "C03: rapid-generated histories (1..6 operations quick, 1..9 thorough) of install/upgrade/rollback/uninstall x atomic x cleanup-on-fail x no-hooks over generated charts (1-4 resources of 5 kinds, 0-3 hooks) on the three backends (a rollback that its pre-rollback hook stops must leave the deployed revision deployed); every install/upgrade/rollback draws one cluster-side fault (k-th cluster request rejected with 500/403/409, or k-th waiter call failing: readiness, hook completion, deletion) at a position drawn from the calls the operation really makes (half of the faults balanced over the phases pre-hook / each request verb / readiness wait / post-hook; a failed install is retried with --replace over its own leftovers in half of the cases; three draws in four avoid the triggers of two recorded findings, counted in the notes); the thorough tier also enumerates every request index and waiter index for the last operation of a third of the histories. When the fault fired: the operation must return an error, the revision it created must be failed, the previously deployed revision must stay deployed (install/upgrade), cleanup-on-fail must remove newly created resources, atomic upgrade must end in a new deployed revision equal to the most recent ever-deployed one with a matching cluster, atomic install must leave neither history nor resources. Non-trivial = a fault fired after the operation had already issued a cluster write or a storage write; distinct by (backend, operations with flags and fault positions).")
	evid.Extra("assumptions", append([]string{"charts carry no resource-policy annotations and no objects pre-exist (C07/C02 cover those)", "exactly one cluster-side fault per operation; storage faults belong to C01"}, c01Assumptions[:2]...))
	rapid.Check(t, c03Prop)
}

func TestC03_Known(t *testing.T)  { runKnownWorldCases(t, "C03", c03RunCase) }
func TestC03_Replay(t *testing.T) { replayWorldCase(t, c03RunCase) }
