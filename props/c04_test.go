package props

// C04 — every value comes from the highest-precedence source that defines it.
// A: flag families and files (Options.MergeValues)   B: the --set grammars (strvals)   C: chart-tree coalescing.

import (
	"encoding/json"
	"fmt"
	"os"
	"path/filepath"
	"sort"
	"strings"
	"testing"

	"pgregory.net/rapid"
	"sigs.k8s.io/yaml"

	chart "helm.sh/helm/v4/pkg/chart/v2"
	chartutil "helm.sh/helm/v4/pkg/chart/v2/util"
	"helm.sh/helm/v4/pkg/cli/values"
	"helm.sh/helm/v4/pkg/getter"
	"helm.sh/helm/v4/pkg/strvals"

	"verif/internal/evid"
	"verif/internal/vt"
)

// ---------------------------------------------------------------- generators

var c04Keys = []string{"a", "b", "c", "x"}
var c04OddKeys = []string{"k8s.io/role", "with,comma", "eq=sign", "br[ack", "sp ace", "ü", "a-b_c"}

func c04GenPath(t *rapid.T, odd bool) []pathSeg {
	n := rapid.IntRange(1, 3).Draw(t, "pathLen")
	var p []pathSeg
	for j := 0; j < n; j++ {
		if j > 0 && rapid.IntRange(0, 3).Draw(t, "isIdx") == 0 {
			p = append(p, pathSeg{Idx: rapid.IntRange(0, 2).Draw(t, "idx")})
			continue
		}
		k := rapid.SampledFrom(c04Keys).Draw(t, "key")
		if odd && rapid.IntRange(0, 3).Draw(t, "oddKey") == 0 {
			k = rapid.SampledFrom(c04OddKeys).Draw(t, "okey")
		}
		p = append(p, pathSeg{Key: k, Idx: -1})
	}
	return p
}

// c04GenTyped draws a value of --set with its documented typing: true/false/null in any case, 0, integers without a
// leading zero, digit strings with a leading zero stay strings, plain and escaped text, {a,b} lists, empty value.
func c04GenTyped(t *rapid.T) (interface{}, string) {
	switch rapid.IntRange(0, 8).Draw(t, "valKind") {
	case 0:
		b := rapid.Bool().Draw(t, "bool")
		lit := fmt.Sprint(b)
		switch rapid.IntRange(0, 2).Draw(t, "case") {
		case 1:
			lit = strings.ToUpper(lit)
		case 2:
			lit = strings.ToUpper(lit[:1]) + lit[1:]
		}
		return b, lit
	case 1:
		return nil, rapid.SampledFrom([]string{"null", "NULL", "Null"}).Draw(t, "null")
	case 2:
		n := rapid.Int64Range(-50, 50).Draw(t, "int")
		return n, fmt.Sprint(n)
	case 3:
		s := rapid.SampledFrom([]string{"007", "00", "0123"}).Draw(t, "lz")
		return s, s
	case 4:
		s := rapid.SampledFrom([]string{"x", "hello world", "a,b", "{brace", "tr}ail", "ü", "x=y", "a.b", "v1.2.3", "[br]"}).Draw(t, "str")
		return s, escapeRunes(s, ",{")
	case 5:
		return []interface{}{"p", int64(2), true}, "{p,2,true}"
	case 6:
		return []interface{}{"only"}, "{only}"
	case 7:
		return "", ""
	default:
		return int64(0), "0"
	}
}

func c04GenTree(t *rapid.T, depth int, label string) map[string]interface{} {
	m := map[string]interface{}{}
	n := rapid.IntRange(0, 3).Draw(t, label+"N")
	for i := 0; i < n; i++ {
		k := rapid.SampledFrom(c04Keys).Draw(t, label+"K")
		switch rapid.IntRange(0, 7).Draw(t, label+"V") {
		case 0:
			m[k] = nil
		case 1:
			m[k] = rapid.SampledFrom([]string{"s", "", "yes"}).Draw(t, label+"S")
		case 2:
			m[k] = float64(rapid.IntRange(0, 3).Draw(t, label+"I"))
		case 3:
			m[k] = rapid.Bool().Draw(t, label+"B")
		case 4:
			m[k] = []interface{}{"l", float64(rapid.IntRange(1, 2).Draw(t, label+"L"))}
		case 5:
			m[k] = []interface{}{map[string]interface{}{"a": "in-list"}}
		default:
			if depth > 0 {
				m[k] = c04GenTree(t, depth-1, label+k)
			} else {
				m[k] = "leaf"
			}
		}
	}
	return m
}

// ---------------------------------------------------------------- A: flag families

type c04ACase struct {
	Files    []string `json:"files"`                     // YAML text of each -f file, in order
	Again    []int    `json:"filesGivenAgain,omitempty"` // indexes into Files: -f arguments after the last file that name an earlier file once more
	JSON     []string `json:"setJSON"`                   // --set-json arguments
	Set      []string `json:"set"`                       // --set arguments
	String   []string `json:"setString"`
	File     []string `json:"setFile"`  // --set-file arguments (path=content-file-index)
	FileData []string `json:"fileData"` // contents referenced by --set-file
	Literal  []string `json:"setLiteral"`
	Expected string   `json:"expected"` // canonical JSON of the reference result, "" if the reference calls the case ill-typed
}

func c04AProp(t *rapid.T) {
	var c c04ACase
	ref := map[string]interface{}{}
	ok := true
	defined := map[string]int{} // top-level key -> number of sources touching it
	var fileTrees []map[string]interface{}
	touch := func(k string) { defined[k]++ }
	// -f files, earlier < later
	for i, n := 0, rapid.IntRange(0, 3).Draw(t, "nFiles"); i < n; i++ {
		tree := c04GenTree(t, 2, fmt.Sprintf("f%d", i))
		y, _ := yaml.Marshal(tree)
		text := string(y)
		if rapid.IntRange(0, 5).Draw(t, "comment") == 0 {
			text = "# comment\n" + text
		}
		// one file in four holds a second YAML document: the documents of one file are layered in order like files
		// (a table named again merges key by key; the file as a whole is then layered over the earlier sources)
		if rapid.IntRange(0, 3).Draw(t, "secondDocument") == 0 {
			tree2 := c04GenTree(t, 2, fmt.Sprintf("f%dd2", i))
			if rapid.Bool().Draw(t, "secondDocumentRepeatsATable") {
				for k, v := range tree {
					if vm, ok := v.(map[string]interface{}); ok && len(vm) > 0 {
						tree2[k] = map[string]interface{}{"added-by-second-document": "x"}
						break
					}
				}
			}
			y2, _ := yaml.Marshal(tree2)
			text += "---\n" + string(y2)
			// (the documents of a file are merged with each other first, then the file is layered over what came before)
			whole := refLayer(tree2, deepCopyVal(tree).(map[string]interface{}))
			fileTrees = append(fileTrees, deepCopyVal(whole).(map[string]interface{}))
			ref = refLayer(whole, ref)
			for k := range tree2 {
				touch(k)
			}
			c.Files = append(c.Files, text)
			for k := range tree {
				touch(k)
			}
			continue
		}
		c.Files = append(c.Files, text)
		fileTrees = append(fileTrees, deepCopyVal(tree).(map[string]interface{}))
		ref = refLayer(tree, ref)
		for k := range tree {
			touch(k)
		}
	}
	// the same file named once more after the others (wrapper scripts re-apply a pin file last): every -f argument is a
	// layer of its own, wherever else the same path occurs
	if len(c.Files) >= 2 && rapid.IntRange(0, 4).Draw(t, "aFileGivenAgain") == 0 {
		i := rapid.IntRange(0, len(c.Files)-2).Draw(t, "whichFileAgain")
		c.Again = append(c.Again, i)
		ref = refLayer(deepCopyVal(fileTrees[i]).(map[string]interface{}), ref)
	}
	// --set-json: object form or key=json
	for i, n := 0, rapid.IntRange(0, 2).Draw(t, "nJSON"); i < n && ok; i++ {
		if rapid.Bool().Draw(t, "jsonObject") {
			tree := c04GenTree(t, 1, fmt.Sprintf("j%d", i))
			b, _ := json.Marshal(tree)
			c.JSON = append(c.JSON, string(b))
			ref = refLayer(tree, ref)
			for k := range tree {
				touch(k)
			}
		} else {
			p := c04GenPath(t, false)
			var v interface{} = c04GenTree(t, 1, fmt.Sprintf("jv%d", i))
			if rapid.Bool().Draw(t, "jsonScalar") {
				v = rapid.SampledFrom([]interface{}{float64(7), "js", true, nil, []interface{}{float64(1), "two"}}).Draw(t, "jsonVal")
			}
			b, _ := json.Marshal(v)
			c.JSON = append(c.JSON, printPath(p, true)+"="+string(b))
			ok = ok && refAssign(ref, p, deepCopyVal(v))
			touch(p[0].Key)
		}
	}
	for i, n := 0, rapid.IntRange(0, 2).Draw(t, "nSet"); i < n && ok; i++ {
		var parts []string
		for j, m := 0, rapid.IntRange(1, 2).Draw(t, "nAssign"); j < m && ok; j++ {
			p := c04GenPath(t, true)
			v, lit := c04GenTyped(t)
			parts = append(parts, printPath(p, true)+"="+lit)
			ok = ok && refAssign(ref, p, v)
			touch(p[0].Key)
		}
		c.Set = append(c.Set, strings.Join(parts, ","))
	}
	for i, n := 0, rapid.IntRange(0, 2).Draw(t, "nSetString"); i < n && ok; i++ {
		p := c04GenPath(t, true)
		_, lit := c04GenTyped(t)
		want := interface{}(unescapeTyped(lit))
		if strings.HasPrefix(lit, "{") && strings.HasSuffix(lit, "}") {
			var l []interface{}
			for _, e := range strings.Split(lit[1:len(lit)-1], ",") {
				l = append(l, e)
			}
			want = l
		}
		c.String = append(c.String, printPath(p, true)+"="+lit)
		ok = ok && refAssign(ref, p, want)
		touch(p[0].Key)
	}
	for i, n := 0, rapid.IntRange(0, 1).Draw(t, "nSetFile"); i < n && ok; i++ {
		p := c04GenPath(t, false)
		content := rapid.SampledFrom([]string{"file content\nline2\n", "true", "{not,a,list}", ""}).Draw(t, "fileContent")
		c.FileData = append(c.FileData, content)
		c.File = append(c.File, fmt.Sprintf("%s=@FILE%d@", printPath(p, true), len(c.FileData)-1))
		ok = ok && refAssign(ref, p, content)
		touch(p[0].Key)
	}
	for i, n := 0, rapid.IntRange(0, 1).Draw(t, "nSetLiteral"); i < n && ok; i++ {
		p := c04GenPath(t, false)
		lit := rapid.SampledFrom([]string{"plain", "a,b=c", "{x,y}", "true", "007", "with\\backslash", ""}).Draw(t, "literal")
		c.Literal = append(c.Literal, printPath(p, false)+"="+lit)
		ok = ok && refAssign(ref, p, lit)
		touch(p[0].Key)
	}
	if ok {
		c.Expected = canonJSON(ref)
	}
	overlap := false
	for _, n := range defined {
		if n >= 2 {
			overlap = true
		}
	}
	lbls := []string{}
	if !ok {
		lbls = append(lbls, "reference-calls-it-ill-typed")
	}
	if overlap {
		lbls = append(lbls, "two-sources-define-a-key")
	}
	c04AJudge(t, c)
	evid.Case(lbls, jsonOf(c), ok && overlap, c)
}

func unescapeTyped(lit string) string {
	var sb strings.Builder
	esc := false
	for _, r := range lit {
		if !esc && r == '\\' {
			esc = true
			continue
		}
		esc = false
		sb.WriteRune(r)
	}
	return sb.String()
}

func c04AJudge(tb vt.TB, c c04ACase) {
	dir, err := os.MkdirTemp("", "c04a")
	if err != nil {
		tb.Fatalf("tempdir: %v", err)
	}
	defer os.RemoveAll(dir)
	opts := values.Options{JSONValues: c.JSON, Values: c.Set, StringValues: c.String, LiteralValues: c.Literal}
	for i, f := range c.Files {
		p := filepath.Join(dir, fmt.Sprintf("values%d.yaml", i))
		_ = os.WriteFile(p, []byte(f), 0o644)
		opts.ValueFiles = append(opts.ValueFiles, p)
	}
	for _, i := range c.Again {
		opts.ValueFiles = append(opts.ValueFiles, opts.ValueFiles[i])
	}
	for _, sf := range c.File {
		for i, d := range c.FileData {
			marker := fmt.Sprintf("@FILE%d@", i)
			if strings.Contains(sf, marker) {
				p := filepath.Join(dir, fmt.Sprintf("setfile%d.txt", i))
				_ = os.WriteFile(p, []byte(d), 0o644)
				sf = strings.Replace(sf, marker, p, 1)
			}
		}
		opts.FileValues = append(opts.FileValues, sf)
	}
	got, err := opts.MergeValues(getter.Providers{})
	if c.Expected == "" {
		evid.Note("C04A:not-judged/ill-typed-assignment")
		return
	}
	if err != nil {
		vt.Violation(tb, "C04:A/merge-values-rejected-well-typed-input", fmt.Sprintf("error %v\ncase %s", err, jsonOf(c)), c)
		return
	}
	if g := canonJSON(got); g != c.Expected {
		vt.Violation(tb, "C04:A/merged-values-differ-from-documented-precedence", fmt.Sprintf("got  %s\nwant %s\ncase %s", g, c.Expected, jsonOf(c)), c)
	}
}

func TestC04A(t *testing.T) {
	evid.Extra("rule", "C04A: 0-3 -f files, one case in five with two or more files names an earlier file once more at the end (generated trees with nulls, lists, nested tables; some with comments), 0-2 --set-json (object form and key=json), 0-2 --set (1-2 assignments each, paths with dots, escapes and list indexes, typed literals), 0-2 --set-string, 0-1 --set-file, 0-1 --set-literal; Options.MergeValues must equal the fold of the layers in the documented order (files in order < set-json < set < set-string < set-file < set-literal; tables merge, everything else replaces, null kept) computed by an independent reference; cases the reference calls ill-typed (a path running through an existing scalar/null/other container) are counted, not judged. Non-trivial = at least two sources define the same top-level key; distinct by the full argument set.")
	evid.Extra("assumptions", []string{"value literal classes limited to what the documentation fixes (true/false/null any case, 0, integers without leading zero, leading-zero digit strings, text, {a,b} lists, empty)", "stdin ('-') and remote value files are not used"})
	rapid.Check(t, c04AProp)
}

// ---------------------------------------------------------------- B: --set grammars against a random base

type c04BCase struct {
	Parser string                 `json:"parser"` // ParseInto | ParseIntoString | ParseJSON | ParseLiteralInto | ParseIntoFile
	Line   string                 `json:"line"`
	Base   map[string]interface{} `json:"base"`
	Want   string                 `json:"want"` // canonical JSON of reference result, "" = ill-typed
}

func c04BProp(t *rapid.T) {
	c := c04BCase{Parser: rapid.SampledFrom([]string{"ParseInto", "ParseInto", "ParseIntoString", "ParseJSON", "ParseLiteralInto", "ParseIntoFile"}).Draw(t, "parser")}
	if rapid.Bool().Draw(t, "emptyBase") {
		c.Base = map[string]interface{}{}
	} else {
		c.Base = c04GenTree(t, 2, "base")
	}
	ref := deepCopyVal(c.Base).(map[string]interface{})
	ok := true
	var lbls []string
	n := rapid.IntRange(1, 3).Draw(t, "nAssign")
	if c.Parser == "ParseLiteralInto" {
		n = 1
	}
	var parts []string
	for i := 0; i < n && ok; i++ {
		switch c.Parser {
		case "ParseInto":
			p := c04GenPath(t, true)
			v, lit := c04GenTyped(t)
			parts = append(parts, printPath(p, true)+"="+lit)
			ok = refAssign(ref, p, v)
		case "ParseIntoString":
			p := c04GenPath(t, true)
			s := rapid.SampledFrom([]string{"true", "null", "12", "007", "text", "a,b", ""}).Draw(t, "sval")
			parts = append(parts, printPath(p, true)+"="+escapeRunes(s, ",{"))
			ok = refAssign(ref, p, s)
		case "ParseJSON":
			p := c04GenPath(t, false)
			v := rapid.SampledFrom([]interface{}{float64(7), "js", true, nil, []interface{}{float64(1), "two"}, map[string]interface{}{"k": "v"}}).Draw(t, "jval")
			b, _ := json.Marshal(v)
			parts = append(parts, printPath(p, true)+"="+string(b))
			ok = refAssign(ref, p, deepCopyVal(v))
		case "ParseLiteralInto":
			p := c04GenPath(t, false)
			lit := rapid.SampledFrom([]string{"plain", "a,b=c", "{x,y}", "true", "007", "tr\\ail", "", "k=v,k2=v2"}).Draw(t, "lit")
			parts = append(parts, printPath(p, false)+"="+lit)
			ok = refAssign(ref, p, lit)
		case "ParseIntoFile":
			p := c04GenPath(t, false)
			name := rapid.SampledFrom([]string{"f1", "f2"}).Draw(t, "fname")
			parts = append(parts, printPath(p, true)+"="+name)
			ok = refAssign(ref, p, "content-of-"+name)
		}
	}
	c.Line = strings.Join(parts, ",")
	if ok {
		c.Want = canonJSON(ref)
	} else {
		lbls = append(lbls, "reference-calls-it-ill-typed")
	}
	if strings.ContainsAny(c.Line, "\\{[") {
		lbls = append(lbls, "escape-list-or-index")
	}
	if len(c.Base) > 0 {
		lbls = append(lbls, "non-empty-base")
	}
	lbls = append(lbls, "parser:"+c.Parser)
	c04BJudge(t, c)
	evid.Case(lbls, jsonOf(c), ok && strings.ContainsAny(c.Line, "\\{[."), c)
}

func c04BJudge(tb vt.TB, c c04BCase) {
	dest := deepCopyVal(c.Base).(map[string]interface{})
	var err error
	switch c.Parser {
	case "ParseInto":
		err = strvals.ParseInto(c.Line, dest)
	case "ParseIntoString":
		err = strvals.ParseIntoString(c.Line, dest)
	case "ParseJSON":
		err = strvals.ParseJSON(c.Line, dest)
	case "ParseLiteralInto":
		err = strvals.ParseLiteralInto(c.Line, dest)
	case "ParseIntoFile":
		err = strvals.ParseIntoFile(c.Line, dest, func(rs []rune) (interface{}, error) { return "content-of-" + string(rs), nil })
	}
	if c.Want == "" {
		evid.Note("C04B:not-judged/ill-typed-assignment")
		return
	}
	ctx := c.Parser
	if err != nil {
		vt.Violation(tb, "C04:B/"+ctx+"/well-formed-expression-rejected", fmt.Sprintf("%q into %s: %v", c.Line, jsonOf(c.Base), err), c)
		return
	}
	if g := canonJSON(dest); g != c.Want {
		sig := "C04:B/" + ctx + "/result-differs-from-the-path-it-names"
		if strings.HasSuffix(c.Line, "=") && strings.Contains(c.Line, "].") {
			sig = "C04:B/" + ctx + "/empty-value-at-end-of-input-under-a-list-index-is-lost"
		}
		vt.Violation(tb, sig, fmt.Sprintf("%q into %s\n got  %s\n want %s", c.Line, jsonOf(c.Base), g, c.Want), c)
	}
}

func TestC04B(t *testing.T) {
	evid.Extra("rule", "C04B: one line of 1-3 assignments printed from an AST (paths of 1-3 segments over plain keys and keys needing the documented escapes for . , = [ ; list indexes 0..2; typed literals, {a,b} lists, escaped commas, empty values) parsed INTO a random base tree by ParseInto / ParseIntoString / ParseJSON / ParseLiteralInto / ParseIntoFile; the result must equal the base with exactly the named paths assigned (reference path assignment: create missing containers, extend lists with nulls, keep everything else), which contains both the typing rules and the frame rule. Ill-typed paths (through an existing scalar/null/other container) are counted, not judged. Non-trivial = well-typed and the line uses a dot, escape, list or index; distinct by (parser, line, base).")
	rapid.Check(t, c04BProp)
}

// ---------------------------------------------------------------- C: coalescing over chart trees

type c04CCase struct {
	Root *refChart              `json:"root"`
	User map[string]interface{} `json:"user"`
}

// c04GenChartTree draws a chart tree of up to three levels; subchart sections and global stay table-typed
// (scalar-vs-table clashes inside sections are an ill-typed class of their own, drawn separately at low weight).
func c04GenChartTree(t *rapid.T, clash bool) *refChart {
	secKeys := map[string]bool{"s1": true, "s2": true, "s3": true, "global": true}
	var tree func(depth int, label string) map[string]interface{}
	tree = func(depth int, label string) map[string]interface{} {
		m := map[string]interface{}{}
		for i, n := 0, rapid.IntRange(0, 4).Draw(t, label+"N"); i < n; i++ {
			k := rapid.SampledFrom([]string{"a", "b", "s1", "s2", "s3", "global", "k"}).Draw(t, label+"K")
			kind := rapid.IntRange(0, 5).Draw(t, label+"V")
			if strings.Contains(label, "global") && !clash {
				// inside a global table: scalars and lists only (type clashes between an ancestor's and a descendant's
				// global entries belong to the clash class)
				if kind == 0 || kind == 5 {
					kind = 2
				}
				if secKeys[k] {
					k = "g" + k
				}
			}
			if secKeys[k] && !(clash && rapid.IntRange(0, 3).Draw(t, label+"clash") == 0) {
				kind = 5
			}
			if depth <= 0 && kind == 5 {
				if secKeys[k] {
					m[k] = map[string]interface{}{}
					continue
				}
				kind = 2
			}
			switch kind {
			case 0:
				if label == "global" || strings.Contains(label, "global") {
					continue // nulls inside global are a separate, excluded class
				}
				m[k] = nil
			case 1:
				m[k] = float64(rapid.IntRange(0, 3).Draw(t, label+"I"))
			case 2:
				m[k] = rapid.SampledFrom([]string{"x", "y", ""}).Draw(t, label+"S")
			case 3:
				m[k] = rapid.Bool().Draw(t, label+"B")
			case 4:
				m[k] = []interface{}{float64(rapid.IntRange(0, 2).Draw(t, label+"L"))}
			default:
				lab := label + k
				if k == "global" {
					lab = label + "global"
				}
				m[k] = tree(depth-1, lab)
			}
		}
		return m
	}
	mk := func(name string, depth int) *refChart { return &refChart{Name: name, Defaults: tree(depth, name)} }
	root := mk("root", 3)
	if rapid.Bool().Draw(t, "hasS1") {
		s1 := mk("s1", 2)
		if rapid.Bool().Draw(t, "s1HasS2") {
			s2 := mk("s2", 2)
			if rapid.Bool().Draw(t, "s2HasS3") {
				s2.Deps = append(s2.Deps, mk("s3", 1))
			}
			s1.Deps = append(s1.Deps, s2)
		}
		root.Deps = append(root.Deps, s1)
	}
	if rapid.Bool().Draw(t, "hasS2") {
		root.Deps = append(root.Deps, mk("s2", 2))
	}
	return root
}

func c04CProp(t *rapid.T) {
	clash := rapid.IntRange(0, 9).Draw(t, "clashClass") == 0
	c := c04CCase{Root: c04GenChartTree(t, clash)}
	// user values reuse the same shape generator through a throw-away chart
	c.User = c04GenChartTree(t, clash).Defaults
	lbls := []string{fmt.Sprintf("subcharts:%d", c04CountDeps(c.Root))}
	// a user null on a global key that only charts in different branches (never an ancestor and its descendant) hold a
	// default for: it flows down and removes that default wherever it is (nulls on global keys that an ancestor defines
	// as well stay outside the judged class, see assumptions)
	if !clash && rapid.IntRange(0, 2).Draw(t, "userNullOnGlobalKey") == 0 {
		if k := c04LonelyGlobalKey(t, c.Root, c.User); k != "" {
			ug, _ := c.User["global"].(map[string]interface{})
			if ug == nil {
				ug = map[string]interface{}{}
			}
			ug[k] = nil
			c.User["global"] = ug
			lbls = append(lbls, "user-null-on-a-subchart-global-default")
		}
	}
	if clash {
		lbls = append(lbls, "scalar-vs-table-clash-class")
	}
	nontrivial := c04CJudge(t, c, clash)
	evid.Case(lbls, jsonOf(c), nontrivial && !clash, c)
}

// c04LonelyGlobalKey picks a scalar key that some non-root chart holds under global in its defaults such that no chart
// and one of its descendants both hold it ("" if there is none).
func c04LonelyGlobalKey(t *rapid.T, root *refChart, user map[string]interface{}) string {
	holders := map[string][][]string{} // key -> paths (chart names from the root) of the charts defining it
	// the user's values are sections too: a global table at any depth of them counts as a definition at that chart
	var userSections func(sec map[string]interface{}, sp []string)
	userSections = func(sec map[string]interface{}, sp []string) {
		if g, ok := sec["global"].(map[string]interface{}); ok {
			for k := range g {
				holders[k] = append(holders[k], sp)
			}
		}
		for k, v := range sec {
			if vm, ok := v.(map[string]interface{}); ok && k != "global" {
				userSections(vm, append(append([]string{}, sp...), k))
			}
		}
	}
	userSections(user, []string{root.Name})
	var walk func(c *refChart, path []string)
	walk = func(c *refChart, path []string) {
		p := append(append([]string{}, path...), c.Name)
		if g, ok := c.Defaults["global"].(map[string]interface{}); ok {
			for k, v := range g {
				if _, isTable := v.(map[string]interface{}); !isTable && v != nil {
					holders[k] = append(holders[k], p)
				}
			}
		}
		// a global table inside the chart's section for a dependency counts as a definition at that dependency (and
		// at every deeper section)
		var sections func(sec map[string]interface{}, sp []string)
		sections = func(sec map[string]interface{}, sp []string) {
			if g, ok := sec["global"].(map[string]interface{}); ok {
				for k := range g {
					holders[k] = append(holders[k], sp)
				}
			}
			for k, v := range sec {
				if vm, ok := v.(map[string]interface{}); ok && k != "global" {
					sections(vm, append(append([]string{}, sp...), k))
				}
			}
		}
		for k, v := range c.Defaults {
			if vm, ok := v.(map[string]interface{}); ok && k != "global" {
				sections(vm, append(append([]string{}, p...), k))
			}
		}
		for _, d := range c.Deps {
			walk(d, p)
		}
	}
	walk(root, nil)
	var cands []string
	for k, ps := range holders {
		ok := false
		for _, p := range ps {
			if len(p) > 1 {
				ok = true
			}
		}
		for i := range ps {
			for j := range ps {
				if i != j && len(ps[i]) < len(ps[j]) && strings.Join(ps[j][:len(ps[i])], "/") == strings.Join(ps[i], "/") {
					ok = false // an ancestor and its descendant both define it
				}
			}
		}
		if ok {
			cands = append(cands, k)
		}
	}
	if len(cands) == 0 {
		return ""
	}
	sort.Strings(cands)
	return rapid.SampledFrom(cands).Draw(t, "lonelyGlobalKey")
}

func c04CountDeps(c *refChart) int {
	n := 0
	for _, d := range c.Deps {
		n += 1 + c04CountDeps(d)
	}
	return n
}

// c04DefaultsJSON serialises the stored defaults of every chart in the tree.
func c04DefaultsJSON(ch *chart.Chart) string {
	var sb strings.Builder
	var walk func(c *chart.Chart, path string)
	walk = func(c *chart.Chart, path string) {
		sb.WriteString(path + "=" + canonJSON(c.Values) + ";")
		for _, d := range c.Dependencies() {
			walk(d, path+"/"+d.Name())
		}
	}
	walk(ch, ch.Name())
	return sb.String()
}

func c04CJudge(tb vt.TB, c c04CCase, clash bool) (nontrivial bool) {
	ch := c.Root.buildChart(nil)
	user := deepCopyVal(c.User).(map[string]interface{})
	userBefore := canonJSON(user)
	defaultsBefore := c04DefaultsJSON(ch)
	top, err := chartutil.ToRenderValues(ch, user, chartutil.ReleaseOptions{Name: "r", Namespace: "default"}, nil)
	if err != nil {
		if clash {
			evid.Note("C04C:not-judged/clash-class-error")
			return false
		}
		vt.Violation(tb, "C04:C/coalescing-rejected-well-typed-values", fmt.Sprintf("%v\ncase %s", err, jsonOf(c)), c)
		return false
	}
	got := pruneNulls(map[string]interface{}(top["Values"].(chartutil.Values)))
	want := pruneNulls(refScope(c.Root, deepCopyVal(c.User).(map[string]interface{})))
	// non-trivial: some path is defined by two sources
	ul, dl := map[string]string{}, map[string]string{}
	leafPaths(c.User, "", ul)
	leafPaths(c.Root.Defaults, "", dl)
	for k := range ul {
		if _, ok := dl[k]; ok {
			nontrivial = true
		}
	}
	if len(c.Root.Deps) > 0 {
		nontrivial = true
	}
	if canonJSON(got) != canonJSON(want) {
		if clash {
			evid.Note("C04C:not-judged/clash-class-deviation")
		} else if ok, d := sameLeaves(got, want); !ok {
			vt.Violation(tb, "C04:C/coalesced-values-differ-from-documented-precedence", fmt.Sprintf("%s\n got  %s\n want %s\ncase %s", d, canonJSON(got), canonJSON(want), jsonOf(c)), c)
			return
		}
	}
	// immutability: neither the caller's map nor any chart's stored defaults changed, also after the result is mutated
	if canonJSON(user) != userBefore {
		vt.Violation(tb, "C04:C/callers-value-map-modified", fmt.Sprintf("before %s\nafter  %s", userBefore, canonJSON(user)), c)
		return
	}
	if after := c04DefaultsJSON(ch); after != defaultsBefore {
		vt.Violation(tb, "C04:C/chart-defaults-modified-by-coalescing", fmt.Sprintf("before %s\nafter  %s", defaultsBefore, after), c)
		return
	}
	c04Scribble(map[string]interface{}(top["Values"].(chartutil.Values)))
	if canonJSON(user) != userBefore {
		vt.Violation(tb, "C04:C/result-aliases-callers-value-map", fmt.Sprintf("mutating the result changed the caller's map: %s -> %s", userBefore, canonJSON(user)), c)
		return
	}
	if after := c04DefaultsJSON(ch); after != defaultsBefore {
		vt.Violation(tb, "C04:C/result-aliases-chart-defaults", fmt.Sprintf("mutating the result changed stored defaults: %s -> %s", defaultsBefore, after), c)
		return
	}
	// a second coalesce of the same chart object (install then upgrade in one process) gives the same answer
	top2, err2 := chartutil.ToRenderValues(ch, deepCopyVal(c.User).(map[string]interface{}), chartutil.ReleaseOptions{Name: "r", Namespace: "default"}, nil)
	if err2 == nil && !clash {
		got2 := pruneNulls(map[string]interface{}(top2["Values"].(chartutil.Values)))
		if ok, d := sameLeaves(got2, want); !ok {
			vt.Violation(tb, "C04:C/second-coalesce-of-same-chart-differs", d, c)
		}
	}
	return nontrivial
}

// c04Scribble overwrites every map in a result tree (to detect aliasing with inputs).
func c04Scribble(m map[string]interface{}) {
	for _, k := range sortedKeys(m) {
		if sub, ok := m[k].(map[string]interface{}); ok {
			c04Scribble(sub)
		}
		if l, ok := m[k].([]interface{}); ok {
			for i := range l {
				l[i] = "scribbled"
			}
		}
		m[k] = "scribbled"
	}
	m["scribble"] = true
}

func TestC04C(t *testing.T) {
	evid.Extra("rule", "C04C: chart trees of up to three levels of subcharts (root -> s1 -> s2 -> s3, root -> s2) with generated defaults at every level (scalars, lists, nulls, nested tables, subchart sections and global tables at every level) and generated user values; ToRenderValues(...).Values must equal, leaf path by leaf path (null = absent = empty table), an independent reference: user > parent's section > chart's own values.yaml, tables merge, everything else replaces, a null removes the default, global tables flow down with the ancestor winning. Then immutability: the caller's map and every chart's stored defaults are unchanged, also after every map of the result has been overwritten, and a second coalesce of the same chart object gives the same values. One case in ten draws scalar-vs-table clashes for sections/global: counted, not judged. Non-trivial = a path defined by both user values and defaults, or at least one subchart; distinct by (chart tree, user values).")
	evid.Extra("assumptions", []string{"scalar-vs-table clashes of subchart sections/global are excluded from judgement (Helm documents a warning-and-skip there); nulls inside global tables are judged only as user nulls on a key that no chart and one of its descendants both define (a null is consumed by the first chart that holds a default for the key; whether it should travel further is not something the statement fixes)"})
	rapid.Check(t, c04CProp)
}

// ---------------------------------------------------------------- replay / known

func TestC04_Replay(t *testing.T) {
	p := os.Getenv("VERIF_REPLAY_JSON")
	if p == "" {
		t.Skip("no VERIF_REPLAY_JSON")
	}
	d, err := loadReplayDoc(p)
	if err != nil {
		t.Fatal(err)
	}
	c04Dispatch(t, d)
}

func c04Dispatch(tb vt.TB, d *replayDoc) {
	switch {
	case strings.HasPrefix(d.Signature, "C04:A/"):
		var c c04ACase
		if err := json.Unmarshal(d.Case, &c); err != nil {
			tb.Fatalf("bad case: %v", err)
		}
		c04AJudge(tb, c)
	case strings.HasPrefix(d.Signature, "C04:B/"):
		var c c04BCase
		if err := json.Unmarshal(d.Case, &c); err != nil {
			tb.Fatalf("bad case: %v", err)
		}
		c04BJudge(tb, c)
	default:
		var c c04CCase
		if err := json.Unmarshal(d.Case, &c); err != nil {
			tb.Fatalf("bad case: %v", err)
		}
		c04CJudge(tb, c, false)
	}
}

func TestC04_Known(t *testing.T) {
	for _, e := range knownEntries("C04") {
		d, err := loadReplayDoc(e.Replay)
		if err != nil {
			fmt.Printf("KNOWN-GONE sig=%s :: replay unreadable: %v\n", e.Signature, err)
			continue
		}
		vt.CheckKnown(e.Signature, e.What, func(tb vt.TB) { c04Dispatch(tb, d) })
	}
}
