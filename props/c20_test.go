package props

// C20 — malformed external input produces an error, never a crash.

import (
	"bytes"
	"context"
	"encoding/base64"
	"encoding/json"
	"fmt"
	"os"
	"path/filepath"
	"regexp"
	"runtime/debug"
	"sort"
	"strings"
	"testing"
	"time"

	v1 "k8s.io/api/core/v1"
	metav1 "k8s.io/apimachinery/pkg/apis/meta/v1"
	k8sfake "k8s.io/client-go/kubernetes/fake"
	"pgregory.net/rapid"
	"sigs.k8s.io/yaml"

	"helm.sh/helm/v4/pkg/chart/v2/loader"
	chartutil "helm.sh/helm/v4/pkg/chart/v2/util"
	"helm.sh/helm/v4/pkg/engine"
	"helm.sh/helm/v4/pkg/ignore"
	"helm.sh/helm/v4/pkg/lint"
	"helm.sh/helm/v4/pkg/plugin"
	"helm.sh/helm/v4/pkg/provenance"
	releaseutil "helm.sh/helm/v4/pkg/release/util"
	release "helm.sh/helm/v4/pkg/release/v1"
	"helm.sh/helm/v4/pkg/repo"
	"helm.sh/helm/v4/pkg/storage"
	"helm.sh/helm/v4/pkg/storage/driver"
	"helm.sh/helm/v4/pkg/strvals"

	"verif/internal/evid"
	"verif/internal/vt"
)

// c20Case is one malformed-input case: a target and its named inputs (base64 so that arbitrary bytes survive JSON).
type c20Case struct {
	Target string            `json:"target"`
	In     map[string]string `json:"in"` // name -> base64(content)
}

func (c c20Case) get(name string) []byte {
	b, _ := base64.StdEncoding.DecodeString(c.In[name])
	return b
}

func c20Put(m map[string]string, name string, data []byte) {
	m[name] = base64.StdEncoding.EncodeToString(data)
}

// c20Site names the first Helm frame of a panic stack: the root-cause site (function, without line numbers and closure
// suffixes, so one defect gets one signature whichever input or entry point exposed it).
func c20Site(stack string) string {
	for _, l := range strings.Split(stack, "\n") {
		if strings.Contains(l, "helm.sh/helm/v4/") && !strings.Contains(l, "verif/") {
			fn := strings.TrimSpace(l)
			if j := strings.LastIndex(fn, "("); j > 0 {
				fn = fn[:j]
			}
			fn = strings.TrimPrefix(fn, "helm.sh/helm/v4/")
			fn = c20ClosureSuffix.ReplaceAllString(fn, "")
			return fn
		}
	}
	return "unknown-site"
}

var c20ClosureSuffix = regexp.MustCompile(`(\.func\d+|\.\d+|\.\w+\.\d+)+$`)

// c20Exec runs the case with a recover guard and a watchdog; it returns what was reached ("" if the first parser rejected).
func c20Exec(tb vt.TB, c c20Case) (reached string) {
	if dir := os.Getenv("VERIF_REPLAY_DIR"); dir != "" {
		// if the process dies (stack exhaustion is not recoverable) the driver takes this file as the replay
		_ = os.MkdirAll(dir, 0o755)
		_ = os.WriteFile(filepath.Join(dir, "current-case.json"), []byte(`{"signature":"C20:process-died","detail":"last case started before the test process died","case":`+jsonOf(c)+`}`), 0o644)
	}
	type outcome struct {
		reached string
		panicV  interface{}
		stack   string
		bad     string
	}
	ch := make(chan outcome, 1)
	go func() {
		var o outcome
		defer func() {
			if p := recover(); p != nil {
				o.panicV, o.stack = p, string(debug.Stack())
			}
			ch <- o
		}()
		o.reached, o.bad = c20Run(c)
	}()
	select {
	case o := <-ch:
		if o.panicV != nil {
			vt.Violation(tb, "C20:panic/"+c20Site(o.stack), fmt.Sprintf("%v\n%s", o.panicV, c20TrimStack(o.stack)), c)
			return ""
		}
		if o.bad != "" {
			vt.Violation(tb, "C20:"+o.bad, "case "+c20Describe(c), c)
			return ""
		}
		return o.reached
	case <-time.After(30 * time.Second):
		vt.Violation(tb, "C20:hang/"+c.Target, "no result after 30s for an input of "+fmt.Sprint(c20Size(c))+" bytes: "+c20Describe(c), c)
		return ""
	}
}

func c20Size(c c20Case) int {
	n := 0
	for k := range c.In {
		n += len(c.get(k))
	}
	return n
}

func c20Describe(c c20Case) string {
	var sb strings.Builder
	sb.WriteString(c.Target + ":")
	for _, k := range c20Keys(c.In) {
		fmt.Fprintf(&sb, "\n  %s = %.400q", k, string(c.get(k)))
	}
	return sb.String()
}

func c20Keys(m map[string]string) []string {
	ks := make([]string, 0, len(m))
	for k := range m {
		ks = append(ks, k)
	}
	sort.Strings(ks)
	return ks
}

func c20TrimStack(s string) string {
	var out []string
	for _, l := range strings.Split(s, "\n") {
		if strings.Contains(l, "helm.sh/helm") || strings.Contains(l, "/repo/") {
			out = append(out, l)
		}
		if len(out) > 12 {
			break
		}
	}
	return strings.Join(out, "\n")
}

// c20Run dispatches to the target. bad is a non-crash contract violation (T6: good records must still be listed).
func c20Run(c c20Case) (reached string, bad string) {
	switch c.Target {
	case "chart":
		var files []*loader.BufferedFile
		for _, k := range c20Keys(c.In) {
			if k == "user-values" || strings.HasPrefix(k, "@link/") {
				continue
			}
			files = append(files, &loader.BufferedFile{Name: k, Data: c.get(k)})
		}
		ch, err := loader.LoadFiles(files)
		if err != nil {
			return "", ""
		}
		reached = "loaded"
		user := map[string]interface{}{}
		_ = yaml.Unmarshal(c.get("user-values"), &user)
		if user == nil {
			user = map[string]interface{}{}
		}
		if err := chartutil.ProcessDependencies(ch, user); err != nil {
			return reached, ""
		}
		reached = "dependencies"
		vals, err := chartutil.ToRenderValuesWithSchemaValidation(ch, user, chartutil.ReleaseOptions{Name: "r", Namespace: "default"}, nil, false)
		if err != nil {
			return reached, ""
		}
		reached = "values"
		out, err := engine.Render(ch, vals)
		if err != nil {
			return reached, ""
		}
		reached = "rendered"
		if _, _, err := releaseutil.SortManifests(out, nil, releaseutil.InstallOrder); err == nil {
			reached = "sorted"
		}
		return reached, ""
	case "lint":
		dir, err := os.MkdirTemp("", "c20lint")
		if err != nil {
			return "", ""
		}
		defer os.RemoveAll(dir)
		for _, k := range c20Keys(c.In) {
			if strings.Contains(k, "..") {
				continue
			}
			if strings.HasPrefix(k, "@link/") {
				p := filepath.Join(dir, "chart", strings.TrimPrefix(k, "@link/"))
				_ = os.MkdirAll(filepath.Dir(p), 0o755)
				_ = os.Symlink(strings.ReplaceAll(string(c.get(k)), "$CHART", filepath.Join(dir, "chart")), p)
				continue
			}
			p := filepath.Join(dir, "chart", k)
			_ = os.MkdirAll(filepath.Dir(p), 0o755)
			_ = os.WriteFile(p, c.get(k), 0o644)
		}
		l := lint.RunAll(filepath.Join(dir, "chart"), map[string]interface{}{}, "default")
		_, _ = loader.LoadDir(filepath.Join(dir, "chart"))
		return fmt.Sprintf("lint-messages:%d", min(len(l.Messages), 3)), ""
	case "strvals":
		s := string(c.get("line"))
		ok := 0
		if _, err := strvals.Parse(s); err == nil {
			ok++
		}
		if _, err := strvals.ParseString(s); err == nil {
			ok++
		}
		if _, err := strvals.ParseLiteral(s); err == nil {
			ok++
		}
		if err := strvals.ParseJSON(s, map[string]interface{}{}); err == nil {
			ok++
		}
		if _, err := strvals.ParseFile(s, func(rs []rune) (interface{}, error) { return string(rs), nil }); err == nil {
			ok++
		}
		base := map[string]interface{}{"a": "scalar", "b": []interface{}{"x"}, "c": map[string]interface{}{"d": nil},
			"list": []interface{}{map[string]interface{}{"name": "n"}}, "j": []interface{}{float64(1), float64(2)}}
		_ = strvals.ParseInto(s, base)
		_ = strvals.ParseLiteralInto(s, base)
		_, _ = strvals.ToYAML(s)
		if ok > 0 {
			return "parsed", ""
		}
		return "", ""
	case "values":
		v, err := chartutil.ReadValues(c.get("values"))
		if err != nil {
			return "", ""
		}
		_, _ = v.YAML()
		_, _ = v.Table("a.b")
		_, _ = v.PathValue("a.b.c")
		_, _ = loader.LoadValues(bytes.NewReader(c.get("values")))
		return "parsed", ""
	case "index":
		dir, err := os.MkdirTemp("", "c20index")
		if err != nil {
			return "", ""
		}
		defer os.RemoveAll(dir)
		p := filepath.Join(dir, "index.yaml")
		_ = os.WriteFile(p, c.get("index"), 0o644)
		idx, err := repo.LoadIndexFile(p)
		if err != nil {
			return "", ""
		}
		for _, name := range []string{"foo", "bar", ""} {
			for _, ver := range []string{"", "1.0.0", ">=0.0.0-0", "^1", "not a version"} {
				_, _ = idx.Get(name, ver)
			}
			_ = idx.Has(name, "1.0.0")
		}
		other := repo.NewIndexFile()
		other.Merge(idx)
		idx.SortEntries()
		_ = idx.WriteFile(filepath.Join(dir, "out.yaml"), 0o644)
		return "loaded", ""
	case "manifests":
		m := releaseutil.SplitManifests(string(c.get("manifest")))
		if _, _, err := releaseutil.SortManifests(m, nil, releaseutil.InstallOrder); err != nil {
			return "split", ""
		}
		_, _, _ = releaseutil.SortManifests(m, nil, releaseutil.UninstallOrder)
		return "sorted", ""
	case "records":
		return c20Records(c)
	case "provenance":
		dir, err := os.MkdirTemp("", "c20prov")
		if err != nil {
			return "", ""
		}
		defer os.RemoveAll(dir)
		arch, prov, ring := filepath.Join(dir, "c-1.0.0.tgz"), filepath.Join(dir, "c-1.0.0.tgz.prov"), filepath.Join(dir, "ring.gpg")
		_ = os.WriteFile(arch, c.get("archive"), 0o644)
		_ = os.WriteFile(prov, c.get("prov"), 0o644)
		_ = os.WriteFile(ring, c.get("keyring"), 0o644)
		s, err := provenance.NewFromKeyring(ring, "")
		if err != nil {
			s = &provenance.Signatory{}
			reached = ""
		} else {
			reached = "keyring-loaded"
		}
		if _, err := s.Verify(arch, prov); err == nil {
			reached = "verified"
		}
		_, _ = provenance.DigestFile(arch)
		return reached, ""
	case "ignore":
		r, err := ignore.Parse(bytes.NewReader(c.get("helmignore")))
		if err != nil {
			return "", ""
		}
		r.AddDefaults()
		dir, err := os.MkdirTemp("", "c20ign")
		if err != nil {
			return "", ""
		}
		defer os.RemoveAll(dir)
		_ = os.MkdirAll(filepath.Join(dir, "d"), 0o755)
		_ = os.WriteFile(filepath.Join(dir, "f.txt"), []byte("x"), 0o644)
		fd, _ := os.Stat(filepath.Join(dir, "d"))
		ff, _ := os.Stat(filepath.Join(dir, "f.txt"))
		for _, p := range []string{"d", "f.txt", "a/b/c.yaml", "", ".", "..", "templates/.hidden", string(c.get("path"))} {
			r.Ignore(p, fd)
			r.Ignore(p, ff)
		}
		return "parsed", ""
	case "plugin":
		dir, err := os.MkdirTemp("", "c20plug")
		if err != nil {
			return "", ""
		}
		defer os.RemoveAll(dir)
		pd := filepath.Join(dir, "p1")
		_ = os.MkdirAll(pd, 0o755)
		_ = os.WriteFile(filepath.Join(pd, "plugin.yaml"), c.get("plugin.yaml"), 0o644)
		if p, err := plugin.LoadDir(pd); err == nil && p != nil {
			reached = "loaded"
			_, _, _ = p.PrepareCommand(nil)
		}
		_, _ = plugin.LoadAll(dir)
		_, _ = plugin.FindPlugins(dir)
		return reached, ""
	case "schema":
		var vals map[string]interface{}
		_ = json.Unmarshal(c.get("values"), &vals)
		if vals == nil {
			vals = map[string]interface{}{}
		}
		if err := chartutil.ValidateAgainstSingleSchema(vals, c.get("schema")); err == nil {
			return "accepted", ""
		}
		return "rejected-or-invalid", ""
	}
	return "", ""
}

// c20Records seeds Secret and ConfigMap stores with good and corrupted records and reads them back in every way.
func c20Records(c c20Case) (reached string, bad string) {
	good := func(name string, rev int, st release.Status) *release.Release {
		return &release.Release{Name: name, Namespace: "default", Version: rev, Info: &release.Info{Status: st}, Manifest: "m"}
	}
	cs := k8sfake.NewSimpleClientset()
	sec := driver.NewSecrets(cs.CoreV1().Secrets("default"))
	cfg := driver.NewConfigMaps(cs.CoreV1().ConfigMaps("default"))
	for _, d := range []driver.Driver{sec, cfg} {
		_ = d.Create("sh.helm.release.v1.r.v1", good("r", 1, release.StatusSuperseded))
		_ = d.Create("sh.helm.release.v1.r.v3", good("r", 3, release.StatusDeployed))
	}
	body := c.get("body")
	labels := map[string]string{"name": "r", "owner": "helm", "status": "deployed", "version": "2"}
	if len(c.get("labels")) > 0 {
		_ = json.Unmarshal(c.get("labels"), &labels)
	}
	ctx := context.Background()
	_, _ = cs.CoreV1().Secrets("default").Create(ctx, &v1.Secret{ObjectMeta: metav1.ObjectMeta{Name: "sh.helm.release.v1.r.v2", Labels: labels}, Type: "helm.sh/release.v1", Data: map[string][]byte{"release": body}}, metav1.CreateOptions{})
	_, _ = cs.CoreV1().ConfigMaps("default").Create(ctx, &v1.ConfigMap{ObjectMeta: metav1.ObjectMeta{Name: "sh.helm.release.v1.r.v2", Labels: labels}, Data: map[string]string{"release": string(body)}}, metav1.CreateOptions{})
	lonely := map[string]string{"name": "lonely", "owner": "helm", "status": "deployed", "version": "1"}
	_, _ = cs.CoreV1().Secrets("default").Create(ctx, &v1.Secret{ObjectMeta: metav1.ObjectMeta{Name: "sh.helm.release.v1.lonely.v1", Labels: lonely}, Type: "helm.sh/release.v1", Data: map[string][]byte{"release": body}}, metav1.CreateOptions{})
	_, _ = cs.CoreV1().ConfigMaps("default").Create(ctx, &v1.ConfigMap{ObjectMeta: metav1.ObjectMeta{Name: "sh.helm.release.v1.lonely.v1", Labels: lonely}, Data: map[string]string{"release": string(body)}}, metav1.CreateOptions{})
	for _, d := range []driver.Driver{sec, cfg} {
		st := storage.Init(d)
		_, _ = st.Get("r", 2)
		ls, err := st.ListReleases()
		if err != nil {
			return "", "records/list-fails-because-of-one-unreadable-record/" + d.Name()
		}
		if n := c20CountGood(ls); n < 2 {
			return "", fmt.Sprintf("records/list-loses-readable-records/%s", d.Name())
		}
		h, err := st.History("r")
		if err == nil && c20CountGood(h) < 2 {
			return "", fmt.Sprintf("records/history-loses-readable-records/%s", d.Name())
		}
		// a release whose only stored record is the unreadable one
		for _, f := range []func(){
			func() { _, _ = st.Last("lonely") }, func() { _, _ = st.History("lonely") }, func() { _, _ = st.Deployed("lonely") },
			func() { _, _ = st.DeployedAll("lonely") }, func() { _, _ = st.Get("lonely", 1) },
			func() { _, _ = st.Query(map[string]string{"name": "lonely", "owner": "helm"}) },
		} {
			f()
		}
		_, _ = st.Last("r")
		_, _ = st.Deployed("r")
		_, _ = st.DeployedAll("r")
		_, _ = st.ListDeployed()
		_, _ = st.Query(map[string]string{"name": "r", "owner": "helm", "status": "deployed"})
		_, _ = st.Delete("r", 2)
	}
	return "listed", ""
}

func c20CountGood(rs []*release.Release) int {
	n := 0
	for _, r := range rs {
		if r != nil && r.Name == "r" && (r.Version == 1 || r.Version == 3) && r.Manifest == "m" {
			n++
		}
	}
	return n
}

// ------------------------------------------------------------------ generators: valid seeds + structure-aware and byte-level mutation

var c20Hostile = []string{"", "null", "~", "[]", "{}", "- null", "? : :", "&a [*a, *a, *a]", "!!binary x", "\x00", "\xff\xfe", "\t", "---\n---\n---", "{{", "}}", "{{ template \"x\" }}", "a: &x\n  b: *x", strings.Repeat("a.", 40) + "x=1", "a[99999999]=x", "a[-1]=x", strings.Repeat("[", 2000), strings.Repeat("{\"a\":", 3000), "%!s", "\r\n", "true", "1e999", "0x7fffffffffffffff", "-", "- - - - -", "key: |\n", "a: !!map [1]", "<<: *x"}

func c20WrongType(t *rapid.T, label string) interface{} {
	return rapid.SampledFrom([]interface{}{nil, float64(1), 1.5, true, "", "str", []interface{}{}, []interface{}{nil}, []interface{}{float64(1), "x"}, map[string]interface{}{}, map[string]interface{}{"child": float64(1), "parent": float64(2)}, map[string]interface{}{"x": nil}}).Draw(t, label)
}

// c20MutateTree replaces 1..3 random nodes of a YAML/JSON tree by a wrong-typed / null / deep / huge value.
func c20MutateTree(t *rapid.T, v interface{}, label string) interface{} {
	n := rapid.IntRange(1, 3).Draw(t, label+"nMut")
	for i := 0; i < n; i++ {
		v = c20MutateOnce(t, v, label, 0)
	}
	return v
}

func c20MutateOnce(t *rapid.T, v interface{}, label string, depth int) interface{} {
	replace := func() interface{} {
		switch rapid.IntRange(0, 5).Draw(t, label+"how") {
		case 0:
			return nil
		case 1:
			var deep interface{} = "bottom"
			for i, n := 0, rapid.IntRange(50, 400).Draw(t, label+"depth"); i < n; i++ {
				if i%2 == 0 {
					deep = map[string]interface{}{"n": deep}
				} else {
					deep = []interface{}{deep}
				}
			}
			return deep
		case 2:
			return strings.Repeat(rapid.SampledFrom([]string{"A", "{{", "é", "\n", "a.b,"}).Draw(t, label+"unit"), rapid.IntRange(100, 20000).Draw(t, label+"len"))
		case 3:
			return rapid.SampledFrom(c20Hostile).Draw(t, label+"hostile")
		default:
			return c20WrongType(t, label+"wrong")
		}
	}
	switch x := v.(type) {
	case map[string]interface{}:
		if len(x) == 0 || (depth > 0 && rapid.IntRange(0, 3).Draw(t, label+"here") == 0) {
			return replace()
		}
		ks := sortedKeys(x)
		k := ks[rapid.IntRange(0, len(ks)-1).Draw(t, label+"key")]
		x[k] = c20MutateOnce(t, x[k], label, depth+1)
		return x
	case []interface{}:
		if len(x) == 0 || rapid.IntRange(0, 3).Draw(t, label+"hereL") == 0 {
			return replace()
		}
		i := rapid.IntRange(0, len(x)-1).Draw(t, label+"idx")
		x[i] = c20MutateOnce(t, x[i], label, depth+1)
		if rapid.IntRange(0, 4).Draw(t, label+"addNull") == 0 {
			x = append(x, nil)
		}
		return x
	default:
		return replace()
	}
}

func c20MutateBytes(t *rapid.T, b []byte, label string) []byte {
	out := append([]byte(nil), b...)
	for i, n := 0, rapid.IntRange(1, 3).Draw(t, label+"nByteMut"); i < n; i++ {
		switch rapid.IntRange(0, 4).Draw(t, label+"byteHow") {
		case 0:
			if len(out) > 0 {
				out = out[:rapid.IntRange(0, len(out)-1).Draw(t, label+"cut")]
			}
		case 1:
			if len(out) > 0 {
				out[rapid.IntRange(0, len(out)-1).Draw(t, label+"pos")] ^= byte(1 << rapid.IntRange(0, 7).Draw(t, label+"bit"))
			}
		case 2:
			ins := []byte(rapid.SampledFrom(c20Hostile).Draw(t, label+"ins"))
			p := 0
			if len(out) > 0 {
				p = rapid.IntRange(0, len(out)).Draw(t, label+"insPos")
			}
			out = append(out[:p], append(ins, out[p:]...)...)
		case 3:
			out = append(out, out...)
		default:
			out = []byte(rapid.SampledFrom(c20Hostile).Draw(t, label+"whole"))
		}
	}
	return out
}

func c20YAML(v interface{}) []byte {
	b, err := yaml.Marshal(v)
	if err != nil {
		return []byte("null")
	}
	return b
}

var c20SeedTemplates = []string{
	"apiVersion: v1\nkind: ConfigMap\nmetadata:\n  name: {{ .Release.Name }}\ndata:\n  v: {{ toJson .Values | quote }}\n",
	"{{ include \"self\" . }}",
	"{{- define \"self\" -}}{{ include \"self\" . }}{{- end -}}{{ include \"self\" . }}",
	"{{ tpl .Values.t . }}",
	"{{ .Values.sub.x.y.z }}",
	"{{ range $i, $e := until 5 }}---\nkind: K{{ $i }}\n{{ end }}",
	"{{ toYaml .Values | nindent 2 }}\n---\n{{ fromYaml \"a: [\" | toJson }}",
	"{{ required \"need\" .Values.missing }}",
	"{{ index .Values.list 99 }}",
	"{{ .Files.Get \"../x\" }}{{ (.Files.Glob \"**\").AsSecrets }}",
	"kind: ConfigMap\nmetadata:\n  name: x\n  annotations:\n    helm.sh/hook: pre-install\n    helm.sh/hook-weight: \"not-a-number\"\n",
	"metadata: [1,2]\nkind: {a: b}\n",
}

func c20GenChart(t *rapid.T, target string) c20Case {
	in := map[string]string{}
	dep := map[string]interface{}{"name": "sub", "version": "1.0.0", "repository": "file://../sub"}
	for _, f := range []string{"condition", "tags", "alias", "import-values", "enabled"} {
		if rapid.IntRange(0, 2).Draw(t, "dep"+f) == 0 {
			switch f {
			case "import-values":
				dep[f] = rapid.SampledFrom([]interface{}{[]interface{}{"data"}, []interface{}{map[string]interface{}{"child": "exports.data", "parent": "imported"}}, []interface{}{map[string]interface{}{"child": float64(1), "parent": float64(2)}}, []interface{}{map[string]interface{}{"child": "x"}}, []interface{}{nil}, "str", []interface{}{[]interface{}{"nested"}},
					// parent paths that lead back into the table being imported, or into the subchart's own section
					[]interface{}{map[string]interface{}{"child": "exports.data", "parent": "sub.exports.data.nested"}},
					[]interface{}{map[string]interface{}{"child": "exports", "parent": "sub.exports.data"}},
					[]interface{}{map[string]interface{}{"child": "exports.data", "parent": "sub"}, map[string]interface{}{"child": "exports", "parent": "sub.k"}},
					[]interface{}{map[string]interface{}{"child": "exports.data", "parent": "."}, "data"}}).Draw(t, "iv")
			case "tags":
				dep[f] = rapid.SampledFrom([]interface{}{[]interface{}{"t1"}, []interface{}{"t1", "t2"}, []interface{}{}, []interface{}{"t1"}, "t1", []interface{}{nil, float64(1)}}).Draw(t, "tags")
			case "enabled":
				dep[f] = rapid.SampledFrom([]interface{}{true, false, true, false, nil, "yes"}).Draw(t, "enabledV")
			default:
				dep[f] = rapid.SampledFrom([]interface{}{"sub.enabled", "al", "sub.enabled,tags.t1", "a,,b", ".", "..x", "sub.exports", "al", true, nil, float64(1)}).Draw(t, "dv")
			}
		}
	}
	md := map[string]interface{}{"apiVersion": rapid.SampledFrom([]interface{}{"v2", "v2", "v2", "v2", "v1", "v1", "v3", nil, float64(2)}).Draw(t, "api"), "name": "p", "version": rapid.SampledFrom([]interface{}{"1.0.0", "1.0.0", "1.0.0", "1.0.0", "1", "", nil, "v1.0.0+x", float64(1)}).Draw(t, "ver"), "dependencies": []interface{}{dep}}
	for _, f := range []string{"keywords", "maintainers", "annotations", "type", "kubeVersion", "sources", "icon"} {
		if rapid.IntRange(0, 9).Draw(t, "md"+f) == 0 {
			md[f] = c20WrongType(t, "mdv"+f)
		}
	}
	var chartYAML interface{} = md
	vals := map[string]interface{}{"t": rapid.SampledFrom([]string{"{{ .Values.t }}", "{{ tpl .Values.t . }}", "plain", "{{ include \"self\" . }}"}).Draw(t, "tval"), "list": []interface{}{float64(1)}, "sub": map[string]interface{}{"enabled": true, "exports": map[string]interface{}{"data": map[string]interface{}{"k": "v"}}}, "tags": map[string]interface{}{"t1": true}, "global": map[string]interface{}{"g": float64(1)}}
	var valsV interface{} = vals
	subVals := map[string]interface{}{"exports": map[string]interface{}{"data": map[string]interface{}{"k": "v"}}, "x": float64(1), "global": map[string]interface{}{"g": "sub"}}
	var subV interface{} = subVals
	schema := map[string]interface{}{"$schema": "http://json-schema.org/draft-07/schema#", "type": "object", "properties": map[string]interface{}{"t": map[string]interface{}{"type": "string"}, "self": map[string]interface{}{"$ref": "#"}}}
	var schemaV interface{} = schema
	switch rapid.IntRange(0, 7).Draw(t, "mutWhat") {
	case 0:
		chartYAML = c20MutateTree(t, md, "chart")
	case 1:
		valsV = c20MutateTree(t, vals, "vals")
	case 2:
		subV = c20MutateTree(t, subVals, "subvals")
	case 3:
		schemaV = c20MutateTree(t, schema, "schema")
	case 4:
		chartYAML = c20MutateTree(t, md, "chart")
		valsV = c20MutateTree(t, vals, "vals")
	}
	cy, vy, sy := c20YAML(chartYAML), c20YAML(valsV), c20YAML(subV)
	sj, _ := json.Marshal(schemaV)
	if rapid.IntRange(0, 5).Draw(t, "byteLevel") == 0 {
		switch rapid.IntRange(0, 3).Draw(t, "byteWhat") {
		case 0:
			cy = c20MutateBytes(t, cy, "cy")
		case 1:
			vy = c20MutateBytes(t, vy, "vy")
		case 2:
			sj = c20MutateBytes(t, sj, "sj")
		default:
			sy = c20MutateBytes(t, sy, "sy")
		}
	}
	c20Put(in, "Chart.yaml", cy)
	c20Put(in, "values.yaml", vy)
	if rapid.Bool().Draw(t, "hasSchema") {
		c20Put(in, "values.schema.json", sj)
	}
	for i, n := 0, rapid.IntRange(1, 2).Draw(t, "nTpl"); i < n; i++ {
		tpl := []byte(rapid.SampledFrom(c20SeedTemplates).Draw(t, "tpl"))
		if rapid.IntRange(0, 3).Draw(t, "mutTpl") == 0 {
			tpl = c20MutateBytes(t, tpl, "tplb")
		}
		c20Put(in, fmt.Sprintf("templates/t%d.yaml", i), tpl)
	}
	if rapid.IntRange(0, 3).Draw(t, "helmignore") == 0 {
		c20Put(in, ".helmignore", c20MutateBytes(t, []byte("*.bak\n!keep.bak\n/dir/\n"), "ign"))
	}
	// a chart directory may hold a symbolic link that leads back into itself (written by the lint target only): the
	// walk ends with an error when the path has too many links or (below a directory with a long name) gets too long
	if rapid.IntRange(0, 4).Draw(t, "linkBackIntoTheChart") == 0 {
		at := rapid.SampledFrom([]string{"loop", "templates/again", "dir/up", "files/" + strings.Repeat("d", 120) + "/up", "files/" + strings.Repeat("d", 120) + "/up"}).Draw(t, "linkAt")
		to := rapid.SampledFrom([]string{".", "..", "../chart", "$CHART", "$CHART"}).Draw(t, "linkTo")
		if strings.HasPrefix(at, "files/") {
			to = "$CHART"
		}
		c20Put(in, "@link/"+at, []byte(to))
		if _, has := in[".helmignore"]; !has && rapid.Bool().Draw(t, "defaultHelmignore") {
			// (what `helm create` writes starts with directory rules)
			c20Put(in, ".helmignore", []byte(".DS_Store\n.git/\n.svn/\n*.tmp\n"))
		}
	}
	// the other metadata files a chart may carry (legacy requirements files, lock files), well-formed, empty or null
	for _, name := range []string{"requirements.yaml", "requirements.lock", "Chart.lock"} {
		if rapid.IntRange(0, 4).Draw(t, "has-"+name) == 0 {
			body := rapid.SampledFrom([]string{"dependencies:\n- name: sub\n  version: 1.0.0\n  repository: file://../sub\n", "", "null", "~", "---", "# only a comment\n", "[]", "dependencies: null\n", "dependencies: [null]\n", "generated: nonsense\ndigest: 1\n", "\t"}).Draw(t, "body-"+name)
			c20Put(in, name, []byte(body))
		}
	}
	c20Put(in, "charts/sub/Chart.yaml", []byte("apiVersion: v2\nname: sub\nversion: 1.0.0\n"))
	c20Put(in, "charts/sub/values.yaml", sy)
	c20Put(in, "charts/sub/templates/s.yaml", []byte("s: {{ toJson .Values | quote }}\n"))
	if target == "chart" {
		uv := map[string]interface{}{"sub": map[string]interface{}{"enabled": true}}
		var uvV interface{} = uv
		if rapid.IntRange(0, 2).Draw(t, "mutUser") == 0 {
			uvV = c20MutateTree(t, uv, "user")
		}
		c20Put(in, "user-values", c20YAML(uvV))
	}
	return c20Case{Target: target, In: in}
}

func c20GenCase(t *rapid.T) c20Case {
	target := rapid.SampledFrom([]string{"chart", "chart", "chart", "lint", "strvals", "strvals", "values", "index", "manifests", "records", "records", "provenance", "ignore", "plugin", "schema"}).Draw(t, "target")
	in := map[string]string{}
	one := func(name string, seed []byte, tree interface{}) c20Case {
		b := seed
		if tree != nil && rapid.Bool().Draw(t, "structural") {
			b = c20YAML(c20MutateTree(t, tree, name))
			if rapid.IntRange(0, 3).Draw(t, "alsoBytes") == 0 {
				b = c20MutateBytes(t, b, name+"b")
			}
		} else {
			b = c20MutateBytes(t, seed, name+"b")
		}
		c20Put(in, name, b)
		return c20Case{Target: target, In: in}
	}
	switch target {
	case "chart", "lint":
		return c20GenChart(t, target)
	case "strvals":
		seed := rapid.SampledFrom([]string{"a=b", "a.b[0].c=1,d={x,y}", "a=\\,b", "a[0][1]=x", "a.b=", "a={", "a[1", "=x", "a,b", "a..b=1", "a[0].b=,c=1", "a=b=c", "[0]=x", "a[0]b=1", "a={a,b},", "a.b.c.d.e=null"}).Draw(t, "seed")
		switch rapid.IntRange(0, 5).Draw(t, "lineKind") {
		case 0:
			seed = rapid.SampledFrom(c20Hostile).Draw(t, "hostile")
		case 1, 2:
			// several assignments whose paths disagree about what lives where (a scalar, a list, a table, a list in a list)
			var parts []string
			for i, n := 0, rapid.IntRange(1, 4).Draw(t, "nAssign"); i < n; i++ {
				path := rapid.SampledFrom([]string{"a", "b", "c", "list", "j"}).Draw(t, "root")
				for k, m := 0, rapid.IntRange(0, 3).Draw(t, "nSeg"); k < m; k++ {
					path += rapid.SampledFrom([]string{"[0]", "[1]", ".name", ".d", "[0][1]", "[2]"}).Draw(t, "seg")
				}
				parts = append(parts, path+"="+rapid.SampledFrom([]string{"x", "1", "", "{p,q}", "null", "true", "{}"}).Draw(t, "val"))
			}
			seed = strings.Join(parts, ",")
		}
		c20Put(in, "line", c20MutateBytes(t, []byte(seed), "line"))
		return c20Case{Target: target, In: in}
	case "values":
		return one("values", []byte("a:\n  b:\n    c: 1\nlist: [1, 2]\n"), map[string]interface{}{"a": map[string]interface{}{"b": map[string]interface{}{"c": float64(1)}}, "list": []interface{}{float64(1)}})
	case "index":
		entry := map[string]interface{}{"name": "foo", "version": "1.0.0", "urls": []interface{}{"https://x/foo-1.0.0.tgz"}, "apiVersion": "v2", "created": "2020-01-01T00:00:00Z", "digest": "abc"}
		foo := []interface{}{entry, map[string]interface{}{"name": "foo", "version": "0.9.0-rc.1"}}
		// runs of adjacent unusable records (null, empty, no version, bad version, wrong types) among usable ones
		bad := []interface{}{nil, map[string]interface{}{}, map[string]interface{}{"name": "foo"}, map[string]interface{}{"name": "foo", "version": "not-semver"}, map[string]interface{}{"name": "foo", "version": "1.0"}, "str", []interface{}{}, map[string]interface{}{"name": nil, "version": nil}, map[string]interface{}{"name": "foo", "version": "2.0.0", "urls": nil}, map[string]interface{}{"name": "foo", "version": "3.0.0", "urls": []interface{}{"u"}}}
		for i, n := 0, rapid.IntRange(0, 5).Draw(t, "nBadRecords"); i < n; i++ {
			at := rapid.IntRange(0, len(foo)).Draw(t, "badAt")
			foo = append(foo[:at], append([]interface{}{rapid.SampledFrom(bad).Draw(t, "badRecord")}, foo[at:]...)...)
		}
		idx := map[string]interface{}{"apiVersion": "v1", "generated": "2020-01-01T00:00:00Z", "entries": map[string]interface{}{"foo": foo, "bar": []interface{}{}}}
		return one("index", c20YAML(idx), idx)
	case "manifests":
		return one("manifest", []byte("---\n# Source: c/templates/a.yaml\napiVersion: v1\nkind: ConfigMap\nmetadata:\n  name: a\n  annotations:\n    helm.sh/hook: pre-install\n    helm.sh/hook-weight: \"5\"\n---\nkind: Secret\nmetadata:\n  name: b\n"), nil)
	case "records":
		good := &release.Release{Name: "r", Namespace: "default", Version: 2, Info: &release.Info{Status: release.StatusDeployed}, Manifest: "m2"}
		gj, _ := json.Marshal(good)
		body := []byte(base64.StdEncoding.EncodeToString(gj)) // the legacy uncompressed form is valid too
		switch rapid.IntRange(0, 5).Draw(t, "corrupt") {
		case 0:
			body = []byte("not base64 !!!")
		case 1:
			body = []byte(base64.StdEncoding.EncodeToString([]byte{0x1f, 0x8b, 0x08, 0, 1, 2, 3}))
		case 2:
			var tree interface{}
			_ = json.Unmarshal(gj, &tree)
			mj, _ := json.Marshal(c20MutateTree(t, tree, "rel"))
			body = []byte(base64.StdEncoding.EncodeToString(mj))
		case 3:
			body = []byte{}
		case 4:
			body = c20MutateBytes(t, body, "body")
		default:
			body = []byte(base64.StdEncoding.EncodeToString([]byte(rapid.SampledFrom([]string{"null", "[]", "\"str\"", "{\"info\":null}", "{\"chart\":{\"metadata\":null}}", "{\"hooks\":[null]}", "{\"version\":\"x\"}"}).Draw(t, "json"))))
		}
		c20Put(in, "body", body)
		if rapid.IntRange(0, 3).Draw(t, "oddLabels") == 0 {
			lb, _ := json.Marshal(map[string]string{"name": "r", "owner": "helm", "status": rapid.SampledFrom([]string{"deployed", "", "bogus"}).Draw(t, "lstatus"), "version": rapid.SampledFrom([]string{"2", "x", ""}).Draw(t, "lver")})
			c20Put(in, "labels", lb)
		}
		return c20Case{Target: target, In: in}
	case "provenance":
		prov, _ := os.ReadFile("/repo/pkg/provenance/testdata/hashtest-1.2.3.tgz.prov")
		arch, _ := os.ReadFile("/repo/pkg/provenance/testdata/hashtest-1.2.3.tgz")
		ring, _ := os.ReadFile("/repo/pkg/provenance/testdata/helm-test-key.pub")
		switch rapid.IntRange(0, 2).Draw(t, "provWhat") {
		case 0:
			prov = c20MutateBytes(t, prov, "prov")
		case 1:
			ring = c20MutateBytes(t, ring, "ring")
		default:
			arch = c20MutateBytes(t, arch, "arch")
			prov = c20MutateBytes(t, prov, "prov")
		}
		c20Put(in, "prov", prov)
		c20Put(in, "archive", arch)
		c20Put(in, "keyring", ring)
		return c20Case{Target: target, In: in}
	case "ignore":
		c20Put(in, "path", []byte(rapid.SampledFrom([]string{"a", "a/b", "[", "\\", "**/x", "a//b", "\x00"}).Draw(t, "path")))
		return one("helmignore", []byte("# comment\n*.bak\n!keep.bak\n/dir/\n[a-c]?.txt\n**/deep\n\\!literal\n"), nil)
	case "plugin":
		pl := map[string]interface{}{"name": "p1", "version": "0.1.0", "usage": "u", "description": "d", "command": "$HELM_PLUGIN_DIR/run.sh", "platformCommand": []interface{}{map[string]interface{}{"os": "linux", "arch": "amd64", "command": "x", "args": []interface{}{"a"}}}, "hooks": map[string]interface{}{"install": "echo hi"}, "downloaders": []interface{}{map[string]interface{}{"command": "dl", "protocols": []interface{}{"myproto"}}}, "ignoreFlags": false}
		return one("plugin.yaml", c20YAML(pl), pl)
	default: // schema
		sch := map[string]interface{}{"$schema": "http://json-schema.org/draft-07/schema#", "type": "object", "properties": map[string]interface{}{"a": map[string]interface{}{"type": "string", "pattern": "^a+$"}, "self": map[string]interface{}{"$ref": "#"}, "def": map[string]interface{}{"$ref": "#/definitions/d"}}, "definitions": map[string]interface{}{"d": map[string]interface{}{"$ref": "#/definitions/d"}}}
		var sv interface{} = sch
		if rapid.Bool().Draw(t, "mutSchema") {
			sv = c20MutateTree(t, sch, "schema")
		}
		sj, _ := json.Marshal(sv)
		if rapid.IntRange(0, 3).Draw(t, "schemaBytes") == 0 {
			sj = c20MutateBytes(t, sj, "sjb")
		}
		c20Put(in, "schema", sj)
		vj, _ := json.Marshal(c20MutateTree(t, map[string]interface{}{"a": "aaa", "self": map[string]interface{}{"a": "b"}, "def": float64(1)}, "sval"))
		c20Put(in, "values", vj)
		return c20Case{Target: target, In: in}
	}
}

func c20Prop(t *rapid.T) {
	c := c20GenCase(t)
	reached := c20Exec(t, c)
	lbls := []string{"target:" + c.Target}
	if reached != "" {
		lbls = append(lbls, "reached:"+c.Target+":"+reached)
	}
	evid.Case(lbls, jsonOf(c), reached != "", map[string]interface{}{"target": c.Target, "reached": reached, "inputs": c20Describe(c)[:min(600, len(c20Describe(c)))]})
}

func TestC20(t *testing.T) {
	debug.SetMaxStack(256 << 20) // unbounded recursion dies fast instead of eating the machine
	evid.Extra("rule", "C20: valid seed inputs (chart file maps with Chart.yaml / dependencies incl. import-values (also with parent paths leading back into the imported table) / values / schema / templates / subchart, --set lines (seeds, hostile constants, and a grammar of several assignments whose paths disagree about scalar / list / table / list in a list), values files, repository indexes, manifest streams, stored Secret and ConfigMap release records next to good ones and as the only record of a release, provenance + keyring files, .helmignore, plugin.yaml, schema + values) receive structure-aware mutations (a node replaced by null / a wrong type / a 50-400 level nest / a 20 KB string / a hostile constant, null list entries, self references) and byte-level mutations (truncate, bit flip, hostile insert, doubling), then go through the public entry points: LoadFiles -> ProcessDependencies -> ToRenderValuesWithSchemaValidation -> Render -> SortManifests; lint.RunAll and LoadDir on a written directory (one in eight holding a symbolic link that leads back into the chart); every strvals parser; ReadValues/LoadValues; LoadIndexFile + Get/Has/Merge/Sort/Write; SplitManifests/SortManifests; storage Get/List/History/Last/Deployed/Query/Delete; NewFromKeyring/Verify/DigestFile; ignore.Parse/Ignore; plugin.LoadDir/LoadAll/FindPlugins/PrepareCommand; ValidateAgainstSingleSchema. Oracle: no panic escapes (recover guard; root cause = first Helm frame), no result after 30 s is a hang, a dead process (stack exhaustion) is attributed to the case recorded before it started, and List/History over stored records still return every readable record. Non-trivial = the input passed the first parser of its target (deeper code ran); distinct by the inputs.")
	evid.Extra("assumptions", []string{"inputs are bounded (<= ~100 KB); the 30 s watchdog is far above any observed run time", "OCI, SQL storage and plugin execution are not exercised"})
	rapid.Check(t, c20Prop)
}

func TestC20_Replay(t *testing.T) {
	p := os.Getenv("VERIF_REPLAY_JSON")
	if p == "" {
		t.Skip("no VERIF_REPLAY_JSON")
	}
	d, err := loadReplayDoc(p)
	if err != nil {
		t.Fatal(err)
	}
	var c c20Case
	if err := json.Unmarshal(d.Case, &c); err != nil {
		t.Fatal(err)
	}
	debug.SetMaxStack(256 << 20)
	c20Exec(t, c)
}

func TestC20_Known(t *testing.T) {
	for _, e := range knownEntries("C20") {
		d, err := loadReplayDoc(e.Replay)
		var c c20Case
		if err == nil {
			err = json.Unmarshal(d.Case, &c)
		}
		if err != nil {
			fmt.Printf("KNOWN-GONE sig=%s :: replay unreadable: %v\n", e.Signature, err)
			continue
		}
		vt.CheckKnown(e.Signature, e.What, func(tb vt.TB) { c20Exec(tb, c) })
	}
}

// ------------------------------------------------------------------ native fuzz targets (thorough tier; same oracle)

func c20FuzzOne(f *testing.F, target, name string, seeds ...string) {
	for _, s := range seeds {
		f.Add([]byte(s))
	}
	for _, s := range c20Hostile {
		f.Add([]byte(s))
	}
	f.Fuzz(func(t *testing.T, data []byte) {
		if len(data) > 64<<10 {
			return
		}
		in := map[string]string{}
		c20Put(in, name, data)
		c20Exec(t, c20Case{Target: target, In: in})
	})
}

func FuzzC20Strvals(f *testing.F) {
	c20FuzzOne(f, "strvals", "line", "a=b", "a.b[0].c=1,d={x,y}", "a[0].b=", "a={a,b},c=\\,")
}
func FuzzC20Values(f *testing.F) { c20FuzzOne(f, "values", "values", "a:\n  b: 1\n", "&a [*a]") }
func FuzzC20Index(f *testing.F) {
	c20FuzzOne(f, "index", "index", "apiVersion: v1\nentries:\n  foo:\n  - name: foo\n    version: 1.0.0\n    urls: [x]\n  - null\n")
}
func FuzzC20Manifests(f *testing.F) {
	c20FuzzOne(f, "manifests", "manifest", "---\nkind: ConfigMap\nmetadata:\n  name: a\n  annotations:\n    helm.sh/hook: pre-install\n")
}
func FuzzC20Ignore(f *testing.F) { c20FuzzOne(f, "ignore", "helmignore", "*.bak\n!x\n/d/\n[a-c]\n") }
func FuzzC20Plugin(f *testing.F) {
	c20FuzzOne(f, "plugin", "plugin.yaml", "name: p\nversion: 1\ncommand: x\nhooks: {install: y}\n")
}
func FuzzC20Records(f *testing.F) { c20FuzzOne(f, "records", "body", "bm90IGpzb24=", "H4sIAAAAAAAA") }
func FuzzC20Schema(f *testing.F) {
	c20FuzzOne(f, "schema", "schema", `{"type":"object","properties":{"a":{"$ref":"#"}}}`)
}
func FuzzC20ChartYaml(f *testing.F) {
	for _, s := range []string{"apiVersion: v2\nname: p\nversion: 1.0.0\ndependencies:\n- name: sub\n  version: 1.0.0\n  import-values:\n  - child: 1\n    parent: 2\n", "apiVersion: v2\nname: p\nversion: 1.0.0\n"} {
		f.Add([]byte(s))
	}
	f.Fuzz(func(t *testing.T, data []byte) {
		if len(data) > 64<<10 {
			return
		}
		in := map[string]string{}
		c20Put(in, "Chart.yaml", data)
		c20Put(in, "values.yaml", []byte("sub: {exports: {data: {k: v}}}\n"))
		c20Put(in, "templates/t.yaml", []byte("v: {{ toJson .Values | quote }}\n"))
		c20Put(in, "charts/sub/Chart.yaml", []byte("apiVersion: v2\nname: sub\nversion: 1.0.0\n"))
		c20Put(in, "charts/sub/values.yaml", []byte("exports: {data: {k: v}}\n"))
		c20Exec(t, c20Case{Target: "chart", In: in})
	})
}
