package props

// C11 — subcharts see only their own and global values; disabled ones vanish.

import (
	"encoding/json"
	"fmt"
	"os"
	"sort"
	"strings"
	"testing"

	"pgregory.net/rapid"

	"helm.sh/helm/v4/pkg/action"
	chart "helm.sh/helm/v4/pkg/chart/v2"

	"verif/internal/evid"
	"verif/internal/vt"
	"verif/internal/world"
)

type c11Chart struct {
	Name     string                 `json:"name"`
	Alias    string                 `json:"alias,omitempty"`
	Cond     string                 `json:"condition,omitempty"`
	Tags     []string               `json:"tags,omitempty"`
	Defaults map[string]interface{} `json:"defaults"`
	Deps     []*c11Chart            `json:"deps,omitempty"`
	Reject   bool                   `json:"rejectingSchema,omitempty"` // values.schema.json that rejects everything
}

type c11Case struct {
	Root *c11Chart              `json:"root"`
	User map[string]interface{} `json:"user"`
}

func (c *c11Chart) eff() string {
	if c.Alias != "" {
		return c.Alias
	}
	return c.Name
}

const c11RejectSchema = `{"$schema":"http://json-schema.org/draft-07/schema#","type":"object","required":["this-key-is-never-set"]}`

func (c *c11Chart) build() *chart.Chart { return c.buildFor(false) }

// buildFor(true) is the variant installed for real into the simulated cluster: only crds/ files, values and
// dependency declarations (the probe is not a Kubernetes object, and twins under two aliases would collide by name).
func (c *c11Chart) buildFor(real bool) *chart.Chart {
	ch := &chart.Chart{
		Metadata: &chart.Metadata{APIVersion: "v2", Name: c.Name, Version: "1.0.0"},
		Values:   deepCopyVal(c.Defaults).(map[string]interface{}),
		Templates: []*chart.File{
			{Name: "templates/probe.yaml", Data: []byte("probe: {{ .Chart.Name }}\nvalues: '{{ toJson .Values }}'\n")},
			{Name: "templates/hook.yaml", Data: []byte("apiVersion: v1\nkind: ConfigMap\nmetadata:\n  name: hook-{{ .Chart.Name }}\n  annotations:\n    \"helm.sh/hook\": pre-install\n")},
		},
		Files: []*chart.File{{Name: "crds/crd.yaml", Data: []byte("apiVersion: apiextensions.k8s.io/v1\nkind: CustomResourceDefinition\nmetadata:\n  name: crd-of-" + c.Name + "\n")}},
	}
	if c.Reject {
		ch.Schema = []byte(c11RejectSchema)
	}
	if real {
		ch.Templates, ch.Schema = nil, nil
	}
	for _, d := range c.Deps {
		ch.Metadata.Dependencies = append(ch.Metadata.Dependencies, &chart.Dependency{Name: d.Name, Version: "1.0.0", Alias: d.Alias, Condition: d.Cond, Tags: d.Tags})
	}
	// the same chart may be declared twice under two aliases: it is present once in charts/
	seen := map[string]bool{}
	for _, d := range c.Deps {
		if seen[d.Name] {
			continue
		}
		seen[d.Name] = true
		ch.AddDependency(d.buildFor(real))
	}
	return ch
}

func c11PathGet(m map[string]interface{}, p string) (interface{}, bool) {
	var cur interface{} = m
	for _, seg := range strings.Split(p, ".") {
		mm, ok := cur.(map[string]interface{})
		if !ok {
			return nil, false
		}
		cur, ok = mm[seg]
		if !ok {
			return nil, false
		}
	}
	return cur, true
}

// c11Enabled is the documented rule: the first condition path that resolves to a boolean in the parent's effective
// values decides; otherwise disabled exactly when some tag is false and none is true.
func c11Enabled(c *c11Chart, parentVals map[string]interface{}, tags map[string]interface{}) bool {
	for _, p := range strings.Split(c.Cond, ",") {
		p = strings.TrimSpace(p)
		if p == "" {
			continue
		}
		if v, ok := c11PathGet(parentVals, p); ok {
			if b, ok := v.(bool); ok {
				return b
			}
		}
	}
	hasT, hasF := false, false
	for _, tg := range c.Tags {
		if b, ok := tags[tg].(bool); ok {
			if b {
				hasT = true
			} else {
				hasF = true
			}
		}
	}
	return !(hasF && !hasT)
}

// c11AllTree converts to the coalescing reference with every declared dependency present (under its effective name).
func c11AllTree(c *c11Chart) *refChart {
	rc := &refChart{Name: c.eff(), Defaults: c.Defaults}
	for _, d := range c.Deps {
		rc.Deps = append(rc.Deps, c11AllTree(d))
	}
	return rc
}

// c11Prune returns the tree of enabled charts (reference), given the top-level effective values with everything present.
func c11Prune(c *c11Chart, scope map[string]interface{}, tags map[string]interface{}) *refChart {
	rc := &refChart{Name: c.eff(), Defaults: c.Defaults}
	if c.Reject {
		rc.Schema = c11RejectSchema
	}
	for _, d := range c.Deps {
		if !c11Enabled(d, scope, tags) {
			continue
		}
		sub, _ := scope[d.eff()].(map[string]interface{})
		if sub == nil {
			sub = map[string]interface{}{}
		}
		rc.Deps = append(rc.Deps, c11Prune(d, sub, tags))
	}
	return rc
}

type c11Expect struct {
	probes map[string]map[string]interface{} // template path -> values the chart must see
	reject bool                              // an enabled chart carries the rejecting schema
}

func c11Expected(c c11Case) c11Expect {
	all := refScope(c11AllTree(c.Root), deepCopyVal(c.User).(map[string]interface{}))
	tags, _ := all["tags"].(map[string]interface{})
	pruned := c11Prune(c.Root, all, tags)
	ex := c11Expect{probes: map[string]map[string]interface{}{}}
	scope := refScope(pruned, deepCopyVal(c.User).(map[string]interface{}))
	var walk func(rc *refChart, realName, path string, vals map[string]interface{})
	walk = func(rc *refChart, realName, path string, vals map[string]interface{}) {
		ex.probes[path+"/templates/probe.yaml"] = vals
		if rc.Schema != "" {
			ex.reject = true
		}
		for _, d := range rc.Deps {
			sub, _ := vals[d.Name].(map[string]interface{})
			if sub == nil {
				sub = map[string]interface{}{}
			}
			walk(d, d.Name, path+"/charts/"+d.Name, sub)
		}
	}
	walk(pruned, c.Root.Name, c.Root.Name, scope)
	return ex
}

// ------------------------------------------------------------------ generator

func c11GenBoolish(t *rapid.T, label string) (interface{}, bool) {
	switch rapid.IntRange(0, 4).Draw(t, label) {
	case 1:
		return true, true
	case 2:
		return false, true
	case 3:
		return "str", true
	case 4:
		return float64(1), true
	}
	return nil, false
}

func c11GenTags(t *rapid.T, label string) map[string]interface{} {
	tg := map[string]interface{}{}
	for _, k := range []string{"t1", "t2", "t.3"} {
		if v, ok := c11GenBoolish(t, label+k); ok {
			tg[k] = v
		}
	}
	return tg
}

func c11GenCase(t *rapid.T) c11Case {
	uniq := 0
	sentinel := func(owner string) string { uniq++; return fmt.Sprintf("SENT<%s#%d>", owner, uniq) }
	var gen func(name string, depth int, parentPathEff string) *c11Chart
	childPool := map[int][]string{1: {"s1", "s2", "s3"}, 2: {"g1", "g2"}, 3: {"h1"}}
	gen = func(name string, depth int, label string) *c11Chart {
		c := &c11Chart{Name: name, Defaults: map[string]interface{}{"own": sentinel(label)}}
		if v, ok := c11GenBoolish(t, label+"enabledDefault"); ok {
			c.Defaults["enabled"] = v // a subchart's own default can decide its enablement through the parent's section
		}
		if v, ok := c11GenBoolish(t, label+"flagDefault"); ok {
			c.Defaults["flag"] = v
		}
		if rapid.IntRange(0, 2).Draw(t, label+"hasGlobal") == 0 {
			g := map[string]interface{}{"g_" + name: "GLOBAL-DEFAULT<" + label + ">", "shared": "GSHARED<" + label + ">"}
			// nested global tables set at different levels
			if rapid.Bool().Draw(t, label+"nestedGlobal") {
				g["nest"] = map[string]interface{}{"n_" + name: "GNEST<" + label + ">", "shared": "GNESTSHARED<" + label + ">", "deep": map[string]interface{}{"d_" + name: "GDEEP<" + label + ">"}}
			}
			c.Defaults["global"] = g
		}
		if depth < 3 && (depth == 0 || rapid.IntRange(0, 1+depth).Draw(t, label+"hasDeps") == 0) {
			pool := childPool[depth+1]
			n := rapid.IntRange(1, len(pool)).Draw(t, label+"nDeps")
			used := map[string]bool{}
			for i := 0; i < n; i++ {
				dn := pool[i]
				d := gen(dn, depth+1, label+"/"+dn)
				if rapid.IntRange(0, 3).Draw(t, label+dn+"alias") == 0 {
					d.Alias = fmt.Sprintf("al%d%d", depth+1, i)
				}
				c11GenEnableRules(t, d, label+dn)
				if rapid.IntRange(0, 5).Draw(t, label+dn+"reject") == 0 {
					d.Reject = true
				}
				used[d.eff()] = true
				c.Deps = append(c.Deps, d)
				// the same chart a second time under another alias
				if depth == 0 && i == 0 && rapid.IntRange(0, 4).Draw(t, label+dn+"twice") == 0 {
					// (enablement rules below a chart that is declared twice are left out: the two copies share their nested
					// metadata in Helm - a known finding of its own - and combining both deviations would only blur signatures)
					// (only for nested dependencies that carry an alias themselves - the trigger of that finding; plain nested
					// dependencies keep their conditions and tags, and the two copies must prune them independently)
					for _, dd := range d.Deps {
						if dd.Alias != "" {
							c11StripEnable(dd)
						}
					}
					d2 := *d
					d2.Alias = "twin"
					d2.Deps = nil
					for _, dd := range d.Deps {
						cp := *dd
						d2.Deps = append(d2.Deps, &cp)
					}
					c11GenEnableRules(t, &d2, label+dn+"twin")
					c.Deps = append(c.Deps, &d2)
				}
				// the parent's values.yaml section for the dependency
				sec := map[string]interface{}{"fromParent": sentinel(label + "->" + d.eff())}
				if v, ok := c11GenBoolish(t, label+dn+"secEnabled"); ok {
					sec["enabled"] = v
				}
				if rapid.IntRange(0, 2).Draw(t, label+dn+"hasSec") > 0 {
					c.Defaults[d.eff()] = sec
				}
			}
		}
		return c
	}
	root := gen("root", 0, "root")
	// conditions on the global switch are not drawn for the dependencies of an aliased dependency at depth two: Helm
	// looks their paths up before that alias is applied (the recorded finding about aliased nested dependencies), and
	// the globals handed down to the aliased chart's section are as invisible there as its defaults are
	var noGlobalCond func(x *c11Chart, depth int)
	noGlobalCond = func(x *c11Chart, depth int) {
		for _, d := range x.Deps {
			if depth >= 2 && x.Alias != "" {
				var keep []string
				for _, p := range strings.Split(d.Cond, ",") {
					if p != "global.on" {
						keep = append(keep, p)
					}
				}
				d.Cond = strings.Join(keep, ",")
			}
			noGlobalCond(d, depth+1)
		}
	}
	noGlobalCond(root, 0)
	if tg := c11GenTags(t, "rootTags"); len(tg) > 0 && rapid.Bool().Draw(t, "rootHasTags") {
		root.Defaults["tags"] = tg
	}
	user := map[string]interface{}{"userOwn": sentinel("user")}
	if tg := c11GenTags(t, "userTags"); len(tg) > 0 {
		user["tags"] = tg
	}
	if v, ok := c11GenBoolish(t, "userFlag"); ok {
		user["flag"] = v
	}
	if rapid.IntRange(0, 2).Draw(t, "userGlobal") == 0 {
		ug := map[string]interface{}{"shared": "GSHARED<user>", "fromUser": "GUSER"}
		if rapid.Bool().Draw(t, "userNestedGlobal") {
			ug["nest"] = map[string]interface{}{"shared": "GNESTSHARED<user>", "deep": map[string]interface{}{"fromUser": "GDEEPUSER"}}
		}
		user["global"] = ug
	}
	// a switch among the globals (conditions may name it): set at the top and/or inside a subchart's section, where it
	// holds for that subchart and everything below it
	if v, ok := c11GenBoolish(t, "userGlobalOn"); ok {
		ug, _ := user["global"].(map[string]interface{})
		if ug == nil {
			ug = map[string]interface{}{}
		}
		ug["on"] = v
		user["global"] = ug
	}
	for _, d := range root.Deps {
		sec := map[string]interface{}{}
		if v, ok := c11GenBoolish(t, "user"+d.eff()+"GlobalOn"); ok && rapid.Bool().Draw(t, "user"+d.eff()+"GlobalOnSet") {
			sec["global"] = map[string]interface{}{"on": v}
		}
		if v, ok := c11GenBoolish(t, "user"+d.eff()+"enabled"); ok {
			sec["enabled"] = v
		}
		if rapid.Bool().Draw(t, "user"+d.eff()+"val") {
			sec["fromUser"] = sentinel("user->" + d.eff())
		}
		for _, dd := range d.Deps {
			if v, ok := c11GenBoolish(t, "user"+d.eff()+dd.eff()+"enabled"); ok {
				sec[dd.eff()] = map[string]interface{}{"enabled": v}
			}
		}
		if len(sec) > 0 {
			user[d.eff()] = sec
		}
	}
	return c11Case{Root: root, User: user}
}

func c11StripEnable(x *c11Chart) {
	x.Cond, x.Tags, x.Reject = "", nil, false
	delete(x.Defaults, "enabled")
	delete(x.Defaults, "flag")
	for _, v := range x.Defaults {
		if sec, ok := v.(map[string]interface{}); ok {
			delete(sec, "enabled")
		}
	}
	for _, d := range x.Deps {
		c11StripEnable(d)
	}
}

func c11GenEnableRules(t *rapid.T, d *c11Chart, label string) {
	e := d.eff()
	d.Cond = rapid.SampledFrom([]string{"", "", e + ".enabled", e + ".enabled", "flag", e + ".enabled,flag", "missing.path," + e + ".enabled", e + ".own," + e + ".enabled", "flag," + e + ".enabled", "global.on", "global.on," + e + ".enabled"}).Draw(t, label+"cond")
	d.Tags = rapid.SliceOfNDistinct(rapid.SampledFrom([]string{"t1", "t2", "t.3"}), 0, 2, func(s string) string { return s }).Draw(t, label+"tags")
	sort.Strings(d.Tags)
}

// ------------------------------------------------------------------ judge

func c11Keys(m map[string]bool) []string {
	var out []string
	for k := range m {
		out = append(out, k)
	}
	sort.Strings(out)
	return out
}

// c11OrigName maps a rendered path (root, "charts", effective name, "charts", ...) to the chart's own name.
func c11OrigName(root *c11Chart, parts []string) string {
	cur := root
	for i := 2; i < len(parts); i += 2 {
		for _, d := range cur.Deps {
			if d.eff() == parts[i] {
				cur = d
				break
			}
		}
	}
	return cur.Name
}

type c11Render struct {
	probes map[string]string // template path -> values JSON
	hooks  []string
	crds   []string
	err    error
}

func c11Run(c c11Case, user map[string]interface{}) c11Render {
	ch := c.Root.build()
	in := action.NewInstall(&action.Configuration{})
	in.ClientOnly, in.DryRun, in.ReleaseName, in.Namespace, in.IncludeCRDs = true, true, "r", "default", true
	rel, err := in.Run(ch, deepCopyVal(user).(map[string]interface{}))
	r := c11Render{probes: map[string]string{}, err: err}
	if err != nil || rel == nil {
		return r
	}
	for _, doc := range strings.Split(rel.Manifest, "---\n") {
		lines := strings.SplitN(doc, "\n", 2)
		src := strings.TrimPrefix(lines[0], "# Source: ")
		switch {
		case strings.Contains(doc, "probe: "):
			for _, l := range strings.Split(doc, "\n") {
				if strings.HasPrefix(l, "values: '") {
					r.probes[src] = strings.ReplaceAll(strings.TrimSuffix(strings.TrimPrefix(l, "values: '"), "'"), "''", "'")
				}
			}
		case strings.Contains(doc, "CustomResourceDefinition"):
			r.crds = append(r.crds, src)
		}
	}
	for _, h := range rel.Hooks {
		r.hooks = append(r.hooks, h.Path)
	}
	sort.Strings(r.hooks)
	sort.Strings(r.crds)
	return r
}

// c11AltCase blanks the defaults of every aliased dependency at depth >= 2 and of everything below it. It is used only
// to NAME one root cause in a signature - never as the oracle: Helm coalesces a nested chart's defaults (its own and
// its sections for its children) under the chart's ORIGINAL name before the alias is applied, so alias-prefixed
// condition paths of that chart and of its descendants cannot see them.
func c11AltCase(c c11Case) c11Case {
	var cp func(x *c11Chart, depth int, blank bool) *c11Chart
	cp = func(x *c11Chart, depth int, blank bool) *c11Chart {
		n := *x
		blank = blank || (depth >= 2 && x.Alias != "")
		if blank {
			n.Defaults = map[string]interface{}{}
		}
		n.Deps = nil
		for _, d := range x.Deps {
			n.Deps = append(n.Deps, cp(d, depth+1, blank))
		}
		return &n
	}
	return c11Case{Root: cp(c.Root, 0, false), User: c.User}
}

func c11ProbeKeys(m map[string]map[string]interface{}) string {
	var ks []string
	for k := range m {
		ks = append(ks, k)
	}
	sort.Strings(ks)
	return strings.Join(ks, ",")
}

// c11AltTwin drops the aliases of the nested dependencies below the second copy ("twin") of a chart that is declared
// twice. Only used to name that root cause (the two copies share their nested dependency metadata in Helm).
func c11AltTwin(c c11Case) c11Case {
	// charts enabled below the FIRST copy: Helm processes a chart's dependency declarations (and renames them to their
	// aliases) only when it descends into that chart
	first := c11Expected(c).probes
	// cp copies x; firstPath is the path of the corresponding chart below the first copy ("" outside a twin),
	// parentProcessed says whether that chart's parent was descended into below the first copy
	var cp func(x *c11Chart, path, firstPath string, parentProcessed bool) *c11Chart
	cp = func(x *c11Chart, path, firstPath string, parentProcessed bool) *c11Chart {
		n := *x
		if firstPath != "" && parentProcessed && n.Alias != "" && n.Alias != "twin" {
			// the first copy's processing renamed the shared declaration to the alias: below the second copy no chart
			// carries that name any more, so the chart keeps its own name and no rule of the declaration reaches it
			n.Alias, n.Cond, n.Tags = "", "", nil
		}
		n.Deps = nil
		for _, d := range x.Deps {
			dFirst := ""
			switch {
			case firstPath != "":
				dFirst = firstPath + "/charts/" + d.eff()
			case d.Alias == "twin":
				for _, sib := range x.Deps {
					if sib != d && sib.Name == d.Name {
						dFirst = path + "/charts/" + sib.eff()
					}
				}
			}
			_, processed := first[firstPath+"/templates/probe.yaml"]
			n.Deps = append(n.Deps, cp(d, path+"/charts/"+d.eff(), dFirst, firstPath != "" && processed))
		}
		return &n
	}
	return c11Case{Root: cp(c.Root, c.Root.Name, "", false), User: c.User}
}

const c11TwinSig = "C11:nested-alias-not-applied-below-the-second-copy-of-a-chart-declared-twice"

const c11AliasSig = "C11:enablement-ignores-defaults-held-by-an-aliased-nested-dependency"

func c11Judge(tb vt.TB, c c11Case) (lbls []string, nontrivial bool) {
	ex := c11Expected(c)
	got := c11Run(c, c.User)
	detail := func() string { return "case " + jsonOf(c) }
	alt := c11Expected(c11AltCase(c))
	altDiffers := alt.reject != ex.reject || c11ProbeKeys(alt.probes) != c11ProbeKeys(ex.probes)
	if ex.reject {
		lbls = append(lbls, "enabled-chart-with-rejecting-schema")
		if got.err == nil {
			if altDiffers && !alt.reject {
				vt.Violation(tb, c11AliasSig, "an enabled chart's rejecting schema was not enforced\n"+detail(), c)
				return lbls, false
			}
			vt.Violation(tb, "C11:enabled-subchart-schema-not-enforced", detail(), c)
		}
		return lbls, false
	}
	if got.err != nil {
		sig := "C11:install-failed/" + c11ErrClass(got.err)
		if altDiffers && alt.reject && strings.Contains(sig, "schema-of-chart") {
			sig = c11AliasSig
		} else if tw := c11Expected(c11AltTwin(c)); tw.reject && strings.Contains(sig, "schema-of-chart") {
			sig = c11TwinSig
		}
		vt.Violation(tb, sig, fmt.Sprintf("%v\n%s", got.err, detail()), c)
		return lbls, false
	}
	var gotP, wantP []string
	for k := range got.probes {
		gotP = append(gotP, k)
	}
	for k := range ex.probes {
		wantP = append(wantP, k)
	}
	sort.Strings(gotP)
	sort.Strings(wantP)
	if strings.Join(gotP, ",") != strings.Join(wantP, ",") {
		if tw := c11Expected(c11AltTwin(c)); strings.Join(gotP, ",") == c11ProbeKeys(tw.probes) {
			vt.Violation(tb, c11TwinSig, fmt.Sprintf("rendered %v\nexpected %v\n%s", gotP, wantP, detail()), c)
			return lbls, false
		}
		if both := c11Expected(c11AltTwin(c11AltCase(c))); strings.Join(gotP, ",") == c11ProbeKeys(both.probes) {
			// both known deviations at once, in independent subtrees
			vt.Violation(tb, c11AliasSig, fmt.Sprintf("(together with %s)\nrendered %v\nexpected %v\n%s", c11TwinSig, gotP, wantP, detail()), c)
			return lbls, false
		}
		if altDiffers && strings.Join(gotP, ",") == c11ProbeKeys(alt.probes) {
			vt.Violation(tb, c11AliasSig, fmt.Sprintf("rendered %v\nexpected %v\n%s", gotP, wantP, detail()), c)
			return lbls, false
		}
		vt.Violation(tb, "C11:rendered-set-of-charts-differs-from-enablement-rule", fmt.Sprintf("rendered %v\nexpected %v\n%s", gotP, wantP, detail()), c)
		return lbls, false
	}
	// hooks and CRDs come from enabled charts only
	var wantHooks, wantCRDs []string
	for _, p := range wantP {
		base := strings.TrimSuffix(p, "/templates/probe.yaml")
		wantHooks = append(wantHooks, base+"/templates/hook.yaml")
		wantCRDs = append(wantCRDs, base+"/crds/crd.yaml")
	}
	sort.Strings(wantHooks)
	sort.Strings(wantCRDs)
	if strings.Join(got.hooks, ",") != strings.Join(wantHooks, ",") {
		vt.Violation(tb, "C11:hooks-not-exactly-those-of-enabled-charts", fmt.Sprintf("hooks %v\nexpected %v\n%s", got.hooks, wantHooks, detail()), c)
		return lbls, false
	}
	if strings.Join(got.crds, ",") != strings.Join(wantCRDs, ",") {
		vt.Violation(tb, "C11:crds-not-exactly-those-of-enabled-charts", fmt.Sprintf("crds %v\nexpected %v\n%s", got.crds, wantCRDs, detail()), c)
		return lbls, false
	}
	// the same through a real install into the simulated cluster: the CRDs that reach the API server are those of
	// enabled charts only (the dry-run above only shows what --include-crds prints)
	{
		w := world.New("memory")
		res := w.Run(&world.Op{Kind: "install", DisableHooks: true, Values: deepCopyVal(c.User).(map[string]interface{}), ChartFn: func() *chart.Chart { return c.Root.buildFor(true) }})
		if res.Panic != nil || res.Err != nil {
			vt.Violation(tb, "C11:real-install-of-the-crds-only-tree-failed", fmt.Sprintf("panic=%v err=%v\n%s", res.Panic, res.Err, detail()), c)
			return lbls, false
		}
		wantSet := map[string]bool{}
		for _, p := range wantP {
			parts := strings.Split(strings.TrimSuffix(p, "/templates/probe.yaml"), "/")
			wantSet["crd-of-"+c11OrigName(c.Root, parts)] = true
		}
		gotSet := map[string]bool{}
		for _, p := range w.Cluster.Paths() {
			if i := strings.Index(p, "customresourcedefinitions/"); i >= 0 {
				gotSet[p[i+len("customresourcedefinitions/"):]] = true
			}
		}
		if fmt.Sprint(c11Keys(gotSet)) != fmt.Sprint(c11Keys(wantSet)) {
			vt.Violation(tb, "C11:crds-sent-to-the-cluster-are-not-exactly-those-of-enabled-charts", fmt.Sprintf("created %v\nexpected %v\n%s", c11Keys(gotSet), c11Keys(wantSet), detail()), c)
			return lbls, false
		}
		lbls = append(lbls, "real-install-crds-checked")
	}
	// values each chart sees; and, independently of the reference, no foreign non-global sentinel anywhere
	for _, p := range wantP {
		var seen map[string]interface{}
		if err := json.Unmarshal([]byte(got.probes[p]), &seen); err != nil {
			vt.Violation(tb, "C11:harness/probe-unparsable", got.probes[p], c)
			return lbls, false
		}
		if ok, d := sameLeaves(pruneNulls(seen), pruneNulls(ex.probes[p])); !ok {
			vt.Violation(tb, "C11:values-seen-by-chart-differ-from-its-scope", fmt.Sprintf("%s: %s\n saw      %s\n expected %s\n%s", p, d, got.probes[p], canonJSON(ex.probes[p]), detail()), c)
			return lbls, false
		}
	}
	if d := c11Leaks(c, got); d != "" {
		vt.Violation(tb, "C11:foreign-non-global-value-visible-in-subchart", d+"\n"+detail(), c)
		return lbls, false
	}
	// a disabled chart's defaults appear nowhere
	disabled := 0
	var walk func(cc *c11Chart, path string)
	walk = func(cc *c11Chart, path string) {
		for _, d := range cc.Deps {
			dp := path + "/charts/" + d.eff()
			if _, on := ex.probes[dp+"/templates/probe.yaml"]; !on {
				disabled++
				own, _ := d.Defaults["own"].(string)
				for pp, js := range got.probes {
					if own != "" && strings.Contains(js, own) {
						vt.Violation(tb, "C11:default-of-disabled-chart-visible", fmt.Sprintf("%s visible in %s\n%s", own, pp, detail()), c)
						return
					}
				}
				continue
			}
			walk(d, dp)
		}
	}
	walk(c.Root, c.Root.Name)
	// metamorphic: changing one sibling's user values leaves the other siblings' view unchanged
	if len(c.Root.Deps) >= 2 {
		a := c.Root.Deps[0]
		user2 := deepCopyVal(c.User).(map[string]interface{})
		sec, _ := user2[a.eff()].(map[string]interface{})
		if sec == nil {
			sec = map[string]interface{}{}
		}
		sec["metamorphic"] = "CHANGED-ONLY-FOR-" + a.eff()
		user2[a.eff()] = sec
		got2 := c11Run(c, user2)
		if got2.err == nil {
			for p, js := range got.probes {
				if strings.Contains(p, "/charts/"+a.eff()+"/") || p == c.Root.Name+"/templates/probe.yaml" {
					continue
				}
				if got2.probes[p] != js {
					vt.Violation(tb, "C11:sibling-values-changed-what-another-chart-sees", fmt.Sprintf("%s: %s -> %s\n%s", p, js, got2.probes[p], detail()), c)
					return lbls, false
				}
			}
		}
	}
	// metamorphic: a sibling's own default tags (its values.yaml) leave what is rendered outside its subtree unchanged.
	// The tree is first extended so that the question is not vacuous: the sibling gets a dependency of its own (if it has
	// none) and every other sibling gets a dependency that carries the tag and no condition; then the two trees with and
	// without "tags" in that sibling's defaults are compared outside its subtree.
	if len(c.Root.Deps) >= 2 {
		for _, idx := range []int{0, len(c.Root.Deps) - 1} {
			var c2, c3 c11Case
			b, _ := json.Marshal(c)
			if json.Unmarshal(b, &c2) != nil {
				break
			}
			a := c2.Root.Deps[idx]
			shared := false // the same chart declared twice under two aliases is ONE chart: its defaults are shared
			for k, o := range c2.Root.Deps {
				if k != idx && o.Name == a.Name {
					shared = true
				}
			}
			if shared {
				continue
			}
			if len(a.Deps) == 0 {
				a.Deps = append(a.Deps, &c11Chart{Name: "yy", Defaults: map[string]interface{}{"own": "yy"}})
			}
			for k, o := range c2.Root.Deps {
				if k != idx {
					o.Deps = append(o.Deps, &c11Chart{Name: fmt.Sprintf("zz%d", k), Tags: []string{"t1"}, Defaults: map[string]interface{}{"own": "zz"}})
				}
			}
			b2, _ := json.Marshal(c2)
			if json.Unmarshal(b2, &c3) != nil {
				break
			}
			a3 := c3.Root.Deps[idx]
			if a3.Defaults == nil {
				a3.Defaults = map[string]interface{}{}
			}
			a3.Defaults["tags"] = map[string]interface{}{"t1": false, "t2": false}
			got2, got3 := c11Run(c2, c.User), c11Run(c3, c.User)
			if got2.err != nil || got3.err != nil {
				continue
			}
			for p, js := range got2.probes {
				if strings.Contains(p, "/charts/"+a.eff()+"/") || p == c.Root.Name+"/templates/probe.yaml" {
					continue
				}
				if js3, ok := got3.probes[p]; !ok || js3 != js {
					vt.Violation(tb, "C11:default-tags-of-one-subchart-changed-what-is-rendered-outside-its-subtree", fmt.Sprintf("tags added to the defaults of %s; %s: %s -> %s\n%s", a.eff(), p, js, got3.probes[p], detail()), c2)
					return lbls, false
				}
			}
			lbls = append(lbls, "sibling-default-tags-metamorphic")
		}
	}
	lbls = append(lbls, fmt.Sprintf("charts-rendered:%d", len(wantP)), fmt.Sprintf("disabled:%d", min(disabled, 3)))
	depth2 := false
	resolves := false
	var scan func(cc *c11Chart, depth int)
	scan = func(cc *c11Chart, depth int) {
		for _, d := range cc.Deps {
			if depth >= 1 {
				depth2 = true
			}
			if d.Cond != "" || len(d.Tags) > 0 {
				resolves = true
			}
			scan(d, depth+1)
		}
	}
	scan(c.Root, 0)
	if depth2 {
		lbls = append(lbls, "depth>=2")
	}
	return lbls, (len(c.Root.Deps) >= 2 || depth2) && resolves
}

func c11ErrClass(err error) string {
	s := err.Error()
	switch {
	case strings.Contains(s, "values don't meet the specifications of the schema"):
		return "schema-of-chart-that-should-be-disabled-was-enforced"
	case strings.Contains(s, "parse error"), strings.Contains(s, "execution error"):
		return "template"
	}
	return "other"
}

// c11Leaks looks for a non-global sentinel of one chart inside the probe of a chart that must not see it.
func c11Leaks(c c11Case, got c11Render) string {
	// owner path -> sentinels that belong to exactly that chart (its own defaults outside global / subchart sections)
	for p, js := range got.probes {
		// a chart may see: sentinels passed down its own path, its own defaults, and globals
		idx := 0
		for {
			i := strings.Index(js[idx:], "SENT<")
			if i < 0 {
				break
			}
			j := strings.Index(js[idx+i:], ">")
			s := js[idx+i : idx+i+j+1]
			idx = idx + i + j
			owner := s[len("SENT<"):strings.Index(s, "#")]
			if !c11MaySee(p, owner, c) {
				return fmt.Sprintf("%s sees %s", p, s)
			}
		}
	}
	return ""
}

// c11MaySee: sentinel owners are "root/s1/g1" (own default of that chart), "root/s1->al" (parent's section for a child)
// or "user"/"user->eff". A chart at template path P (root/charts/x/charts/y) may see its own defaults and whatever an
// ancestor or the user put into a section on the way down to it.
func c11MaySee(probePath, owner string, c c11Case) bool {
	base := strings.TrimSuffix(probePath, "/templates/probe.yaml")
	effPath := strings.Split(strings.ReplaceAll(base, "/charts/", "/"), "/") // [root x y] by effective names
	if owner == "user" {
		return len(effPath) == 1
	}
	if strings.HasPrefix(owner, "user->") {
		// user section for a root dependency: visible to root and to everything below that dependency
		e := strings.TrimPrefix(owner, "user->")
		return len(effPath) == 1 || effPath[1] == e
	}
	// resolve real-name path of the probe's chart and of all its ancestors
	type node struct{ realPath string }
	var chain []string // label paths by REAL names, for root, root/x, root/x/y
	cur := c.Root
	label := "root"
	chain = append(chain, label)
	for _, e := range effPath[1:] {
		var next *c11Chart
		for _, d := range cur.Deps {
			if d.eff() == e {
				next = d
			}
		}
		if next == nil {
			return true // cannot resolve: do not judge
		}
		label = label + "/" + next.Name
		chain = append(chain, label)
		cur = next
	}
	if i := strings.Index(owner, "->"); i >= 0 {
		// parent's section for child: owner = "<parentLabel>-><childEff>"; visible to the parent, and below that child
		parent, child := owner[:i], owner[i+2:]
		for k, l := range chain {
			if l == parent {
				if k == len(chain)-1 {
					return true
				}
				return effPath[k+1] == child
			}
		}
		return false
	}
	// own default of chart with label `owner`: visible to that chart and to its ancestors (inside the section), never to
	// siblings or descendants
	for _, l := range chain {
		if l == owner {
			return true
		}
	}
	// ancestors see a descendant's defaults under its section: owner must extend the probe chart's label
	return strings.HasPrefix(owner, chain[len(chain)-1]+"/")
}

func c11Prop(t *rapid.T) {
	c := c11GenCase(t)
	lbls, nontrivial := c11Judge(t, c)
	evid.Case(lbls, jsonOf(c), nontrivial, c)
}

func TestC11(t *testing.T) {
	evid.Extra("rule", "C11: dependency trees up to depth three (root -> s1,s2,s3 -> g1,g2 -> h1) with aliases, the same chart declared twice under two aliases, condition lists (paths missing, non-boolean, boolean, several paths, a switch among the globals set at the top or inside a subchart's section) and tags (one of the names contains a dot) in chart defaults and user values, own 'enabled'/'flag' defaults in subcharts, parent sections, global tables at several levels, and a rejecting values.schema.json on random dependencies; every chart carries a probe template (toJson .Values), a hook and a crds/ file; every non-global leaf is a unique sentinel. Rendered through a client-only dry-run install. Oracle: the set of rendered probes, hooks and CRDs equals the set of enabled charts computed by an independent implementation of the documented rule (first condition path resolving to a boolean in the parent's effective values decides, else disabled iff some tag false and none true); an enabled chart's rejecting schema rejects, a disabled one's does not; each chart's probe equals its reference scope leaf by leaf; no foreign non-global sentinel appears in any probe; no default of a disabled chart appears anywhere; changing one sibling's user section leaves every other chart's probe unchanged. Non-trivial = at least two siblings or depth >= 2, with a condition or tag on some dependency; distinct by (tree, user values).")
	evid.Extra("assumptions", []string{"tags are read from the top-level tags table (where the documentation says they must be set)", "import-values is not generated here (C20 covers its malformed forms)"})
	rapid.Check(t, c11Prop)
}

func TestC11_Replay(t *testing.T) {
	p := os.Getenv("VERIF_REPLAY_JSON")
	if p == "" {
		t.Skip("no VERIF_REPLAY_JSON")
	}
	d, err := loadReplayDoc(p)
	if err != nil {
		t.Fatal(err)
	}
	var c c11Case
	if err := json.Unmarshal(d.Case, &c); err != nil {
		t.Fatal(err)
	}
	c11Judge(t, c)
}

func TestC11_Known(t *testing.T) {
	for _, e := range knownEntries("C11") {
		d, err := loadReplayDoc(e.Replay)
		var c c11Case
		if err == nil {
			err = json.Unmarshal(d.Case, &c)
		}
		if err != nil {
			fmt.Printf("KNOWN-GONE sig=%s :: replay unreadable: %v\n", e.Signature, err)
			continue
		}
		vt.CheckKnown(e.Signature, e.What, func(tb vt.TB) { c11Judge(tb, c) })
	}
}

// TestC11Table enumerates the complete truth table of the enablement rule for one dependency (depth 1): condition form x
// where and how the condition target is set x flag x declared tags x tag values x source of tags. Exhaustive for that
// finite space (sharded by index).
func TestC11Table(t *testing.T) {
	evid.Extra("rule", "C11 (truth table): one dependency s1 of root, with or without alias; condition in {none, s1.enabled, missing.path, 's1.enabled,flag', 'flag,s1.enabled'}; s1.enabled in {absent, true, false, non-bool} set in the subchart's own defaults, the parent's section or user values; flag in {absent, true, false}; declared tags in {none, [t1], [t1 t2]}; tag values t1, t2 in {absent, true, false, non-bool} set in root defaults or user values: the full product, each case judged like the generated ones.")
	shard, shards := 0, 1
	if v := os.Getenv("VERIF_SHARDS"); v != "" {
		fmt.Sscan(v, &shards)
		fmt.Sscan(os.Getenv("VERIF_SHARD"), &shard)
	}
	vals := []interface{}{nil, true, false, "str"}
	idx := 0
	for _, alias := range []string{"", "al"} {
		for _, cond := range []string{"", "E.enabled", "missing.path", "E.enabled,flag", "flag,E.enabled"} {
			for _, en := range vals {
				for _, where := range []string{"own", "parent", "user"} {
					if en == nil && where != "own" {
						continue
					}
					for _, flag := range vals[:3] {
						for _, tags := range [][]string{nil, {"t1"}, {"t1", "t2"}} {
							for _, t1 := range vals {
								for _, t2 := range vals {
									if len(tags) < 2 && t2 != nil {
										continue
									}
									if len(tags) < 1 && t1 != nil {
										continue
									}
									for _, tagSrc := range []string{"defaults", "user"} {
										if t1 == nil && t2 == nil && tagSrc == "user" {
											continue
										}
										idx++
										if idx%shards != shard {
											continue
										}
										eff := "s1"
										if alias != "" {
											eff = alias
										}
										dep := &c11Chart{Name: "s1", Alias: alias, Cond: strings.ReplaceAll(cond, "E", eff), Tags: tags, Defaults: map[string]interface{}{"own": "SENT<root/s1#2>"}}
										root := &c11Chart{Name: "root", Defaults: map[string]interface{}{"own": "SENT<root#1>"}, Deps: []*c11Chart{dep}}
										user := map[string]interface{}{}
										if en != nil {
											switch where {
											case "own":
												dep.Defaults["enabled"] = en
											case "parent":
												root.Defaults[eff] = map[string]interface{}{"enabled": en}
											case "user":
												user[eff] = map[string]interface{}{"enabled": en}
											}
										}
										if flag != nil {
											user["flag"] = flag
										}
										tg := map[string]interface{}{}
										if t1 != nil {
											tg["t1"] = t1
										}
										if t2 != nil {
											tg["t2"] = t2
										}
										if len(tg) > 0 {
											if tagSrc == "user" {
												user["tags"] = tg
											} else {
												root.Defaults["tags"] = tg
											}
										}
										c := c11Case{Root: root, User: user}
										lbls, _ := c11Judge(t, c)
										evid.Case(append(lbls, "truth-table"), jsonOf(c), cond != "" || len(tags) > 0, c)
									}
								}
							}
						}
					}
				}
			}
		}
	}
	evid.AddExtraInt("truth_table_cases", idx/shards)
}
