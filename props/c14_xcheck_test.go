package props

// Cross-check of C14's reference schema evaluator against an independent implementation (python jsonschema, Draft 7):
// TestC14RefDump writes generated (schema, values, reference verdict) triples; tools/c14_crosscheck.py re-evaluates them.
// A development aid (run by tools/c14_crosscheck.sh), not one of the registered checks.

import (
	"encoding/json"
	"os"
	"testing"

	"pgregory.net/rapid"
)

func TestC14RefDump(t *testing.T) {
	out := os.Getenv("VERIF_C14_DUMP")
	if out == "" {
		t.Skip("VERIF_C14_DUMP not set")
	}
	f, err := os.Create(out)
	if err != nil {
		t.Fatal(err)
	}
	defer f.Close()
	enc := json.NewEncoder(f)
	rapid.Check(t, func(t *rapid.T) {
		s := c14GenSchema(t, "s")
		v := c14Normalize(c14GenValues(t, "v", rapid.SampledFrom([]int{1, 3, 6}).Draw(t, "bias")))
		// nulls that stay in the final values (see c14NullRule) are validated as JSON null
		for _, k := range []string{"name", "replicas", "debug", "ports", "cfg", "extra"} {
			if rapid.IntRange(0, 7).Draw(t, "null-"+k) == 0 {
				v[k] = nil
			}
		}
		if cfg, ok := v["cfg"].(map[string]interface{}); ok && rapid.IntRange(0, 3).Draw(t, "null-cfg.mode") == 0 {
			cfg["mode"] = nil
		}
		_ = enc.Encode(map[string]interface{}{"schema": s, "values": v, "valid": c14Valid(s, v)})
	})
}
