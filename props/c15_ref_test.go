package props

// C15 reference side: an ignore-rule matcher written from pkg/ignore/doc.go, the canonical comparison form of a
// chart, the comparison itself, and the harness's own tar reader / writer. Nothing in this file calls the code under
// test (pkg/chart/v2/util Save/SaveDir, pkg/chart/v2/loader, pkg/ignore, pkg/action).

import (
	"archive/tar"
	"bytes"
	"compress/gzip"
	"encoding/json"
	"fmt"
	"io"
	"os"
	"path/filepath"
	"regexp"
	"sort"
	"strconv"
	"strings"
	"time"
	"unicode"

	chart "helm.sh/helm/v4/pkg/chart/v2"
)

// ---------------------------------------------------------------------------------------------------------------
// shell globs as documented for path/filepath.Match: '*' any sequence of non-separator characters, '?' one
// non-separator character, '[' ['^'] ranges ']' a character class, '\c' the character c.

func c15Glob(pat, name string) bool { return c15GlobR([]rune(pat), []rune(name)) }

func c15GlobR(p, s []rune) bool {
	for len(p) > 0 {
		switch p[0] {
		case '*':
			for len(p) > 0 && p[0] == '*' {
				p = p[1:]
			}
			for i := 0; ; i++ {
				if c15GlobR(p, s[i:]) {
					return true
				}
				if i >= len(s) || s[i] == '/' {
					return false
				}
			}
		case '?':
			if len(s) == 0 || s[0] == '/' {
				return false
			}
			p, s = p[1:], s[1:]
		case '[':
			if len(s) == 0 || s[0] == '/' {
				return false
			}
			i := 1
			neg := false
			if i < len(p) && p[i] == '^' {
				neg = true
				i++
			}
			hit, closed, first := false, false, true
			for i < len(p) {
				if p[i] == ']' && !first {
					closed = true
					i++
					break
				}
				first = false
				lo := p[i]
				if lo == '\\' && i+1 < len(p) {
					i++
					lo = p[i]
				}
				hi := lo
				i++
				if i+1 < len(p) && p[i] == '-' && p[i+1] != ']' {
					hi = p[i+1]
					if hi == '\\' && i+2 < len(p) {
						hi = p[i+2]
						i++
					}
					i += 2
				}
				if lo <= s[0] && s[0] <= hi {
					hit = true
				}
			}
			if !closed || hit == neg {
				return false
			}
			p, s = p[i:], s[1:]
		case '\\':
			if len(p) < 2 || len(s) == 0 || p[1] != s[0] {
				return false
			}
			p, s = p[2:], s[1:]
		default:
			if len(s) == 0 || p[0] != s[0] {
				return false
			}
			p, s = p[1:], s[1:]
		}
	}
	return len(s) == 0
}

// c15Rule is one line of an ignore file, read as pkg/ignore/doc.go describes it.
type c15Rule struct {
	raw     string
	negate  bool // "If a pattern begins with a leading !, the match will be negated."
	dirOnly bool // "If the pattern ends with a trailing /, only directories will match"
	rooted  bool // "If a pattern begins with a leading /, only paths relatively rooted will match."
	slash   bool // "If a pattern contains no slashes, file basenames are tested (not paths)"
	pat     string
}

func c15ParseIgnore(text string) []c15Rule {
	var out []c15Rule
	for _, line := range strings.Split(text, "\n") {
		line = strings.TrimSpace(line) // "Leading and trailing spaces are always ignored" (this also drops a CR)
		if line == "" || strings.HasPrefix(line, "#") {
			continue
		}
		r := c15Rule{raw: line}
		if strings.HasPrefix(line, "!") {
			r.negate = true
			line = line[1:]
		}
		if strings.HasSuffix(line, "/") {
			r.dirOnly = true
			line = strings.TrimSuffix(line, "/")
		}
		if strings.HasPrefix(line, "/") {
			r.rooted = true
			line = strings.TrimPrefix(line, "/")
		}
		r.slash = strings.Contains(line, "/")
		r.pat = line
		out = append(out, r)
	}
	return out
}

func (r c15Rule) matches(path string, isDir bool) bool {
	m := false
	if !r.dirOnly || isDir {
		target := path
		if !r.rooted && !r.slash {
			target = path[strings.LastIndex(path, "/")+1:]
		}
		m = c15Glob(r.pat, target)
	}
	return m != r.negate
}

// c15DefaultRules is the built-in rule of directory loads ("Ignore all dotfiles in templates/").
var c15DefaultRules = c15ParseIgnore("templates/.?*")

// c15Ignored says whether the regular file at path (slash separated, relative to the chart root) is excluded:
// it is when a rule matches the file itself or one of the directories above it (an ignored directory is skipped
// with everything in it). It also returns the raw text of the rules that fired.
func c15Ignored(rules []c15Rule, path string) (bool, []string) {
	parts := strings.Split(path, "/")
	for i := 1; i <= len(parts); i++ {
		p := strings.Join(parts[:i], "/")
		isDir := i < len(parts)
		var fired []string
		for _, r := range rules {
			if r.matches(p, isDir) {
				fired = append(fired, r.raw)
			}
		}
		if len(fired) > 0 {
			return true, fired
		}
	}
	return false, nil
}

// ---------------------------------------------------------------------------------------------------------------
// metadata as the documentation describes it after validation: "normalize spaces and removes non-printable characters"

func c15Sanitize(s string) string {
	var b strings.Builder
	for _, r := range s {
		switch {
		case unicode.IsSpace(r):
			b.WriteByte(' ')
		case unicode.IsPrint(r):
			b.WriteRune(r)
		}
	}
	return b.String()
}

// c15ExpectMeta returns the canonical text of the metadata a chart declared as md is expected to carry.
func c15ExpectMeta(md *chart.Metadata) string {
	b, _ := json.Marshal(md)
	var c chart.Metadata
	_ = json.Unmarshal(b, &c)
	if c.APIVersion == "" {
		c.APIVersion = chart.APIVersionV1 // documented: a chart without apiVersion is a v1 chart
	}
	c.Name, c.Description, c.Home, c.Icon = c15Sanitize(c.Name), c15Sanitize(c.Description), c15Sanitize(c.Home), c15Sanitize(c.Icon)
	c.Condition, c.Tags, c.AppVersion, c.KubeVersion = c15Sanitize(c.Condition), c15Sanitize(c.Tags), c15Sanitize(c.AppVersion), c15Sanitize(c.KubeVersion)
	for i := range c.Sources {
		c.Sources[i] = c15Sanitize(c.Sources[i])
	}
	for i := range c.Keywords {
		c.Keywords[i] = c15Sanitize(c.Keywords[i])
	}
	for _, m := range c.Maintainers {
		m.Name, m.Email, m.URL = c15Sanitize(m.Name), c15Sanitize(m.Email), c15Sanitize(m.URL)
	}
	for _, d := range c.Dependencies {
		d.Name, d.Version, d.Repository, d.Condition = c15Sanitize(d.Name), c15Sanitize(d.Version), c15Sanitize(d.Repository), c15Sanitize(d.Condition)
		for i := range d.Tags {
			d.Tags[i] = c15Sanitize(d.Tags[i])
		}
	}
	return c15MetaText(&c)
}

// c15MetaText is the comparison form of metadata: its JSON text (fixed field order, map keys sorted).
func c15MetaText(md *chart.Metadata) string {
	if md == nil {
		return "<nil>"
	}
	b, err := json.Marshal(md)
	if err != nil {
		return "<unencodable: " + err.Error() + ">"
	}
	return string(b) // every field is omitempty: unset, empty list and empty map give the same text
}

func c15LockText(l *chart.Lock) string {
	if l == nil {
		return "<none>"
	}
	deps, _ := json.Marshal(l.Dependencies)
	if len(l.Dependencies) == 0 {
		deps = []byte("[]")
	}
	return fmt.Sprintf("generated=%s digest=%q dependencies=%s", l.Generated.UTC().Format(time.RFC3339Nano), l.Digest, deps)
}

// ---------------------------------------------------------------------------------------------------------------
// the comparison form of a chart

type c15Snap struct {
	Name      string
	Version   string
	API       string
	Meta      string
	HasValues bool
	RawValues string
	Values    string // canonical JSON of the parsed values; "" = not compared (expectation unknown)
	HasSchema bool
	Schema    string
	Lock      string // c15LockText
	Templates map[string]string
	Files     map[string]string
	Deps      map[string]*c15Snap
	Dups      []string // names that occurred twice (files, templates or dependencies)
}

func c15SnapOf(c *chart.Chart) *c15Snap {
	s := &c15Snap{Templates: map[string]string{}, Files: map[string]string{}, Deps: map[string]*c15Snap{}}
	s.Name = c.Name()
	if c.Metadata != nil {
		s.API = c.Metadata.APIVersion
		s.Version = c.Metadata.Version
	}
	s.Meta = c15MetaText(c.Metadata)
	for _, f := range c.Raw {
		if f.Name == "values.yaml" {
			s.HasValues = true
			s.RawValues = string(f.Data)
		}
	}
	vb, err := json.Marshal(c.Values)
	if err != nil {
		vb = []byte("<unencodable: " + err.Error() + ">")
	}
	if c.Values == nil || len(c.Values) == 0 {
		vb = []byte("{}") // no values and an empty table are the same thing to every consumer
	}
	s.Values = string(vb)
	if c.Schema != nil {
		s.HasSchema = true
		s.Schema = string(c.Schema)
	}
	s.Lock = c15LockText(c.Lock)
	for _, f := range c.Templates {
		if _, dup := s.Templates[f.Name]; dup {
			s.Dups = append(s.Dups, "template "+f.Name)
		}
		s.Templates[f.Name] = string(f.Data)
	}
	for _, f := range c.Files {
		if _, dup := s.Files[f.Name]; dup {
			s.Dups = append(s.Dups, "file "+f.Name)
		}
		s.Files[f.Name] = string(f.Data)
	}
	for _, d := range c.Dependencies() {
		if _, dup := s.Deps[d.Name()]; dup {
			s.Dups = append(s.Dups, "dependency "+d.Name())
		}
		s.Deps[d.Name()] = c15SnapOf(d)
	}
	sort.Strings(s.Dups)
	return s
}

// c15Text renders a snapshot completely (used to detect that saving modified the chart in memory).
func (s *c15Snap) c15Text() string {
	b, _ := json.Marshal(s)
	return string(b)
}

// c15FilterRoot returns a copy of s without the root-level templates and files that the rules exclude
// (ignore rules are evaluated against paths relative to the chart root; subcharts that are loaded from an archive
// inside charts/ are not filtered).
func c15FilterRoot(s *c15Snap, rules []c15Rule) *c15Snap {
	cp := *s
	cp.Templates, cp.Files = map[string]string{}, map[string]string{}
	for n, d := range s.Templates {
		if ig, _ := c15Ignored(rules, n); !ig {
			cp.Templates[n] = d
		}
	}
	for n, d := range s.Files {
		if ig, _ := c15Ignored(rules, n); !ig {
			cp.Files[n] = d
		}
	}
	return &cp
}

type c15Diff struct {
	Sig    string
	Detail string
	Rank   int // 0 = unexplained; 1, 2 = differences whose shape names a specific cause (reported after the others)
}

const c15BOM = "\xef\xbb\xbf"

func c15Q(s string) string {
	if len(s) > 160 {
		return strconv.Quote(s[:160]) + fmt.Sprintf("...(%d bytes)", len(s))
	}
	return strconv.Quote(s)
}

func c15SortedKeys(m map[string]string) []string {
	ks := make([]string, 0, len(m))
	for k := range m {
		ks = append(ks, k)
	}
	sort.Strings(ks)
	return ks
}

// c15Compare lists the differences between the expected and the obtained chart. leg names the route the obtained
// chart took (it becomes part of every signature); at is the position in the dependency tree.
func c15Compare(want, got *c15Snap, leg, at string, out *[]c15Diff) {
	// unexplained differences are named by what differs and the leg; differences whose shape identifies a specific
	// cause (rank 1) get one signature for that cause, whatever leg showed it
	add := func(rank int, what, class, detail string) {
		sig := "C15:" + what + "/" + leg
		if class != "" {
			sig += "/" + class
		}
		if rank == 1 {
			sig = "C15:" + what + "/" + class
		}
		*out = append(*out, c15Diff{Sig: sig, Detail: "[" + leg + "] at " + at + ": " + detail, Rank: rank})
	}
	content := func(kind, name, w, g string) {
		if w == g {
			return
		}
		if strings.HasPrefix(w, c15BOM) && w[len(c15BOM):] == g {
			add(1, "content-differs", "leading-utf8-bom-removed-on-load", fmt.Sprintf("%s %q: expected %s, got the same without its first three bytes EF BB BF", kind, name, c15Q(w)))
			return
		}
		add(0, kind+"-content-differs", "", fmt.Sprintf("%q: expected %s, got %s", name, c15Q(w), c15Q(g)))
	}
	if len(got.Dups) > 0 {
		add(0, "duplicate-entries", "", strings.Join(got.Dups, ", "))
	}
	if want.Meta != got.Meta {
		if strings.Contains(want.Meta, "\u0085") && !strings.Contains(got.Meta, "\u0085") {
			// U+0085 (NEXT LINE) is a line break to a YAML 1.1 reader; the only strings that can still hold it after
			// validation are the unsanitised ones (annotations, import-values)
			add(1, "string-differs", "U+0085-next-line-folded-when-written", "metadata: "+fmt.Sprintf("expected %s, got %s", want.Meta, got.Meta))
		} else {
			add(0, "metadata-differs", "", fmt.Sprintf("expected %s, got %s", want.Meta, got.Meta))
		}
	}
	switch {
	case want.HasValues && !got.HasValues:
		add(0, "raw-values-lost", "", "expected "+c15Q(want.RawValues))
	case !want.HasValues && got.HasValues:
		add(0, "raw-values-appeared", "", "got "+c15Q(got.RawValues))
	case want.RawValues != got.RawValues:
		content("raw-values", "values.yaml", want.RawValues, got.RawValues)
	}
	if want.Values != "" && got.Values != "" && want.Values != got.Values {
		add(0, "parsed-values-differ", "", fmt.Sprintf("expected %s, got %s", c15Q(want.Values), c15Q(got.Values)))
	}
	switch {
	case want.HasSchema && !got.HasSchema:
		add(0, "schema-lost", "", "expected "+c15Q(want.Schema))
	case !want.HasSchema && got.HasSchema:
		add(0, "schema-appeared", "", "got "+c15Q(got.Schema))
	default:
		content("schema", "values.schema.json", want.Schema, got.Schema)
	}
	if want.Lock != got.Lock {
		switch {
		case got.Lock == "<none>":
			rank := 0
			if leg == "save-dir" {
				rank = 2
			}
			add(rank, "lock-lost", "apiVersion-"+want.API, "expected "+want.Lock)
		case want.Lock == "<none>":
			add(0, "lock-appeared", "", "got "+got.Lock)
		case strings.Contains(want.Lock, "\u0085") && !strings.Contains(got.Lock, "\u0085"):
			add(1, "string-differs", "U+0085-next-line-folded-when-written", "lock: "+fmt.Sprintf("expected %s, got %s", want.Lock, got.Lock))
		default:
			add(0, "lock-differs", "", fmt.Sprintf("expected %s, got %s", want.Lock, got.Lock))
		}
	}
	for _, kv := range []struct {
		kind string
		w, g map[string]string
	}{{"template", want.Templates, got.Templates}, {"file", want.Files, got.Files}} {
		for _, n := range c15SortedKeys(kv.w) {
			g, ok := kv.g[n]
			if !ok {
				add(0, kv.kind+"-lost", "", fmt.Sprintf("%q (%d bytes) is missing; present: %q", n, len(kv.w[n]), c15SortedKeys(kv.g)))
				continue
			}
			content(kv.kind, n, kv.w[n], g)
		}
		for _, n := range c15SortedKeys(kv.g) {
			if _, ok := kv.w[n]; !ok {
				add(0, kv.kind+"-appeared", "", fmt.Sprintf("%q = %s was not expected", n, c15Q(kv.g[n])))
			}
		}
	}
	var dn []string
	for n := range want.Deps {
		dn = append(dn, n)
	}
	sort.Strings(dn)
	for _, n := range dn {
		g, ok := got.Deps[n]
		if !ok {
			class := ""
			if strings.HasPrefix(n, "_") || strings.HasPrefix(n, ".") {
				class = "dependency-name-starts-with-underscore-or-dot"
			}
			var have []string
			for k := range got.Deps {
				have = append(have, k)
			}
			sort.Strings(have)
			add(0, "dependency-lost", class, fmt.Sprintf("subchart %q is missing; present: %q", n, have))
			continue
		}
		c15Compare(want.Deps[n], g, leg, at+"/"+n, out)
	}
	var gn []string
	for n := range got.Deps {
		if _, ok := want.Deps[n]; !ok {
			gn = append(gn, n)
		}
	}
	sort.Strings(gn)
	for _, n := range gn {
		add(0, "dependency-appeared", "", fmt.Sprintf("subchart %q was not expected", n))
	}
}

// ---------------------------------------------------------------------------------------------------------------
// harness tar writer / reader and directory helpers

type c15File struct {
	Name string `json:"name"`
	Data []byte `json:"data"`
	// Preview is only there to make replay files readable
	Preview string `json:"preview,omitempty"`
}

func c15Tgz(prefix string, files []c15File) []byte {
	var buf bytes.Buffer
	zw := gzip.NewWriter(&buf)
	tw := tar.NewWriter(zw)
	for _, f := range files {
		h := &tar.Header{Name: prefix + "/" + f.Name, Mode: 0o644, Size: int64(len(f.Data)), Typeflag: tar.TypeReg}
		if err := tw.WriteHeader(h); err != nil {
			panic("c15 harness tar writer: " + err.Error())
		}
		if _, err := tw.Write(f.Data); err != nil {
			panic("c15 harness tar writer: " + err.Error())
		}
	}
	tw.Close()
	zw.Close()
	return buf.Bytes()
}

// c15ReadTgz lists the regular-file entries of a gzipped tar (names as stored).
func c15ReadTgz(path string) ([]c15File, error) {
	b, err := os.ReadFile(path)
	if err != nil {
		return nil, err
	}
	return c15ReadTgzBytes(b)
}

func c15ReadTgzBytes(b []byte) ([]c15File, error) {
	zr, err := gzip.NewReader(bytes.NewReader(b))
	if err != nil {
		return nil, err
	}
	tr := tar.NewReader(zr)
	var out []c15File
	for {
		h, err := tr.Next()
		if err == io.EOF {
			return out, nil
		}
		if err != nil {
			return out, err
		}
		if h.Typeflag != tar.TypeReg {
			continue
		}
		d, err := io.ReadAll(tr)
		if err != nil {
			return out, err
		}
		out = append(out, c15File{Name: h.Name, Data: d})
	}
}

func c15WriteTree(root string, files []c15File) error {
	for _, f := range files {
		p := filepath.Join(root, filepath.FromSlash(f.Name))
		if err := os.MkdirAll(filepath.Dir(p), 0o755); err != nil {
			return err
		}
		if err := os.WriteFile(p, f.Data, 0o644); err != nil {
			return err
		}
	}
	return nil
}

// c15Listing describes everything below dir (names, kinds, sizes, content digests are not needed: sizes + names suffice
// to see that something was created, removed or rewritten with another length).
func c15Listing(dir string) string {
	var lines []string
	_ = filepath.Walk(dir, func(p string, fi os.FileInfo, err error) error {
		if err != nil {
			lines = append(lines, "ERR "+p)
			return nil
		}
		rel, _ := filepath.Rel(dir, p)
		if fi.IsDir() {
			lines = append(lines, "d "+rel)
		} else {
			lines = append(lines, fmt.Sprintf("f %s %d", rel, fi.Size()))
		}
		return nil
	})
	sort.Strings(lines)
	return strings.Join(lines, "\n")
}

// ---------------------------------------------------------------------------------------------------------------
// version grammar. c15StrictSemver is the regular expression published with the SemVer 2 specification (a version
// matching it is valid under every reading); c15LenientVersion is the most permissive reading one can give
// "a version number" (optional v, one to three numeric fields, optional pre-release and build made of the SemVer
// identifier alphabet): a string that does not even match this one is invalid under every reading.
var (
	c15StrictSemver   = regexp.MustCompile(`^(0|[1-9]\d*)\.(0|[1-9]\d*)\.(0|[1-9]\d*)(?:-((?:0|[1-9]\d*|\d*[a-zA-Z-][0-9a-zA-Z-]*)(?:\.(?:0|[1-9]\d*|\d*[a-zA-Z-][0-9a-zA-Z-]*))*))?(?:\+([0-9a-zA-Z-]+(?:\.[0-9a-zA-Z-]+)*))?$`)
	c15LenientVersion = regexp.MustCompile(`^v?\d+(\.\d+)?(\.\d+)?(-[0-9A-Za-z-]+(\.[0-9A-Za-z-]+)*)?(\+[0-9A-Za-z-]+(\.[0-9A-Za-z-]+)*)?$`)
)

// c15VersionClass: "valid", "invalid" or "unclear".
func c15VersionClass(v string) string {
	switch {
	case c15StrictSemver.MatchString(v):
		return "valid"
	case !c15LenientVersion.MatchString(v):
		return "invalid"
	}
	return "unclear"
}

// c15NameClass: a chart name is invalid when it is empty or contains a path separator (it names the directory /
// archive the chart is written to); "." and ".." are left unjudged.
func c15NameClass(n string) string {
	switch {
	case n == "" || strings.Contains(n, "/"):
		return "invalid"
	case n == "." || n == "..":
		return "unclear"
	}
	return "valid"
}

// ---------------------------------------------------------------------------------------------------------------
// what a saved chart must hold on disk, byte for byte (the re-encoded Chart.yaml / Chart.lock are only located)

// c15WantBytes lists the entries below prefix that carry file content unchanged: name -> bytes.
func c15WantBytes(want *c15Snap, prefix string, out map[string]string) {
	if want.HasValues {
		out[prefix+"values.yaml"] = want.RawValues
	}
	if want.HasSchema {
		out[prefix+"values.schema.json"] = want.Schema
	}
	for n, d := range want.Templates {
		out[prefix+n] = d
	}
	for n, d := range want.Files {
		out[prefix+n] = d
	}
}

// c15WrittenDiffs compares the entries found (name -> bytes) with the expected ones. reencoded lists the names that
// must exist but whose bytes are not compared; optional lists names that may exist.
func c15WrittenDiffs(leg string, want map[string]string, reencoded, optional map[string]bool, got map[string]string, out *[]c15Diff) {
	for _, n := range c15SortedKeys(want) {
		g, ok := got[n]
		switch {
		case !ok:
			*out = append(*out, c15Diff{Sig: "C15:written-entry-missing/" + leg, Detail: fmt.Sprintf("[%s] %q (%d bytes) was not written; written: %q", leg, n, len(want[n]), c15SortedKeys(got))})
		case g != want[n]:
			*out = append(*out, c15Diff{Sig: "C15:written-bytes-differ/" + leg, Detail: fmt.Sprintf("[%s] %q: chart holds %s, written %s", leg, n, c15Q(want[n]), c15Q(g))})
		}
	}
	var rn []string
	for n := range reencoded {
		rn = append(rn, n)
	}
	sort.Strings(rn)
	for _, n := range rn {
		if _, ok := got[n]; !ok {
			*out = append(*out, c15Diff{Sig: "C15:written-entry-missing/" + leg, Detail: fmt.Sprintf("[%s] %q was not written; written: %q", leg, n, c15SortedKeys(got))})
		}
	}
	for _, n := range c15SortedKeys(got) {
		if _, ok := want[n]; ok || reencoded[n] || optional[n] {
			continue
		}
		*out = append(*out, c15Diff{Sig: "C15:written-entry-unexpected/" + leg, Detail: fmt.Sprintf("[%s] %q = %s", leg, n, c15Q(got[n]))})
	}
}

// c15ArchiveWant: the entries of the archive Save must write for want (root directory = chart name; subcharts unpacked
// below charts/<their name>/).
func c15ArchiveWant(want *c15Snap, prefix string, bytesOut map[string]string, reenc map[string]bool) {
	c15WantBytes(want, prefix, bytesOut)
	reenc[prefix+"Chart.yaml"] = true
	if want.Lock != "<none>" && want.API == chart.APIVersionV2 {
		reenc[prefix+"Chart.lock"] = true
	}
	for _, n := range c15SortedDeps(want) {
		c15ArchiveWant(want.Deps[n], prefix+"charts/"+n+"/", bytesOut, reenc)
	}
}

func c15SortedDeps(s *c15Snap) []string {
	var dn []string
	for n := range s.Deps {
		dn = append(dn, n)
	}
	sort.Strings(dn)
	return dn
}

// c15ReadTree reads every regular file below root: slash-separated relative name -> bytes.
func c15ReadTree(root string) (map[string]string, error) {
	out := map[string]string{}
	err := filepath.Walk(root, func(p string, fi os.FileInfo, err error) error {
		if err != nil {
			return err
		}
		if fi.IsDir() {
			return nil
		}
		rel, _ := filepath.Rel(root, p)
		b, err := os.ReadFile(p)
		if err != nil {
			return err
		}
		out[filepath.ToSlash(rel)] = string(b)
		return nil
	})
	return out, err
}
