package props

// C06 (command level): the flag wiring of `helm template` / `helm install --dry-run` decides whether rendering is
// client-only. The real command tree (pkg/cmd) is run in-process against a recording stand-in for the API server.

import (
	"bytes"
	"encoding/json"
	"fmt"
	"net/http"
	"net/http/httptest"
	"os"
	"path/filepath"
	"sort"
	"strings"
	"sync"
	"testing"

	"pgregory.net/rapid"

	helmcmd "helm.sh/helm/v4/pkg/cmd"

	"verif/internal/evid"
	"verif/internal/vt"
)

type c06CLICase struct {
	Cmd      string   `json:"cmd"`  // template | install
	Args     []string `json:"args"` // flags after the chart path
	Lookup   bool     `json:"lookup"`
	CRDs     bool     `json:"crds"`
	Hook     bool     `json:"hook"`
	DryRun   string   `json:"dryRun"` // absent | bare | client | server | true | false | none
	Validate bool     `json:"validate"`
}

type c06Recorder struct {
	mu   sync.Mutex
	reqs []string
}

func (r *c06Recorder) ServeHTTP(w http.ResponseWriter, q *http.Request) {
	r.mu.Lock()
	r.reqs = append(r.reqs, q.Method+" "+q.URL.Path)
	r.mu.Unlock()
	w.Header().Set("Content-Type", "application/json")
	switch q.URL.Path {
	case "/version":
		fmt.Fprint(w, `{"major":"1","minor":"32","gitVersion":"v1.32.0"}`)
	case "/api":
		fmt.Fprint(w, `{"kind":"APIVersions","versions":["v1"]}`)
	case "/apis":
		fmt.Fprint(w, `{"kind":"APIGroupList","apiVersion":"v1","groups":[]}`)
	case "/api/v1":
		fmt.Fprint(w, `{"kind":"APIResourceList","groupVersion":"v1","resources":[{"name":"configmaps","namespaced":true,"kind":"ConfigMap","verbs":["get","list","create","delete","patch"]},{"name":"secrets","namespaced":true,"kind":"Secret","verbs":["get","list","create","delete","patch"]},{"name":"namespaces","namespaced":false,"kind":"Namespace","verbs":["get","list","create"]}]}`)
	default:
		if q.Method == http.MethodGet && strings.HasSuffix(q.URL.Path, "/secrets") {
			fmt.Fprint(w, `{"kind":"SecretList","apiVersion":"v1","items":[]}`)
			return
		}
		w.WriteHeader(http.StatusNotFound)
		fmt.Fprint(w, `{"kind":"Status","apiVersion":"v1","status":"Failure","reason":"NotFound","code":404}`)
	}
}

func c06WriteChart(dir string, c c06CLICase) error {
	files := map[string]string{
		"Chart.yaml":        "apiVersion: v2\nname: demo\nversion: 1.0.0\n",
		"values.yaml":       "x: 1\n",
		"templates/cm.yaml": "apiVersion: v1\nkind: ConfigMap\nmetadata:\n  name: cm\ndata:\n  x: {{ .Values.x | quote }}\n",
	}
	if c.Lookup {
		files["templates/cm.yaml"] += "  found: {{ if (lookup \"v1\" \"Secret\" .Release.Namespace \"db-password\") }}\"yes\"{{ else }}\"no\"{{ end }}\n"
	}
	if c.Hook {
		files["templates/hook.yaml"] = "apiVersion: v1\nkind: ConfigMap\nmetadata:\n  name: hook\n  annotations:\n    \"helm.sh/hook\": pre-install\n"
	}
	if c.CRDs {
		files["crds/crd.yaml"] = "apiVersion: apiextensions.k8s.io/v1\nkind: CustomResourceDefinition\nmetadata:\n  name: widgets.example.com\nspec:\n  group: example.com\n  names:\n    kind: Widget\n    plural: widgets\n  scope: Namespaced\n  versions:\n  - name: v1\n    served: true\n    storage: true\n    schema:\n      openAPIV3Schema:\n        type: object\n"
	}
	for n, b := range files {
		p := filepath.Join(dir, n)
		if err := os.MkdirAll(filepath.Dir(p), 0o755); err != nil {
			return err
		}
		if err := os.WriteFile(p, []byte(b), 0o644); err != nil {
			return err
		}
	}
	return nil
}

func c06JudgeCLI(tb vt.TB, c c06CLICase) (lbls []string, nontrivial bool) {
	rec := &c06Recorder{}
	srv := httptest.NewServer(rec)
	defer srv.Close()
	dir, err := os.MkdirTemp("", "c06cli")
	if err != nil {
		tb.Fatalf("harness: %v", err)
	}
	defer os.RemoveAll(dir)
	chartDir := filepath.Join(dir, "demo")
	if err := c06WriteChart(chartDir, c); err != nil {
		tb.Fatalf("harness: %v", err)
	}
	args := []string{c.Cmd, "r", chartDir, "--kube-apiserver", srv.URL, "--namespace", "default"}
	switch c.DryRun {
	case "absent":
	case "bare":
		args = append(args, "--dry-run")
	default:
		args = append(args, "--dry-run="+c.DryRun)
	}
	if c.Validate {
		args = append(args, "--validate")
	}
	args = append(args, c.Args...)
	var out bytes.Buffer
	root, err := helmcmd.NewRootCmd(&out, args)
	if err != nil {
		tb.Fatalf("harness: NewRootCmd: %v", err)
	}
	root.SetArgs(args)
	root.SetOut(&out)
	root.SetErr(&out)
	runErr := root.Execute()
	rec.mu.Lock()
	reqs := append([]string(nil), rec.reqs...)
	rec.mu.Unlock()
	detail := fmt.Sprintf("helm %s\n   err=%v\n   requests %v", strings.Join(args[:1], " ")+" r <chart> "+strings.Join(args[3:], " "), runErr, reqs)
	var mutating []string
	for _, r := range reqs {
		if !strings.HasPrefix(r, "GET ") && !strings.HasPrefix(r, "HEAD ") {
			mutating = append(mutating, r)
		}
	}
	ctx := c.Cmd + "/dry-run=" + c.DryRun
	if c.Validate {
		ctx += "/validate"
	}
	// every spelling here is a dry run (template always is; install only with a dry-run value that means one)
	isDry := c.Cmd == "template" || (c.DryRun != "absent" && c.DryRun != "false" && c.DryRun != "none")
	if !isDry {
		return []string{"not-a-dry-run:" + ctx}, false
	}
	if len(mutating) > 0 {
		vt.Violation(tb, "C06:cli/dry-run-sent-mutating-request/"+ctx, detail, c)
		return nil, false
	}
	// client-only: helm template without --validate and without an explicit request for server contact
	clientOnly := c.Cmd == "template" && !c.Validate && (c.DryRun == "absent" || c.DryRun == "bare" || c.DryRun == "client" || c.DryRun == "true")
	if clientOnly && len(reqs) > 0 {
		vt.Violation(tb, "C06:cli/client-only-template-contacted-the-cluster/"+ctx, detail, c)
		return nil, false
	}
	lbls = []string{"cli:" + ctx}
	if clientOnly {
		lbls = append(lbls, "cli:client-only")
	}
	if runErr != nil {
		lbls = append(lbls, "cli:command-failed")
	}
	return lbls, c.Lookup || c.CRDs || c.Hook
}

func c06CLIProp(t *rapid.T) {
	c := c06CLICase{
		Cmd:    rapid.SampledFrom([]string{"template", "template", "install"}).Draw(t, "cmd"),
		Lookup: rapid.IntRange(0, 3).Draw(t, "lookup") > 0,
		CRDs:   rapid.Bool().Draw(t, "crds"),
		Hook:   rapid.Bool().Draw(t, "hook"),
		DryRun: rapid.SampledFrom([]string{"absent", "absent", "bare", "client", "server", "true", "false", "none"}).Draw(t, "dryRun"),
	}
	if c.Cmd == "template" {
		c.Validate = rapid.IntRange(0, 3).Draw(t, "validate") == 0
	}
	opt := map[string][]string{
		"template": {"--include-crds", "--skip-crds", "--no-hooks", "--is-upgrade", "--skip-tests", "--create-namespace", "--api-versions=x/v1", "--kube-version=v1.30.0", "--disable-openapi-validation", "--hide-secret"},
		"install":  {"--skip-crds", "--no-hooks", "--create-namespace", "--replace", "--atomic", "--wait", "--disable-openapi-validation", "--take-ownership", "--force"},
	}[c.Cmd]
	c.Args = rapid.SliceOfNDistinct(rapid.SampledFrom(opt), 0, 4, func(s string) string { return s }).Draw(t, "flags")
	sort.Strings(c.Args)
	if c.DryRun == "absent" || c.DryRun == "false" || c.DryRun == "none" {
		// --hide-secret is only accepted together with a dry run
		var a []string
		for _, x := range c.Args {
			if x != "--hide-secret" {
				a = append(a, x)
			}
		}
		c.Args = a
	}
	lbls, nontrivial := c06JudgeCLI(t, c)
	b, _ := json.Marshal(c)
	evid.Case(lbls, string(b), nontrivial, c)
}

func TestC06CLI(t *testing.T) {
	evid.Extra("rule", "C06 (command level): the real command tree (pkg/cmd.NewRootCmd) runs `helm template` and `helm install` in-process with every spelling of --dry-run (absent, bare, client, server, true, false, none), --validate, and 0-4 other flags, on a chart directory with a lookup call, a hook and/or a crds/ directory, pointed (--kube-apiserver) at a recording HTTP stand-in for the API server. Oracle: every dry-run spelling (template always; install with bare/client/server/true) sends no request other than GET/HEAD; helm template without --validate and without an explicit dry-run=server|false|none sends no request at all. Non-trivial = the chart has a lookup call, a hook or CRDs; distinct by the whole command line and chart shape. Install without a dry-run value is counted, not judged.")
	rapid.Check(t, c06CLIProp)
}
