package props

// C06 — dry-run and template never change the cluster or the release history.

import (
	"fmt"
	"sort"
	"strings"
	"testing"
	"time"

	"pgregory.net/rapid"

	"verif/internal/evid"
	"verif/internal/vt"
	"verif/internal/world"
)

type c06Spelling struct {
	DryRun bool
	Option string
}

// every spelling the actions treat as a dry run
var c06Spellings = []c06Spelling{
	{true, ""}, {false, "client"}, {false, "server"}, {false, "true"},
	{true, "client"}, {true, "server"}, {true, "true"}, {true, "none"}, {true, "false"},
}

func c06GenChart(t *rapid.T, ver int) world.ChartSpec {
	cs := world.ChartSpec{Version: ver, Resources: genResources(t, 3, []string{"", "", "keep"}), Hooks: genSimpleHooks(t)}
	cs.CRD = rapid.Bool().Draw(t, "crds")
	cs.Notes = rapid.Bool().Draw(t, "notes")
	return cs
}

// c06GenChecked draws the dry-run operation under test with random other flags.
func c06GenChecked(t *rapid.T, ver int) *world.Op {
	kind := rapid.SampledFrom([]string{"install", "install", "upgrade", "upgrade", "rollback", "uninstall", "uninstall", "template"}).Draw(t, "checkedOp")
	op := &world.Op{Kind: kind}
	// (--timeout: the command line default is 5m; a tiny one makes every pending record "old")
	op.Timeout = rapid.SampledFrom([]time.Duration{0, 0, time.Nanosecond, 5 * time.Minute}).Draw(t, "timeout")
	b := func(name string) bool { return rapid.Bool().Draw(t, name) }
	op.DisableHooks = b("noHooks")
	switch kind {
	case "install", "template":
		sp := rapid.SampledFrom(c06Spellings).Draw(t, "spelling")
		op.DryRun, op.DryRunOption = sp.DryRun, sp.Option
		op.Atomic, op.Replace, op.CreateNS, op.TakeOwnership, op.Force = b("atomic"), b("replace"), b("createNamespace"), b("takeOwnership"), b("force")
		op.SkipCRDs, op.IncludeCRDs, op.PostRender, op.WaitForJobs, op.HideSecret, op.SubNotes = b("skipCRDs"), b("includeCRDs"), b("postRender"), b("waitForJobs"), b("hideSecret"), b("subNotes")
		if b("labels") {
			op.Labels = map[string]string{"team": "x"}
		}
		if b("description") {
			op.Description = "custom"
		}
		op.Chart = c06GenChart(t, ver)
		op.CtxCancelled = rapid.IntRange(0, 5).Draw(t, "contextCancelled") == 0
		if kind == "template" {
			// what `helm template` sets: DryRun, Replace, ClientOnly unless --validate
			op.Kind = "install"
			op.DryRun, op.Replace = true, true
			op.ClientOnly = rapid.IntRange(0, 3).Draw(t, "validate") != 0
			op.IsUpgrade = b("isUpgrade")
		}
	case "upgrade":
		sp := rapid.SampledFrom(c06Spellings).Draw(t, "spelling")
		op.DryRun, op.DryRunOption = sp.DryRun, sp.Option
		op.Atomic, op.CleanupOnFail, op.TakeOwnership, op.Force = b("atomic"), b("cleanup"), b("takeOwnership"), b("force")
		op.SkipCRDs, op.PostRender, op.WaitForJobs, op.HideSecret, op.SubNotes = b("skipCRDs"), b("postRender"), b("waitForJobs"), b("hideSecret"), b("subNotes")
		op.MaxHistory = rapid.SampledFrom([]int{0, 1, 2}).Draw(t, "maxHistory")
		op.CtxCancelled = rapid.IntRange(0, 5).Draw(t, "contextCancelled") == 0
		switch rapid.IntRange(0, 3).Draw(t, "valuesMode") {
		case 1:
			op.ResetValues = true
		case 2:
			op.ReuseValues = true
		case 3:
			op.ResetThenReuse = true
		}
		if b("labels") {
			op.Labels = map[string]string{"team": "y"}
		}
		op.Chart = c06GenChart(t, ver)
	case "rollback":
		op.DryRun = true
		op.Target = rapid.IntRange(0, 3).Draw(t, "target")
		op.CleanupOnFail, op.Force, op.WaitForJobs = b("cleanup"), b("force"), b("waitForJobs")
		op.MaxHistory = rapid.SampledFrom([]int{0, 1, 2}).Draw(t, "maxHistory")
	case "uninstall":
		op.DryRun = true
		op.KeepHistory = b("keepHistory")
	}
	return op
}

func c06Prop(t *rapid.T) {
	backend := rapid.SampledFrom([]string{"memory", "secret", "configmap"}).Draw(t, "backend")
	w := world.New(backend)
	var trace []string
	var ops []*world.Op
	// history state: empty, or populated by real operations (some failing, some crashed -> pending, some uninstalled with kept history)
	nprefix := rapid.IntRange(0, 3).Draw(t, "prefix")
	for i := 0; i < nprefix; i++ {
		op := c01GenOp(t, len(w.History()) == 0, i+1)
		if op.Kind == "install" || op.Kind == "upgrade" {
			op.Chart.CRD = rapid.IntRange(0, 3).Draw(t, "prefixCRD") == 0
		}
		switch rapid.IntRange(0, 5).Draw(t, "prefixFault") {
		case 0:
			op.Fault = world.Fault{Kind: "wait", K: 0}
		case 1:
			if backend != "memory" {
				op.Fault = world.Fault{Kind: "crash", K: rapid.IntRange(3, 12).Draw(t, "crashAt")}
			}
		case 2:
			// a failed storage write (second or third write of the operation): histories with residue such as two
			// revisions marked deployed
			op.Fault = world.Fault{Kind: "store", K: rapid.IntRange(1, 2).Draw(t, "storeFaultAt")}
		}
		ops = append(ops, op)
		res := w.Run(op)
		trace = append(trace, fmt.Sprintf("%s => err=%v %s", op.Describe(), res.Err != nil, world.HistString(res.Post)))
	}
	// one history in six ends with "uninstall --keep-history" (the records stay, the last one is uninstalled)
	if len(w.History()) > 0 && rapid.IntRange(0, 5).Draw(t, "endUninstalledKept") == 0 {
		op := &world.Op{Kind: "uninstall", KeepHistory: true, DisableHooks: true}
		ops = append(ops, op)
		res := w.Run(op)
		trace = append(trace, fmt.Sprintf("%s => err=%v %s", op.Describe(), res.Err != nil, world.HistString(res.Post)))
	}
	op := c06GenChecked(t, nprefix+1)
	ops = append(ops, op)
	nontrivial, lbls := c06Check(t, w, op, ops, &trace)
	hstate := "empty"
	if h := w.History(); len(h) > 0 {
		hstate = "last-" + h[len(h)-1].Status
	}
	lbls = append(lbls, "history:"+hstate)
	if len(deployedRevs(w.History())) > 1 {
		lbls = append(lbls, "history:two-revisions-marked-deployed")
	}
	evid.Case(lbls, backend+"|"+strings.Join(trace, ";"), nontrivial, map[string]interface{}{"backend": backend, "history": trace})
}

// c06Check runs the dry-run operation on w and its non-dry twin on a clone, and judges the dry run.
func c06Check(t vt.TB, w *world.World, op *world.Op, ops []*world.Op, trace *[]string) (nontrivial bool, lbls []string) {
	fail := func(sig, detail string) {
		vt.Violation(t, sig, detail+"\n   "+traceOf(*trace), map[string]interface{}{"backend": w.Backend.Kind, "ops": ops, "trace": *trace})
	}
	// metamorphic twin: the same operation without any dry-run flag on a clone of the world
	twinWorld := w.Clone()
	twin := *op
	twin.DryRun, twin.DryRunOption, twin.ClientOnly, twin.HideSecret, twin.IsUpgrade = false, "", false, false, false
	tres := twinWorld.Run(&twin)
	twinWrote := len(tres.StoreWrites()) > 0
	for _, e := range tres.Events {
		if e.Mutating() {
			twinWrote = true
		}
	}

	preCluster, preStore := w.Cluster.Snapshot(), w.Backend.Snapshot()
	res := w.Run(op)
	spelling := fmt.Sprintf("DryRun=%v,option=%q", op.DryRun, op.DryRunOption)
	if op.ClientOnly {
		spelling += ",client-only"
	}
	*trace = append(*trace, fmt.Sprintf("[checked, %s] %s => err=%v ; twin without dry-run: err=%v wrote=%v", spelling, op.Describe(), res.Err != nil, tres.Err != nil, twinWrote))
	ctx := op.Kind
	if op.ClientOnly {
		ctx = "template"
	}
	if res.Panic != nil {
		fail("C06:panic/"+ctx, fmt.Sprint(res.Panic))
		return
	}
	for _, e := range res.Events {
		if e.Mutating() {
			fail("C06:dry-run-sent-mutating-request/"+ctx+"/"+e.Verb+"-"+c06KeyClass(e.Key), fmt.Sprintf("%s (%s)", e.String(), spelling))
			return
		}
		if e.StoreWrite() {
			fail("C06:dry-run-wrote-release-storage/"+ctx+"/"+e.Verb, fmt.Sprintf("%s (%s)", e.String(), spelling))
			return
		}
		if op.ClientOnly && e.Layer == "kube" {
			fail("C06:client-only-render-contacted-cluster/"+ctx, fmt.Sprintf("%s (%s)", e.String(), spelling))
			return
		}
	}
	postCluster, postStore := w.Cluster.Snapshot(), w.Backend.Snapshot()
	if d := diffSnap(preCluster, postCluster); d != "" {
		fail("C06:cluster-changed-by-dry-run/"+ctx, d)
		return
	}
	if d := diffSnap(preStore, postStore); d != "" {
		fail("C06:release-storage-changed-by-dry-run/"+ctx, d)
		return
	}
	lbls = []string{"op:" + ctx, "spelling:" + spelling}
	if twinWrote {
		lbls = append(lbls, "twin-wrote")
	}
	if res.Err == nil {
		lbls = append(lbls, "dry-run-succeeded")
	}
	return twinWrote, lbls
}

func c06KeyClass(key string) string {
	switch {
	case isHookKey(key):
		return "hook"
	case strings.Contains(key, "customresourcedefinitions"):
		return "crd"
	case strings.HasSuffix(key, "/namespaces/default") || strings.HasSuffix(key, "/namespaces"):
		return "namespace"
	}
	return "resource"
}

func diffSnap(a, b map[string]string) string {
	var out []string
	for k, v := range a {
		if bv, ok := b[k]; !ok {
			out = append(out, "deleted "+k)
		} else if bv != v {
			out = append(out, "changed "+k)
		}
	}
	for k := range b {
		if _, ok := a[k]; !ok {
			out = append(out, "created "+k)
		}
	}
	sort.Strings(out)
	return strings.Join(out, "; ")
}

func c06RunCase(tb vt.TB, backend string, ops []*world.Op) {
	w := world.New(backend)
	var trace []string
	for i, op := range ops {
		if i == len(ops)-1 {
			c06Check(tb, w, op, ops, &trace)
			return
		}
		res := w.Run(op)
		trace = append(trace, fmt.Sprintf("%s => err=%v %s", op.Describe(), res.Err != nil, world.HistString(res.Post)))
	}
}

func TestC06(t *testing.T) {
	evid.Extra("rule", "C06: a world whose history is empty or populated by 0-3 real operations (some failed, some crashed mid-way so the last revision is pending, some uninstalled with kept history), then one checked operation in {install, upgrade, rollback, uninstall, template} (one install/upgrade in six with a context that is already cancelled) with every dry-run spelling the action accepts (DryRun bool and DryRunOption client|server|true, and their combinations) crossed with random other flags (atomic, replace, create-namespace, take-ownership, force, cleanup-on-fail, reset/reuse values, max-history, keep-history, post-renderer, skip/include CRDs, hide-secret, labels, description, no-hooks) over charts with hooks, a crds/ directory, NOTES and keep-policy resources. Oracle: the operation's request log holds no POST/PUT/PATCH/DELETE, the storage wrapper saw no Create/Update/Delete, cluster and store snapshots are identical before and after; client-only rendering sends no request at all (not even the reachability probe). Non-trivial = the metamorphic twin (same operation, dry-run flags cleared, on a clone of the world) performed at least one cluster or storage write; distinct by (backend, prefix history, checked operation with flags).")
	evid.Extra("assumptions", c01Assumptions[:2])
	rapid.Check(t, c06Prop)
}

func TestC06_Known(t *testing.T)  { runKnownWorldCases(t, "C06", c06RunCase) }
func TestC06_Replay(t *testing.T) { replayWorldCase(t, c06RunCase) }
