package props

// C18 — case model, document rendering and the reference (oracle) side.
//
// Nothing in this file calls the functions under test (repo.LoadIndexFile, IndexFile.Get,
// registry.GetTagMatchingVersionOrConstraint, resolver/Manager). Masterminds/semver is used for exactly three things:
// "does this string parse as a version" (Helm's documented notion of a valid chart version), precedence between two
// parsed versions, and "does this parsed version satisfy this constraint". Every maximum is computed here.

import (
	"encoding/json"
	"fmt"
	"path/filepath"
	"sort"
	"strings"

	"github.com/Masterminds/semver/v3"
	"sigs.k8s.io/yaml"
)

// c18Entry is one item of a chart's version list as it is written into the index document.
type c18Entry struct {
	// Kind: "entry" (a mapping with the fields below), "null" (a null list item), "empty" (the empty mapping {}).
	Kind string `json:"kind"`
	// Name / Version are omitted from the document when nil.
	Name       *string `json:"name,omitempty"`
	Version    *string `json:"version,omitempty"`
	Type       string  `json:"type,omitempty"`
	APIVersion string  `json:"apiVersion,omitempty"`
	// URLs: "omitted" | "null" | "empty" | "relative" | "absolute"
	URLs string `json:"urls"`
}

type c18Chart struct {
	Key      string     `json:"key"`
	ListNull bool       `json:"listNull,omitempty"` // the whole list is written as null
	Entries  []c18Entry `json:"entries"`
}

type c18Index struct {
	Format string     `json:"format"` // "yaml" | "json"
	Charts []c18Chart `json:"charts"`
}

type c18Query struct {
	Name    string `json:"name"`
	Version string `json:"version"`
}

type c18Dep struct {
	Name  string `json:"name"`
	Alias string `json:"alias,omitempty"`
	Range string `json:"range"`
}

// c18Case is the replayable form of every part's case.
type c18Case struct {
	Part    string     `json:"part"` // "A" load, "B" get, "C" tags, "D" resolver
	Index   *c18Index  `json:"index,omitempty"`
	Queries []c18Query `json:"queries,omitempty"`
	Tags    []string   `json:"tags,omitempty"`
	Query   string     `json:"query,omitempty"`
	Deps    []c18Dep   `json:"deps,omitempty"`
}

const c18RepoURL = "http://repo.c18.test/charts"

func c18ID(ci, ei int) string { return fmt.Sprintf("sha256:c%de%d", ci, ei) }

func c18ArchiveName(ci, ei int) string { return fmt.Sprintf("pkg-c%de%d.tgz", ci, ei) }

// c18Render writes the index document. Mapping keys are emitted in sorted order (encoding/json), list order is the
// case's order. Every "entry" item carries its identity in the digest field.
func c18Render(ix *c18Index) []byte {
	entries := map[string]interface{}{}
	for ci, ch := range ix.Charts {
		if ch.ListNull {
			entries[ch.Key] = nil
			continue
		}
		list := []interface{}{}
		for ei, e := range ch.Entries {
			switch e.Kind {
			case "null":
				list = append(list, nil)
			case "empty":
				list = append(list, map[string]interface{}{})
			default:
				m := map[string]interface{}{"digest": c18ID(ci, ei)}
				if e.Name != nil {
					m["name"] = *e.Name
				}
				if e.Version != nil {
					m["version"] = *e.Version
				}
				if e.Type != "" {
					m["type"] = e.Type
				}
				if e.APIVersion != "" {
					m["apiVersion"] = e.APIVersion
				}
				switch e.URLs {
				case "null":
					m["urls"] = nil
				case "empty":
					m["urls"] = []interface{}{}
				case "relative":
					m["urls"] = []interface{}{c18ArchiveName(ci, ei)}
				case "absolute":
					m["urls"] = []interface{}{"http://cdn.c18.test/dl/" + c18ArchiveName(ci, ei)}
				}
				list = append(list, m)
			}
		}
		entries[ch.Key] = list
	}
	doc := map[string]interface{}{"apiVersion": "v1", "generated": "2020-01-02T03:04:05Z", "entries": entries}
	b, err := json.Marshal(doc)
	if err != nil {
		panic(err)
	}
	if ix.Format == "yaml" {
		y, err := yaml.JSONToYAML(b)
		if err != nil {
			panic(err)
		}
		return y
	}
	return b
}

// c18V is one entry the reference considers valid.
type c18V struct {
	ID      string
	S       string // the version string exactly as written
	V       *semver.Version
	HasURLs bool
	Name    string
	Pos     int
}

func c18ValidType(s string) bool { return s == "" || s == "application" || s == "library" }

// c18EntryValid is chart metadata validity as the chart documentation states it: a name that is a plain base name,
// a version that parses as a semantic version, and a type that is empty, "application" or "library".
func c18EntryValid(e c18Entry) (*semver.Version, bool) {
	if e.Kind != "entry" || e.Name == nil || e.Version == nil {
		return nil, false
	}
	if *e.Name == "" || *e.Name != filepath.Base(*e.Name) {
		return nil, false
	}
	if !c18ValidType(e.Type) {
		return nil, false
	}
	v, err := semver.NewVersion(*e.Version)
	if err != nil {
		return nil, false
	}
	return v, true
}

func c18ValidOf(ix *c18Index, ci int) []c18V {
	var out []c18V
	ch := ix.Charts[ci]
	if ch.ListNull {
		return nil
	}
	for ei, e := range ch.Entries {
		if v, ok := c18EntryValid(e); ok {
			out = append(out, c18V{ID: c18ID(ci, ei), S: *e.Version, V: v, HasURLs: e.URLs == "relative" || e.URLs == "absolute", Name: *e.Name, Pos: ei})
		}
	}
	return out
}

func c18ChartIndex(ix *c18Index, key string) int {
	for ci, ch := range ix.Charts {
		if ch.Key == key {
			return ci
		}
	}
	return -1
}

func c18HasNull(ix *c18Index) bool {
	for _, ch := range ix.Charts {
		if ch.ListNull {
			continue
		}
		for _, e := range ch.Entries {
			if e.Kind == "null" {
				return true
			}
		}
	}
	return false
}

// c18Maximal returns the members of set that have no strictly higher member (ties in precedence all qualify).
func c18Maximal(set []c18V) []c18V {
	var out []c18V
	for i, a := range set {
		top := true
		for j, b := range set {
			if i != j && b.V.Compare(a.V) > 0 {
				top = false
				break
			}
		}
		if top {
			out = append(out, a)
		}
	}
	return out
}

func c18IDs(set []c18V) []string {
	var out []string
	for _, v := range set {
		out = append(out, v.ID)
	}
	sort.Strings(out)
	return out
}

func c18Strs(set []c18V) []string {
	var out []string
	for _, v := range set {
		out = append(out, v.S)
	}
	return out
}

func c18Contains(ss []string, s string) bool {
	for _, x := range ss {
		if x == s {
			return true
		}
	}
	return false
}

// c18Expect is what the property statement allows as the answer to one version query over a set of valid versions.
type c18Expect struct {
	Class  string // "empty" | "exact" | "constraint" | "invalid-constraint"
	Err    bool   // an error is the only allowed outcome
	OK     []c18V // the allowed answers when Err is false
	Sat    []c18V // every version satisfying the query (for diagnostics and the non-trivial rule)
	TopOut bool   // the query excludes the overall highest version although something satisfies it
	pool   []c18V // the versions the query ran over
}

// c18ReferenceRange is the dependency-resolution rule: the range must parse, and the answer is a version of pool
// satisfying it with no strictly higher satisfying version; an error if there is none.
func c18ReferenceRange(pool []c18V, q string) c18Expect {
	ex := c18Expect{pool: pool}
	c, err := semver.NewConstraint(q)
	if err != nil {
		ex.Class = "invalid-constraint"
		ex.Err = true
		return ex
	}
	ex.Class = "constraint"
	for _, v := range pool {
		if c.Check(v.V) {
			ex.Sat = append(ex.Sat, v)
		}
	}
	if len(ex.Sat) == 0 {
		ex.Err = true
		return ex
	}
	ex.OK = c18Maximal(ex.Sat)
	all := c18Maximal(pool)
	ex.TopOut = all[0].V.Compare(ex.OK[0].V) > 0
	return ex
}

// c18Reference: empty version -> highest stable; identical string -> that entry; otherwise the query must parse as
// a constraint and the answer is a satisfying version with no strictly higher satisfying version; else an error.
func c18Reference(valid []c18V, q string) c18Expect {
	var ex c18Expect
	if q == "" {
		ex.Class = "empty"
		for _, v := range valid {
			if v.V.Prerelease() == "" {
				ex.Sat = append(ex.Sat, v)
			}
		}
	} else {
		var same []c18V
		for _, v := range valid {
			if v.S == q {
				same = append(same, v)
			}
		}
		if len(same) > 0 {
			ex.Class = "exact"
			ex.OK, ex.Sat = same, same
			return ex
		}
		c, err := semver.NewConstraint(q)
		if err != nil {
			ex.Class = "invalid-constraint"
			ex.Err = true
			return ex
		}
		ex.Class = "constraint"
		for _, v := range valid {
			if c.Check(v.V) {
				ex.Sat = append(ex.Sat, v)
			}
		}
	}
	if len(ex.Sat) == 0 {
		ex.Err = true
		return ex
	}
	ex.OK = c18Maximal(ex.Sat)
	all := c18Maximal(valid)
	ex.TopOut = len(all) > 0 && all[0].V.Compare(ex.OK[0].V) > 0
	return ex
}

// c18Interesting is the version-set half of the non-trivial rule: at least three valid versions that include a
// pre-release or two versions differing only in build metadata, and whose file order is not already newest-first.
func c18Interesting(valid []c18V) bool {
	if len(valid) < 3 {
		return false
	}
	special := false
	for i, a := range valid {
		if a.V.Prerelease() != "" {
			special = true
		}
		for j, b := range valid {
			if i < j && a.V.Compare(b.V) == 0 && a.V.Metadata() != b.V.Metadata() {
				special = true
			}
		}
	}
	if !special {
		return false
	}
	for i := 0; i+1 < len(valid); i++ {
		if valid[i].V.Compare(valid[i+1].V) < 0 {
			return true
		}
	}
	return false
}

// c18VersionLabels classifies the version strings of a case for the histogram.
func c18VersionLabels(ix *c18Index) []string {
	set := map[string]bool{"format:" + ix.Format: true}
	for ci, ch := range ix.Charts {
		if ch.ListNull {
			set["has:null-list"] = true
			continue
		}
		seen := map[string]bool{}
		for _, e := range ch.Entries {
			switch {
			case e.Kind == "null":
				set["has:null-entry"] = true
			case e.Kind == "empty":
				set["has:empty-mapping-entry"] = true
			case e.Name == nil && e.Version == nil:
				set["has:entry-without-metadata"] = true
			case e.Name == nil || *e.Name == "":
				set["has:entry-without-name"] = true
			case e.Version == nil:
				set["has:entry-without-version"] = true
			}
			if e.Kind == "entry" && e.Name != nil && strings.Contains(*e.Name, "/") {
				set["has:path-like-name"] = true
			}
			if e.Kind == "entry" && !c18ValidType(e.Type) {
				set["has:bad-type"] = true
			}
			if e.Kind == "entry" && e.Version != nil {
				s := *e.Version
				v, err := semver.NewVersion(s)
				if err != nil {
					set["has:invalid-version"] = true
					continue
				}
				if seen[s] {
					set["has:duplicate-version"] = true
				}
				seen[s] = true
				if v.Prerelease() != "" {
					set["has:prerelease"] = true
				}
				if v.Metadata() != "" {
					set["has:build-metadata"] = true
				}
				if strings.HasPrefix(s, "v") {
					set["has:leading-v"] = true
				}
				if _, err := semver.StrictNewVersion(strings.TrimPrefix(s, "v")); err != nil {
					set["has:partial-or-loose"] = true
				}
				if e.URLs != "relative" && e.URLs != "absolute" {
					set["has:valid-entry-without-urls"] = true
				}
			}
		}
		if c18Interesting(c18ValidOf(ix, ci)) {
			set["set:>=3-valid+pre/build-pair+shuffled"] = true
		}
	}
	var out []string
	for k := range set {
		out = append(out, k)
	}
	sort.Strings(out)
	return out
}

func c18JSON(v interface{}) string {
	b, err := json.Marshal(v)
	if err != nil {
		return fmt.Sprintf("%+v", v)
	}
	return string(b)
}
