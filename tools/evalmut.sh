#!/bin/bash
# evalmut.sh <dir-with-patch.diff,demo_test.go,meta.json> <prop>... : confirm (verifymut) and run the quick checks against
# the change in a scratch worktree (VERIF_ALT_REPO mode; /repo and the committed evidence are not touched).
d=$(realpath $1); shift
cd /verif
tools/verifymut.sh $d 2>&1 | tail -2
wt=/tmp/mutrepo-eval-$$
git -C /repo worktree add -q --detach $wt HEAD || exit 1
git -C $wt apply $d/patch.diff || { echo NOAPPLY; git -C /repo worktree remove --force $wt; exit 1; }
for p in "$@"; do
  out=$(VERIF_ALT_REPO=$wt ./check $p quick 2>&1); rc=$?
  echo "$p rc=$rc"; echo "$out" | grep -E "^VIOLATION|INCONCLUSIVE|BUILD-FAILED" | sed 's/.*replay=.*\///' | head -3
done
git -C /repo worktree remove --force $wt; rm -rf /verif/.work/alt-$(basename $wt)
