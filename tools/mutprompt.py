#!/usr/bin/env python3
"""Print the prompt given to a fresh sub-agent that seeds a property-breaking change (property text only)."""
import json, sys
pid = sys.argv[1]
props = {json.loads(l)["id"]: json.loads(l) for l in open("/verif/properties.jsonl")}
p = props[pid]
print(f"""You are working on the Helm source tree (Go module helm.sh/helm/v4) in a scratch git worktree at /tmp/mut/{pid}.
Work ONLY inside /tmp/mut/{pid} and /tmp/mutout/{pid}. Do not read, list or modify /repo or /verif.

Goal: produce TWO independent, realistic code changes ("seeded defects") to Helm's non-test source that each BREAK the
following semantic property, while the code still compiles and the existing unit tests of Helm still pass.

PROPERTY {pid}: {p['title']}
{p['statement']}
(The property quantifies over: {p['quantifier']['text']})
Relevant source files: {', '.join(p['anchors']['files'])}

Requirements for each change:
- NEVER use `git stash` (the stash is shared with sibling worktrees used by other people); to set a change aside use `git diff > file && git checkout -- .` and `git apply file`.
- It must look like a plausible mistake or well-meant refactoring a developer could make (a few lines, no test files touched,
  no obviously malicious code, no special-casing of magic strings).
- It must need something SPECIFIC to manifest: a particular interleaving, a crash or fault at a particular point, a multi-step
  sequence of operations, an unusual input, or two cooperating sites that each look fine alone. A change that breaks ordinary
  use at once (e.g. every install fails) is NOT wanted.
- With the change applied, `go build ./...` succeeds and the existing tests of every package you touched still pass
  (run e.g. `go test -count=1 ./pkg/action/ ./pkg/storage/...` for the packages concerned; they must pass).
- The two changes should have different root causes / touch different mechanisms of the property.

Environment: no network. Before any go command run: export GOFLAGS=-mod=mod GOPROXY=off
(leave GOSUMDB and GOTOOLCHAIN alone). First builds take a minute or two. Do not run `go mod tidy`.
If `git status` shows go.sum/go.mod modified by the toolchain, revert those files (git checkout -- go.mod go.sum).

Deliverables, for change N in {{1,2}} under /tmp/mutout/{pid}/N/ :
- patch.diff : output of `git diff` for the change alone (relative to the worktree's HEAD; it must apply with `git apply` to a clean checkout).
- demo_test.go (plus a line in meta.json saying into which package directory it must be copied) : a self-contained Go test
  (it may use Helm's own exported test helpers/fakes such as pkg/kube/fake, pkg/storage/driver.NewMemory, action configuration
  fixtures, or define its own fakes) that FAILS with the change applied and PASSES on the unchanged tree. Verify both directions yourself.
- meta.json : {{"property": "{pid}", "summary": "...what the change does...", "needs_to_manifest": "...the specific trigger...",
  "demo_package_dir": "pkg/...", "demo_run": "go test -run TestName ./pkg/...", "existing_tests_run": "...commands you ran and that passed..."}}

Work method: read the relevant code, pick the two changes, make change 1, build, run the existing tests of touched packages, write and
verify the demo (fails with change, passes after reverting with `git apply -R` or `git checkout -- .`), save the diff, then `git checkout -- .` and repeat for change 2.
At the end leave the worktree clean (git checkout -- . ; remove any demo test files you added to the tree) and reply with a short summary of both changes.
""")
