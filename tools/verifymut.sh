#!/bin/bash
# verifymut.sh <dir with patch.diff demo_test.go meta.json> : confirm in a scratch worktree that the demo passes without and
# fails with the patch, and that the existing tests of the touched packages still pass with it.
set -u
D=$(realpath "$1")
export GOFLAGS=-mod=mod GOPROXY=off
WT=/tmp/mutverify.$$
git -C /repo worktree add --detach -f $WT HEAD >/dev/null 2>&1 || exit 3
trap 'git -C /repo worktree remove --force '$WT' >/dev/null 2>&1' EXIT
PKG=$(python3 -c "import json;print(json.load(open('$D/meta.json'))['demo_package_dir'])")
cp "$D/demo_test.go" "$WT/$PKG/zz_demo_test.go"
cd $WT
TEST=$(grep -o 'func Test[A-Za-z0-9_]*' "$D/demo_test.go" | sed 's/func //' | paste -sd'|')
echo "== demo on clean tree (must pass): $TEST in $PKG"
go test -count=1 -run "^($TEST)\$" ./$PKG/ 2>&1 | tail -3; CLEAN=${PIPESTATUS[0]}
git apply "$D/patch.diff" || { echo "PATCH DOES NOT APPLY"; exit 4; }
echo "== demo with patch (must fail)"
go test -count=1 -run "^($TEST)\$" ./$PKG/ 2>&1 | tail -5; PATCHED=${PIPESTATUS[0]}
rm -f "$WT/$PKG/zz_demo_test.go"
PKGS=$(git diff --name-only | xargs -n1 dirname | sort -u | sed 's|^|./|' | paste -sd' ')
echo "== existing tests of touched packages with patch (must pass): $PKGS"
go build ./... && go test -count=1 $PKGS 2>&1 | tail -5; EXIST=${PIPESTATUS[0]}
echo "RESULT clean=$CLEAN patched=$PATCHED existing=$EXIST"
[ $CLEAN -eq 0 ] && [ $PATCHED -ne 0 ] && [ $EXIST -eq 0 ] && echo "CONFIRMED" || echo "NOT-CONFIRMED"
