#!/bin/bash
# Cross-check C14's reference schema evaluator against python jsonschema (tooling venv). Usage: tools/c14_crosscheck.sh [cases]
cd /verif; export GOFLAGS=-mod=mod GOPROXY=off GOTOOLCHAIN=local
GO=/root/go/pkg/mod/golang.org/toolchain@v0.0.1-go1.24.0.linux-amd64/bin/go
D=$(mktemp); trap 'rm -f $D' EXIT
VERIF_C14_DUMP=$D $GO test -tags verif ./props -run '^TestC14RefDump$' -count=1 -rapid.checks=${1:-20000} -rapid.seed=7 >/dev/null || { echo "dump failed"; exit 2; }
python3-vt tools/c14_crosscheck.py $D
