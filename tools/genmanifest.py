#!/usr/bin/env python3
"""Regenerate /verif/MANIFEST.json from the table below (claimed checks) and properties.jsonl (everything else -> not_applicable)."""
import json, sys
sys.path.insert(0, '/verif')
from checkcfg import PROPS

CLAIMS = {
 "C01": dict(cat="fault_enumeration", tech="rapid model-based history generation with single-fault injection (cluster, waiter, storage write, crash) at drawn and enumerated positions; ledger invariants after every step",
   text="Random histories of install/upgrade/rollback/uninstall with flags run against the real actions, real kube.Client over an API-server simulator and the three real storage backends; each operation gets one fault at a position taken from the calls it really makes, and the thorough tier enumerates every position of every fault kind for the last operation. Evidence, not proof: no violation in the generated histories.",
   note="Cluster is a simulator (existence/content only); readiness and hook completion are scripted; a crash = every later storage/cluster call of the operation fails without effect; SQL backend not covered; three genuine defects are listed as known findings and excluded by signature."),
 "C02": dict(cat="exploration", tech="rapid history generation with out-of-band edits and bystanders; oracle = generator's own structured manifest (sub-object relation), deletion/keep rules and write-set containment",
   text="Generated histories with growing/shrinking/changing resource sets, resource-policy variants, out-of-band edits between operations and bystander objects; after every fault-free successful operation the simulated cluster is compared with the generator's own description of the manifest.",
   note="Simulator without defaulting/admission; built-in kinds only (strategic three-way merge path); one genuine defect listed as known finding."),
 "C03": dict(cat="fault_enumeration", tech="rapid history generation with one cluster-side fault per operation (request k rejected / waiter k fails), positions drawn from the real call count and enumerated for the last operation in the thorough tier",
   text="Every install/upgrade/rollback in a generated history draws one cluster-side fault; when it fired the check asserts error, failed status of the created revision, deployed status kept, cleanup-on-fail and the atomic restore clauses.",
   note="Same simulated world as C01; atomic clauses are judged only when the cluster rejected exactly one call of the operation; three genuine defects listed as known findings."),
 "C04": dict(cat="exploration", tech="rapid grammar-based generation (values files, every --set flag family printed from an AST, chart trees) against independent reference models: layered merge, path assignment, chart-tree coalescing; aliasing detected by mutating the result",
   text="Three generated-input properties: Options.MergeValues against the documented flag precedence; every strvals parser applied to a random base against a reference path assignment (typing + frame rule); ToRenderValues over chart trees up to three subchart levels against a reference coalescer, plus immutability of defaults and caller maps.",
   note="Literal classes limited to documented ones; ill-typed assignments and scalar-vs-table clashes of sections/global are counted, not judged."),
 "C05": dict(cat="exploration", tech="rapid grammar-based chart generation; metamorphic oracles: repetition, load-order permutation, renders of the same chart under other release options in between and alongside (also in a race-detector binary), and twin renders under two host states (environment, cwd, canary files, schema $ref targets)",
   text="Charts generated from a grammar of deterministic template functions are rendered repeatedly, with permuted load order and concurrently: manifests, hooks with order, notes and error texts must be identical; twin renders under different environment variables, working directories and host file contents must be identical and must not contain host content; env/expandenv must not exist; getHostByName yields nothing unless DNS is enabled (also on real upgrades); schema outcome must not follow host files.",
   note="Functions documented as random/time/cluster dependent are outside the grammar; process-wide cwd/env are changed and restored by the test."),
 "C06": dict(cat="exploration", tech="rapid generation of (history prefix incl. crash/failed-write residue, operation, dry-run spelling, flag set) with a metamorphic non-dry-run twin on a cloned world; plus rapid-generated command lines run through the real command tree (pkg/cmd) against a recording API-server stand-in",
   text="Every dry-run spelling x random flags x history states; the request log, the storage call log and before/after snapshots must show no write; the twin run proves the case could have written. At command level, helm template / helm install --dry-run with every flag spelling must send no mutating request, and client-only template no request at all.",
   note="Simulated world as C01."),
 "C07": dict(cat="exploration", tech="rapid history generation with pre-existing objects in nine ownership variants and objects injected mid-operation; independent ownership predicate as oracle",
   text="Generated placements of foreign / partially labelled / owned objects before and during install, upgrade and install --replace with and without take-ownership; refusal must come before any write and leave cluster and history byte-identical.",
   note="Simulated world as C01; charts without crds/; one genuine defect listed as known finding."),
 "C08": dict(cat="exploration", tech="rapid grammar-based generation of template file sets with unique document ids against an independent classifier and the documented kind orders; for the creation barrier, real installs over the simulator with randomly held requests and arrival/completion stamps",
   text="Generated multi-document template sets (hooks with known/unknown events, blank and comment documents, CRLF, odd separators, NOTES and partials) must be partitioned exactly once into manifest or hook list and ordered by the documented install/uninstall kind order; real installs/uninstalls with delayed requests must never start a later kind before an earlier kind completed.",
   note="Barrier part controls the schedule only by delaying requests in the simulator; a quiescence window can hide but never raise a violation."),
 "C09": dict(cat="exploration", tech="rapid-drawn schedules over a gate + scheduler that serialises concurrent operations at every storage call, cluster request and waiter call (shrinkable choice lists); bounded-exhaustive enumeration of all schedules with <= 2 pre-emptions; separate generated multi-goroutine workloads under the Go race detector",
   text="Two or three concurrent installs (empty history), install --replace (uninstalled history kept) or upgrades (deployed history of one or three revisions, with history limits) run under a deterministic scheduler that owns the interleaving at the granularity the property names; at quiescence each storage key has one creator, losers failed with an in-progress/exists error without any write, windows do not overlap and the ledger is well-formed. The thorough tier enumerates every schedule with at most two pre-emptions for two operations on every backend (exhaustive for that bounded space only). Data races: generated concurrent workloads on each backend under -race.",
   note="One call in flight per operation (one resource per kind, no hooks); a loser may re-mark an uninstalled revision superseded and prune non-deployed, non-pending revisions (writes the winner makes too); fake clientset create is atomic; API-server optimistic concurrency not modelled; -race only sees races that the generated workloads execute."),
 "C10": dict(cat="exploration", tech="rapid state-machine (model-based) testing against a reference map, three backends in lock-step",
   text="Generated call sequences run in lock-step on the memory, Secret and ConfigMap backends and a reference map; every result and a periodic full scan are compared.",
   note="Secret/ConfigMap drivers run over client-go's fake clientset; SQL driver not covered."),
 "C13": dict(cat="exploration", tech="rapid generation of install/upgrade/rollback chains with a reference ledger of (user values, defaults in force); leaf-path comparison with stored Config and with a probe template's rendered .Values",
   text="Chains of upgrades with every values flag, fresh or edited value trees (nulls, empty tables, type changes), changing chart and subchart defaults, occasional failing upgrades and failing deployed-revision lookups, on the Secret backend; recorded values and what the templates saw are compared with a reference ledger.",
   note="One subchart level; JSON-native values; one genuine defect (reuse-values bakes effective values into chart defaults) listed as known finding."),
 "C11": dict(cat="exploration", tech="rapid generation of dependency trees (aliases, repeated charts, conditions, tags, globals, rejecting schemas) with sentinel leaves; independent enablement rule and scope reference; metamorphic sibling change",
   text="Generated dependency trees up to depth three rendered through a client-only dry-run install; the rendered probes, hooks, CRDs and schema enforcement must match an independent implementation of the documented enablement rule and value scoping; sentinel leak search and a metamorphic sibling change need no reference.",
   note="Tags read from the top-level table; two genuine defects around nested aliases listed as known findings (their combination is excluded by construction)."),
 "C12": dict(cat="exploration", tech="rapid history generation over hook sets with one failing hook; reference model of documented hook semantics compared against the global request/wait order",
   text="Generated hook sets (events, weights with ties, shuffled names, kinds, all delete-policy combinations) across histories with a chosen hook failing; order, gating, delete policies and leftovers are compared with a reference model.",
   note="Hook completion is a scripted waiter outcome; simulated world as C01."),
 "C14": dict(cat="exploration", tech="rapid generation of (schema family x chart tree x values through files and --set x operation sequence); reference schema evaluator over reference-coalesced values; request log and storage snapshot for the no-effect clause",
   text="Generated schemas on any chart of a three-level tree, values arriving from defaults, parent sections, -f files and --set; template, server dry-run, install, upgrade and lint must reject exactly when the reference evaluator finds a violating enabled chart, naming it and leaving cluster and store untouched; skip-schema-validation is the only way through.",
   note="Reference evaluator covers exactly the generated schema family; lint judged for the root chart only."),
 "C15": dict(cat="exploration", tech="rapid generation of chart intents (metadata, raw values, schema, locks, nested/unicode/binary/BOM files, subcharts as directories and archives, v1 and v2) and of .helmignore rule sets; round-trip oracles Load(Save(c)) / LoadDir(SaveDir(c)) / archive vs directory, the harness's own tar and tree readers, an independent ignore matcher written from the documented syntax",
   text="Generated charts must survive archive and directory round trips field by field and byte by byte (checked also on the written bytes with the harness's own readers), saving must not modify the chart, packaged archives must contain exactly the files an independent .helmignore matcher keeps, and invalid names/versions must not be packaged nor leave output behind.",
   note="File names with backslash or colon, symlinks, empty directories and .helmignore syntax outside the documented set are not generated; three genuine defects (BOM stripping on load, YAML writer refusing control characters, U+0085 folding) are listed as known findings."),
 "C16": dict(cat="exploration", tech="rapid generation of tar+gzip streams from a raw header encoder (hostile names, type flags, link entries, size lies, mutations) x destination layouts with planted symlinks; before/after snapshot of a sandbox with canaries as oracle; lazily generated endless streams with a byte counter for the size limits; native coverage-guided fuzzing of the same oracle in the thorough tier",
   text="Adversarial archives through LoadArchive(Files), Expand(File), the plugin extractor/installer and helm pull --untar against pre-planted destinations: nothing outside the destination may change (even when the call fails) and every exposed file name must be a clean relative path; over-limit archives are rejected without reading past the limit; dependency update must not write the lock file through a planted symlink.",
   note="Reads through links are not observable by a snapshot; Windows path semantics, hard-link plants and TOCTOU races not covered; the committed fuzz seed corpus is replayed in the quick tier, native fuzzing runs only in the thorough tier."),
 "C17": dict(cat="exploration", tech="rapid generation of signed charts and 37 mutation classes over archive / provenance / armor / file name / keyring; round-trip, metamorphic must-reject rules and a differential against an independent reference verifier, through six entry points",
   text="Helm-signed generated charts receive one mutation (tampering, attacker-style composites, non-semantic edits, crafted validly-signed-but-wrong messages) and a keyring variant; accept/reject must match an independent reference verifier and the must-reject rules, and every wrapper (VerifyChart, action.Verify, LocateChart --verify, DownloadTo with VerifyAlways) must fail exactly when Signatory.Verify does.",
   note="Fixed committed RSA keys (generation cannot be seeded); x/crypto openpgp is the trusted primitive; only .tgz names; expired/revoked keys not covered."),
 "C18": dict(cat="exploration", tech="rapid grammar-based generation of index documents (YAML/JSON), queries, tag lists and dependency ranges; harness-computed maximum over trusted semver precedence as oracle; resolver observed through the real Manager.Update and the Chart.lock it writes",
   text="Generated indexes with pre-releases, build metadata, leading v, partial and invalid versions, duplicates, null and metadata-less entries in arbitrary order; LoadIndexFile post-conditions, IndexFile.Get, registry tag matching and dependency resolution are compared with a reference that computes the best match itself.",
   note="Masterminds/semver trusted for parsing, precedence and constraint satisfaction; OCI paths and file:// dependencies not covered."),
 "C19": dict(cat="exploration", tech="rapid generation of (repository URL, chart URL) pairs by relation class, redirects, second repositories and credential placements; every request captured by local listeners (custom dialers / HTTP_PROXY + CONNECT); origin predicate as oracle",
   text="Five real paths (HTTPGetter, ChartDownloader.DownloadTo, LocateChart --repo, Manager.Update, helm pull) run against local capture listeners; any captured request carrying the repository's configured credentials must be on the repository's scheme/host/port unless pass-credentials, including provenance fetches and redirects to unrelated domains.",
   note="No real network: all hosts are dialled to local listeners; same-domain redirects that keep credentials are counted, not judged; OCI and plugin getters not covered."),
 "C20": dict(cat="exploration", tech="rapid structure-aware and byte-level mutation of valid seeds for eleven input kinds through the public entry points under a recover guard, a watchdog and a dead-process attribution file; native coverage-guided fuzz targets with the same oracle in the thorough tier",
   text="Mutated charts (Chart.yaml incl. import-values, values, schema, templates, subcharts), --set lines, values files, indexes, manifest streams, stored release records next to good ones, provenance/keyring files, .helmignore, plugin.yaml and schemas go through load -> dependencies -> values -> render -> sort, lint, every strvals parser, index queries, storage reads, verification, ignore and plugin loading: no panic (root cause = first Helm frame), no hang, no process death, and lists over stored records still return every readable record.",
   note="Inputs bounded to ~100 KB; 30 s watchdog; OCI/SQL/plugin execution not exercised; seven genuine crashes were repaired in helm (fixed: lines)."),
}

props = [json.loads(l) for l in open('/verif/properties.jsonl')]
checks = []
for p in props:
    pid = p['id']
    if pid not in CLAIMS or pid not in PROPS:
        continue
    c = CLAIMS[pid]
    checks.append({
        "property_id": pid,
        "quick_cmd": "./check %s quick" % pid,
        "thorough_cmd": "./check %s thorough" % pid,
        "evidence_file": "/verif/evidence/%s.json" % pid,
        "replay_cmd_template": "./check %s --replay {path}" % pid,
        "engine": "props",
        "level_claimed": {"category": c["cat"], "text": c["text"], "design_ref": "DESIGN.md section 3, " + pid},
        "level_note": c["note"],
        "technique": c["tech"],
    })
claimed = {c["property_id"] for c in checks}
m = {
    "version": 1,
    "setup_cmd": "./check --build",
    "hooks": {"guard": "verif", "enable": "go test -c -tags verif ./props (no hook exists in helm/helm: every observation goes through public interfaces)",
              "baseline_off_cmd": "cd /repo && GOFLAGS=-mod=mod GOPROXY=off go test -vet=off -count=1 -timeout 25m ./...", "source_commits": [], "add_only": True},
    "engines": [{"name": "props", "path": "/verif/props", "serves_properties": sorted(claimed),
                 "kind_free_text": "pgregory.net/rapid property tests (stateless and state-machine) and native Go fuzz targets compiled against /repo, sharded over 16 processes by ./check"}],
    "checks": checks,
    "not_applicable": [{"property_id": p["id"], "reason": "check not built yet in this session (the design in DESIGN.md section 3 applies; nothing about the property prevents property-based testing)"} for p in props if p["id"] not in claimed],
    "notes": "See DESIGN.md. Known findings and fixed: lines are in known_findings.json; seeded property-breaking changes used to test the checks are under seeded/.",
}
json.dump(m, open('/verif/MANIFEST.json', 'w'), indent=1)
print("claimed:", sorted(claimed))
