#!/usr/bin/env python3
"""Regenerate the generated blocks of DESIGN.md (between <!-- gen:NAME --> and <!-- /gen:NAME --> markers):
   seeded  - table of seeded changes from seeded/*/meta.json
   fixed   - list of repaired defects from known_findings.json
   known   - list of known findings from known_findings.json"""
import glob, json, os, re
R = '/verif'
def esc(s): return s.replace('|', '\\|').replace('\n', ' ')
rows = ['| Seeded change | Round | What it needs to manifest | Caught by |', '|---|---|---|---|']
for m in sorted(glob.glob(R + '/seeded/*/meta.json')):
    d = json.load(open(m)); sid = os.path.basename(os.path.dirname(m))
    rnd = '4' if '-r4-' in sid else '3' if '-r3-' in sid else ('2' if '-r2-' in sid else '1')
    rows.append('| %s | %s | %s | %s |' % (sid, rnd, esc(d.get('needs_to_manifest', ''))[:420], esc(d.get('detected_by', ''))))
k = json.load(open(R + '/known_findings.json'))['entries']
fixed = ['* **%s** `%s` - %s' % (e['property'], e['commit'], e['what']) for e in k if e['status'] == 'fixed']
known = ['* **%s** `%s` - %s' % (e['property'], e['signature'], e['what']) for e in k if e['status'] == 'known']
# as-built summary per property: from the evidence the checks write themselves and the driver's configuration
import sys
sys.path.insert(0, R)
from checkcfg import PROPS
asb = []
for pid in sorted(PROPS):
    cfg = PROPS[pid]
    try:
        ev = json.load(open(R + '/evidence/%s.json' % pid))
    except Exception:
        continue
    tests = []
    for t in cfg['tests']:
        kind = t.get('kind', 'rapid')
        if kind == 'fuzz':
            tests.append('%s (native fuzz, thorough, %ds)' % (t['name'], t.get('fuzztime', 60)))
        elif kind == 'plain':
            tests.append('%s (enumeration / corpus)' % t['name'])
        else:
            tests.append('%s (rapid; quick %s, thorough %s cases%s)' % (t['name'], t.get('quick'), t.get('thorough'), ', race detector' if t.get('race') else ''))
    asb.append('#### %s\n*Tests:* %s.\n\n%s\n\n*Assumptions:* %s\n' % (pid, '; '.join(tests), ev['coverage'].get('rule', '').replace(' || ', '\n\n'), '; '.join(ev.get('assumptions', []) or ['-'])))
blocks = {'seeded': '\n'.join(rows), 'fixed': '\n'.join(fixed), 'known': '\n'.join(known), 'asbuilt': '\n'.join(asb)}
s = open(R + '/DESIGN.md').read()
for name, body in blocks.items():
    pat = re.compile(r'(<!-- gen:%s -->\n).*?(\n<!-- /gen:%s -->)' % (name, name), re.S)
    assert pat.search(s), name
    s = pat.sub(lambda m: m.group(1) + body + m.group(2), s)
open(R + '/DESIGN.md', 'w').write(s)
print('seeded', len(rows) - 2, 'fixed', len(fixed), 'known', len(known))
