#!/usr/bin/env python3
"""mutprompt2.py <Cxx> [suffix] : second-round prompt (subtler changes, different mechanisms than the ones already kept)."""
import glob, json, subprocess, sys
pid = sys.argv[1]
suf = sys.argv[2] if len(sys.argv) > 2 else 'r2'
base = subprocess.run(['python3', '/verif/tools/mutprompt.py', pid], capture_output=True, text=True).stdout
prev = []
for m in sorted(glob.glob(f'/verif/seeded/{pid}-*/meta.json')):
    prev.append('- ' + json.load(open(m))['summary'][:300].replace('\n', ' '))
base = base.replace(f'/tmp/mut/{pid}', f'/tmp/mut/{pid}-{suf}').replace(f'/tmp/mutout/{pid}', f'/tmp/mutout/{pid}-{suf}')
head, rest = base.split('\n\n', 1)
note = ("This is a LATER round. Changes were already produced for this property in earlier rounds (by someone else); yours must use "
        "DIFFERENT mechanisms and should be subtler - prefer changes that need a longer sequence, a fault at one specific point, "
        "an interleaving, or two cooperating code sites:\n" + '\n'.join(prev))
print(head + '\n\n' + note + '\n\n' + rest)
