#!/usr/bin/env python3
"""keepmut.py <srcdir> <seeded-id> <detected-by text> : store a confirmed seeded change under /verif/seeded/<id>/"""
import json, os, shutil, sys
src, sid, det = sys.argv[1], sys.argv[2], sys.argv[3]
dst = os.path.join('/verif/seeded', sid)
os.makedirs(dst, exist_ok=True)
shutil.copy(os.path.join(src, 'patch.diff'), dst)
shutil.copy(os.path.join(src, 'demo_test.go'), os.path.join(dst, 'demo_test.go.txt'))
m = json.load(open(os.path.join(src, 'meta.json')))
m['breaks_property'] = m.get('property')
m['author'] = 'fresh sub-agent given only the property text and its own scratch worktree'
m['confirmed_by_me'] = 'tools/verifymut.sh (scratch worktree): demo passes on the clean tree, fails with patch.diff; existing tests of the touched packages pass with it'
m['what_i_ran'] = 'tools/trymut.sh patch.diff quick <checks> (git -C /repo apply; ./check ...; git -C /repo checkout -- .)'
m['detected_by'] = det
m['demo_file'] = 'demo_test.go.txt (copy to <demo_package_dir>/zz_demo_test.go to run)'
json.dump(m, open(os.path.join(dst, 'meta.json'), 'w'), indent=1)
print('kept', dst)
