#!/usr/bin/env python3
"""Compare C14's reference evaluator with python jsonschema (Draft 7) on the triples dumped by TestC14RefDump."""
import json, sys
import jsonschema
n = bad = inval = 0
for line in open(sys.argv[1]):
    d = json.loads(line)
    ok = jsonschema.Draft7Validator(d["schema"]).is_valid(d["values"])
    n += 1
    inval += (not ok)
    if ok != d["valid"]:
        bad += 1
        if bad <= 5:
            print("DISAGREE", json.dumps(d))
print("triples=%d invalid=%d disagreements=%d" % (n, inval, bad))
sys.exit(1 if bad else 0)
