#!/bin/bash
# runseeded.sh [pattern] [workers] : run every kept seeded change (matching pattern) against the quick check of its
# property, in scratch worktrees of /repo under /tmp (VERIF_ALT_REPO mode of ./check: /repo, the committed evidence and
# the replays directory are not touched). meta.json may name another property's check in "check_with" (the change was
# written against one property and is caught by the check of another) or "none" (kept, confirmed, and not detected). One line per change: DETECTED / MISSED / NOAPPLY. Worktrees are removed at the end.
cd /verif
pat=${1:-.}; workers=${2:-2}; tag=$$
ids=$(ls seeded | grep -E "$pat")
run_worker() {
  w=$1; shift
  wt=/tmp/mutrepo-$tag-$w   # (the process id keeps two invocations out of each other's worktrees)
  git -C /repo worktree remove --force $wt >/dev/null 2>&1
  git -C /repo worktree add -q --detach $wt HEAD || exit 1
  i=0
  for id in $ids; do
    i=$((i+1)); [ $((i % workers)) -eq $w ] || continue
    prop=$(python3 -c "import json;print(json.load(open('/verif/seeded/$id/meta.json')).get('check_with','${id%%-*}'))")
    if [ "$prop" = none ]; then echo "RECORDED-AS-NOT-DETECTED $id"; continue; fi
    git -C $wt checkout -q -- . ; git -C $wt clean -fdq
    if ! git -C $wt apply --check /verif/seeded/$id/patch.diff 2>/dev/null; then echo "NOAPPLY  $id"; continue; fi
    git -C $wt apply /verif/seeded/$id/patch.diff
    out=$(VERIF_ALT_REPO=$wt ./check $prop quick 2>&1); rc=$?
    if [ $rc -eq 1 ]; then echo "DETECTED $id $(echo "$out" | grep -m1 '^VIOLATION' | sed 's/.*replay=.*\///' | cut -c1-100)"; else echo "MISSED   $id rc=$rc"; fi
  done
  git -C /repo worktree remove --force $wt; rm -rf /verif/.work/alt-mutrepo-$tag-$w
}
for w in $(seq 0 $((workers-1))); do run_worker $w & done
wait
git -C /repo worktree prune
