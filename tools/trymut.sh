#!/bin/bash
# trymut.sh <patch.diff> <tier> <prop>... : apply a seeded change to /repo, run the checks, undo it straight afterwards.
P=$(realpath "$1"); TIER=$2; shift 2
cd /verif
git -C /repo status --short | grep -q . && { echo "/repo not clean"; exit 3; }
git -C /repo apply "$P" || exit 4
trap 'git -C /repo checkout -- . ; git -C /repo status --short' EXIT
for id in "$@"; do
  out=$(./check $id $TIER 2>/dev/null); rc=$?
  echo "$id rc=$rc"; echo "$out" | grep -E "^VIOLATION|INCONCLUSIVE|BUILD-FAILED" | head -5
done
