# Per-property run plan for ./check. Each test entry is one Go test function in ./props.
#   kind: rapid (default; "quick"/"thorough" = number of rapid cases, split over shards),
#         plain (ordinary Go test: enumerations, corpus replays; number passed as VERIF_P_CASES),
#         fuzz  (native go test -fuzz, thorough tier only, bounded by fuzztime seconds)
PROPS = {
    "C01": {
        "level": "fault_enumeration",
        "tests": [
            {"name": "TestC01", "quick": 1000, "thorough": 30000},
        ],
    },
    "C02": {
        "level": "exploration",
        "tests": [
            {"name": "TestC02", "quick": 1000, "thorough": 40000},
        ],
    },
    "C03": {
        "level": "fault_enumeration",
        "tests": [
            {"name": "TestC03", "quick": 1000, "thorough": 16000},
        ],
    },
    "C10": {
        "level": "exploration",
        "tests": [
            {"name": "TestC10", "quick": 800, "thorough": 20000},
        ],
    },
    "C12": {
        "level": "exploration",
        "tests": [
            {"name": "TestC12", "quick": 1500, "thorough": 40000},
        ],
    },
    "C06": {
        "level": "exploration",
        "tests": [
            {"name": "TestC06", "quick": 1500, "thorough": 100000},
            # the real command tree; every NewRootCmd call registers one more cobra initializer in the process, so the
            # cases are spread over many short-lived processes
            {"name": "TestC06CLI", "quick": 320, "thorough": 9600, "shards_quick": 16},
        ],
    },
    "C07": {
        "level": "exploration",
        "tests": [
            {"name": "TestC07", "quick": 2500, "thorough": 60000},
        ],
    },
    "C13": {
        "level": "exploration",
        "tests": [
            {"name": "TestC13", "quick": 1200, "thorough": 80000},
        ],
    },
    "C04": {
        "level": "exploration",
        "tests": [
            {"name": "TestC04A", "quick": 8000, "thorough": 600000, "shards_quick": 6},
            {"name": "TestC04B", "quick": 12000, "thorough": 800000, "shards_quick": 5},
            {"name": "TestC04C", "quick": 8000, "thorough": 600000, "shards_quick": 5},
        ],
    },
    "C11": {
        "level": "exploration",
        "tests": [
            {"name": "TestC11", "quick": 1500, "thorough": 300000},
            # complete truth table of the enablement rule for one dependency
            {"name": "TestC11Table", "kind": "plain", "quick": 1, "thorough": 1, "shards_quick": 4, "shards_thorough": 8},
        ],
    },
    "C17": {
        "level": "exploration",
        "tests": [
            {"name": "TestC17", "quick": 3000, "thorough": 120000},
        ],
    },
    "C14": {
        "level": "exploration",
        "tests": [
            {"name": "TestC14", "quick": 2000, "thorough": 80000},
        ],
    },
    "C18": {
        "level": "exploration",
        "tests": [
            {"name": "TestC18A", "quick": 8000, "thorough": 400000, "shards_quick": 4},
            {"name": "TestC18B", "quick": 8000, "thorough": 400000, "shards_quick": 4},
            {"name": "TestC18C", "quick": 20000, "thorough": 1000000, "shards_quick": 3},
            {"name": "TestC18D", "quick": 4000, "thorough": 200000, "shards_quick": 5},
        ],
    },
    "C19": {
        "level": "exploration",
        "tests": [
            {"name": "TestC19A", "quick": 1600, "thorough": 80000, "shards_quick": 3},
            {"name": "TestC19B", "quick": 1600, "thorough": 80000, "shards_quick": 3},
            {"name": "TestC19C", "quick": 1200, "thorough": 48000, "shards_quick": 3},
            {"name": "TestC19D", "quick": 1200, "thorough": 48000, "shards_quick": 4},
            {"name": "TestC19E", "quick": 1200, "thorough": 48000, "shards_quick": 3},
        ],
    },
    "C08": {
        "level": "exploration",
        "tests": [
            {"name": "TestC08A", "quick": 4000, "thorough": 600000, "shards_quick": 10},
            {"name": "TestC08B", "quick": 240, "thorough": 12000, "shards_quick": 6},
        ],
    },
    "C05": {
        "level": "exploration",
        "tests": [
            {"name": "TestC05A", "quick": 480, "thorough": 36000, "shards_quick": 12},
            {"name": "TestC05ARace", "quick": 60, "thorough": 2400, "race": True, "shards_quick": 6},
            {"name": "TestC05B", "quick": 400, "thorough": 24000, "shards_quick": 4},
        ],
    },
    "C09": {
        "level": "exploration",
        "tests": [
            {"name": "TestC09", "quick": 1600, "thorough": 60000, "shards_quick": 10},
            {"name": "TestC09Race", "quick": 120, "thorough": 4000, "race": True, "shards_quick": 6},
            {"name": "TestC09Preempt3", "kind": "plain", "quick": 1, "thorough": 1, "shards_quick": 6, "shards_thorough": 6},
            {"name": "TestC09Exhaustive", "kind": "plain", "quick": 1, "thorough": 1, "tiers": ("thorough",), "shards_thorough": 12},
        ],
    },
    "C16": {
        "level": "exploration",
        "tests": [
            {"name": "TestC16A", "quick": 2000, "thorough": 120000, "shards_quick": 8},
            {"name": "TestC16B", "quick": 2000, "thorough": 80000, "shards_quick": 4},
            {"name": "TestC16C", "quick": 300, "thorough": 6000, "shards_quick": 4},
            # committed seed corpus of the native fuzz targets, replayed as ordinary tests (cwd = package directory)
            {"name": "FuzzC16Expand", "kind": "plain", "quick": 1, "thorough": 1, "cwd_props": True},
            {"name": "FuzzC16Extract", "kind": "plain", "quick": 1, "thorough": 1, "cwd_props": True},
            {"name": "FuzzC16Expand", "kind": "fuzz", "fuzztime": 180, "tiers": ("thorough",)},
            {"name": "FuzzC16Extract", "kind": "fuzz", "fuzztime": 180, "tiers": ("thorough",)},
        ],
    },
    "C20": {
        "level": "exploration",
        "tests": [
            {"name": "TestC20", "quick": 6000, "thorough": 600000},
        ] + [{"name": n, "kind": "fuzz", "fuzztime": 120, "tiers": ("thorough",)} for n in (
            "FuzzC20Strvals", "FuzzC20Values", "FuzzC20Index", "FuzzC20Manifests", "FuzzC20Ignore", "FuzzC20Plugin", "FuzzC20Records", "FuzzC20Schema", "FuzzC20ChartYaml")],
    },
    "C15": {
        "level": "exploration",
        "tests": [
            {"name": "TestC15A", "quick": 3000, "thorough": 100000, "shards_quick": 8},
            {"name": "TestC15B", "quick": 4000, "thorough": 100000, "shards_quick": 5},
            {"name": "TestC15C", "quick": 3000, "thorough": 50000, "shards_quick": 3},
        ],
    },
}
