// Package vt holds the small amount of glue every property file uses: tier/case-count parameters passed by
// the driver, the known-findings list, and the single place where an oracle failure becomes either
// "excluded (listed known finding)" or a VIOLATION with a written replay.
package vt

import (
	"crypto/sha256"
	"encoding/hex"
	"encoding/json"
	"fmt"
	"os"
	"path/filepath"
	"regexp"
	"strconv"
	"strings"
	"sync"

	"verif/internal/evid"
)

// TB is the subset of testing.TB / rapid.T the helpers need.
type TB interface {
	Fatalf(format string, args ...any)
	Logf(format string, args ...any)
}

// Tier returns "quick" or "thorough".
func Tier() string {
	if os.Getenv("VERIF_TIER") == "thorough" {
		return "thorough"
	}
	return "quick"
}

// Thorough reports whether the thorough tier is running.
func Thorough() bool { return Tier() == "thorough" }

// IntEnv reads an integer parameter the driver passes (VERIF_P_<name>), with a default for direct `go test` use.
func IntEnv(name string, def int) int {
	if v := os.Getenv("VERIF_P_" + name); v != "" {
		if n, err := strconv.Atoi(v); err == nil {
			return n
		}
	}
	return def
}

// Finding is one entry of /verif/known_findings.json.
type Finding struct {
	Property  string `json:"property"`
	Signature string `json:"signature"`
	Status    string `json:"status"` // "known" or "fixed"
	What      string `json:"what"`
	Replay    string `json:"replay,omitempty"`
	Line      string `json:"line,omitempty"`
}

var (
	knownOnce sync.Once
	known     = map[string]bool{}
)

func loadKnown() {
	path := os.Getenv("VERIF_KNOWN")
	if path == "" {
		path = "/verif/known_findings.json"
	}
	b, err := os.ReadFile(path)
	if err != nil {
		return
	}
	var doc struct {
		Entries []Finding `json:"entries"`
	}
	if json.Unmarshal(b, &doc) != nil {
		return
	}
	for _, f := range doc.Entries {
		if f.Status == "known" { // "fixed" entries suppress nothing
			known[f.Signature] = true
		}
	}
}

// IsKnown reports whether sig is a listed (unrepaired) known finding.
func IsKnown(sig string) bool {
	knownOnce.Do(loadKnown)
	if ignoreKnown || os.Getenv("VERIF_IGNORE_KNOWN") == "1" { // the known-finding replays themselves
		return false
	}
	return known[sig]
}

var slugRe = regexp.MustCompile(`[^A-Za-z0-9_.-]+`)

// Violation reports an oracle failure with root-cause signature sig.
// If sig is a listed known finding it is counted as excluded and Violation returns true: the caller must cut
// the case there (nothing after a known violation is judged). Otherwise the replay is written and the test fails.
func Violation(t TB, sig, detail string, replay interface{}) bool {
	if IsKnown(sig) {
		evid.Excluded(sig)
		return true
	}
	path := WriteReplay(sig, detail, replay)
	t.Fatalf("VIOLATION-SIG[%s] replay-json=%s\n%s", sig, path, detail)
	return false
}

// WriteReplay writes the human-readable case description. The file name depends on the signature only, so the
// last (smallest) case rapid executes while shrinking overwrites the earlier ones.
func WriteReplay(sig, detail string, replay interface{}) string {
	dir := os.Getenv("VERIF_REPLAY_DIR")
	if dir == "" {
		return ""
	}
	_ = os.MkdirAll(dir, 0o755)
	h := sha256.Sum256([]byte(sig))
	name := strings.Trim(slugRe.ReplaceAllString(sig, "_"), "_")
	if len(name) > 80 {
		name = name[:80]
	}
	path := filepath.Join(dir, name+"-"+hex.EncodeToString(h[:4])+".json")
	doc := map[string]interface{}{"signature": sig, "detail": detail, "case": replay}
	b, err := json.MarshalIndent(doc, "", " ")
	if err != nil {
		b, _ = json.MarshalIndent(map[string]interface{}{"signature": sig, "detail": detail, "case": fmt.Sprintf("%+v", replay)}, "", " ")
	}
	_ = os.WriteFile(path, b, 0o644)
	return path
}

// KnownRepro is printed by the known-finding replay tests; the driver turns it into a KNOWN-FINDING line.
func KnownRepro(t TB, sig string, reproduced bool, what string) {
	if reproduced {
		fmt.Printf("KNOWN-REPRO sig=%s :: %s\n", sig, what)
	} else {
		fmt.Printf("KNOWN-GONE sig=%s :: %s\n", sig, what)
	}
}

type capTB struct{ msg string }
type capAbort struct{}

func (c *capTB) Fatalf(f string, a ...any) { c.msg = fmt.Sprintf(f, a...); panic(capAbort{}) }
func (c *capTB) Logf(string, ...any)       {}

var ignoreKnown bool

// Capture runs fn with a TB that records the first Fatalf instead of failing a test; listed known findings are
// NOT excluded while it runs. It returns the failure message ("" if fn completed). Used to re-execute the concrete
// replay of each known finding at the start of a check.
func Capture(fn func(tb TB)) (msg string) {
	c := &capTB{}
	ignoreKnown = true
	defer func() {
		ignoreKnown = false
		if r := recover(); r != nil {
			if _, ok := r.(capAbort); ok {
				msg = c.msg
				return
			}
			msg = fmt.Sprintf("PANIC: %v", r)
		}
	}()
	fn(c)
	return ""
}

// CheckKnown re-executes a known finding's concrete case and prints whether its signature still fires.
func CheckKnown(sig, what string, fn func(tb TB)) {
	msg := Capture(fn)
	KnownRepro(nil, sig, strings.Contains(msg, "VIOLATION-SIG["+sig+"]"), what)
}
