package world

import (
	"bytes"
	"context"
	"errors"
	"fmt"
	"io"
	"log"
	"log/slog"
	"net/http"
	"net/url"
	"sort"
	"strings"
	"sync"
	"time"

	"k8s.io/apimachinery/pkg/api/meta"
	"k8s.io/apimachinery/pkg/runtime"
	"k8s.io/apimachinery/pkg/runtime/schema"
	"k8s.io/cli-runtime/pkg/resource"
	"k8s.io/client-go/discovery"
	"k8s.io/client-go/rest"
	"k8s.io/client-go/rest/fake"
	"k8s.io/client-go/restmapper"
	cmdtesting "k8s.io/kubectl/pkg/cmd/testing"

	"helm.sh/helm/v4/pkg/action"
	chart "helm.sh/helm/v4/pkg/chart/v2"
	chartutil "helm.sh/helm/v4/pkg/chart/v2/util"
	"helm.sh/helm/v4/pkg/kube"
	release "helm.sh/helm/v4/pkg/release/v1"
	"helm.sh/helm/v4/pkg/storage"
	"helm.sh/helm/v4/pkg/storage/driver"
)

// Quiet silences Helm's logging (slog, log) for the test process.
func Quiet() {
	slog.SetDefault(slog.New(slog.NewTextHandler(io.Discard, nil)))
	log.SetOutput(io.Discard)
}

var unstructuredSerializer = resource.UnstructuredPlusDefaultContentConfig().NegotiatedSerializer
var baseURL = func() *url.URL { u, _ := url.Parse("http://sim.local"); return u }()

// Client is the production kube.Client with only the waiter replaced by the scripted one.
type Client struct {
	*kube.Client
	W kube.Waiter
}

// GetWaiter returns the scripted waiter for the strategies the production client accepts, and the production
// client's error for any other value (so an action that forgets to pass a strategy on fails here as it would for real).
func (c *Client) GetWaiter(s kube.WaitStrategy) (kube.Waiter, error) {
	switch s {
	case kube.LegacyStrategy, kube.StatusWatcherStrategy, kube.HookOnlyStrategy:
		return c.W, nil
	}
	return nil, errors.New("unknown wait strategy")
}

var factoryMu sync.Mutex

// simFactory is kubectl's TestFactory with a REST mapper that also knows CustomResourceDefinition (cluster scoped)
// and one custom kind (Widget.example.com, namespaced), so charts with a crds/ directory can be exercised.
type simFactory struct {
	*cmdtesting.TestFactory
	clientFor func(gv schema.GroupVersion) (resource.RESTClient, error)
}

func (f *simFactory) ToRESTMapper() (meta.RESTMapper, error) {
	base, err := f.TestFactory.ToRESTMapper()
	if err != nil {
		return nil, err
	}
	extra := meta.NewDefaultRESTMapper(nil)
	extra.Add(schema.GroupVersionKind{Group: "apiextensions.k8s.io", Version: "v1", Kind: "CustomResourceDefinition"}, meta.RESTScopeRoot)
	extra.Add(schema.GroupVersionKind{Group: "example.com", Version: "v1", Kind: "Widget"}, meta.RESTScopeNamespace)
	return meta.FirstHitRESTMapper{MultiRESTMapper: meta.MultiRESTMapper{base, extra}}, nil
}

// ToDiscoveryClient returns a usable (fake) cached discovery client; install invalidates it after creating CRDs.
func (f *simFactory) ToDiscoveryClient() (discovery.CachedDiscoveryInterface, error) {
	return cmdtesting.NewFakeCachedDiscoveryClient(), nil
}

func (f *simFactory) NewBuilder() *resource.Builder {
	return resource.NewFakeBuilder(f.clientFor, f.ToRESTMapper, func() (restmapper.CategoryExpander, error) {
		return resource.FakeCategoryExpander, nil
	})
}

// NewKubeClient wires the real kube.Client to a RoundTripper.
func NewKubeClient(rt http.RoundTripper, w kube.Waiter) (*Client, *simFactory, func()) {
	hc := &http.Client{Transport: rt}
	factoryMu.Lock() // NewTestFactory touches process-wide temp files / env; keep construction serial
	tf := cmdtesting.NewTestFactory().WithNamespace("default")
	factoryMu.Unlock()
	tf.Client = &fake.RESTClient{NegotiatedSerializer: unstructuredSerializer, Client: hc}
	clientFor := func(gv schema.GroupVersion) (resource.RESTClient, error) {
		cc := rest.ClientContentConfig{ContentType: runtime.ContentTypeJSON, GroupVersion: gv, Negotiator: runtime.NewClientNegotiator(unstructuredSerializer, gv)}
		apiPath := "/apis/" + gv.String()
		if gv.Group == "" {
			apiPath = "/api/" + gv.Version
		}
		base := *baseURL
		return rest.NewRESTClient(&base, apiPath, cc, nil, hc)
	}
	tf.UnstructuredClientForMappingFunc = clientFor
	sf := &simFactory{TestFactory: tf, clientFor: clientFor}
	kc := &Client{Client: &kube.Client{Factory: sf, Namespace: "default"}, W: w}
	return kc, sf, func() { factoryMu.Lock(); tf.Cleanup(); factoryMu.Unlock() }
}

// World is one cluster + one release store.
type World struct {
	Log     *Log
	Cluster *Cluster
	Backend *Backend
	Name    string // release name
	nextOp  int
}

// New creates an empty world on the given backend kind.
func New(backend string) *World {
	l := &Log{}
	return &World{Log: l, Cluster: NewCluster(l), Backend: NewBackend(backend), Name: "r"}
}

// Clone deep-copies cluster and persisted store (fresh log).
func (w *World) Clone() *World {
	l := &Log{}
	return &World{Log: l, Cluster: w.Cluster.Clone(l), Backend: w.Backend.Clone(), Name: w.Name, nextOp: w.nextOp}
}

// RawDriver is the backend as an operation sees it before wrapping (memory persists copies).
func (w *World) RawDriver() driver.Driver {
	if w.Backend.Kind == "memory" {
		return SnapshotDriver{w.Backend.Driver}
	}
	return w.Backend.Driver
}

// Rev is the observable part of one stored revision.
type Rev struct {
	Version  int              `json:"rev"`
	Status   string           `json:"status"`
	Manifest string           `json:"-"`
	Rel      *release.Release `json:"-"`
}

// History reads the stored history of the release directly from the backend (not logged, never faulted).
func (w *World) History() []Rev {
	h, _ := storage.Init(w.RawDriver()).History(w.Name)
	sort.Slice(h, func(i, j int) bool { return h[i].Version < h[j].Version })
	out := make([]Rev, 0, len(h))
	for _, r := range h {
		out = append(out, Rev{Version: r.Version, Status: r.Info.Status.String(), Manifest: r.Manifest, Rel: r})
	}
	return out
}

// HistString renders a history compactly.
func HistString(h []Rev) string {
	var sb strings.Builder
	for i, r := range h {
		if i > 0 {
			sb.WriteString(" ")
		}
		fmt.Fprintf(&sb, "%d:%s", r.Version, r.Status)
	}
	return "[" + sb.String() + "]"
}

// Op is one generated operation.
type Op struct {
	Kind           string                 `json:"op"` // install | upgrade | rollback | uninstall
	Atomic         bool                   `json:"atomic,omitempty"`
	Replace        bool                   `json:"replace,omitempty"`
	CleanupOnFail  bool                   `json:"cleanupOnFail,omitempty"`
	DisableHooks   bool                   `json:"noHooks,omitempty"`
	KeepHistory    bool                   `json:"keepHistory,omitempty"`
	Force          bool                   `json:"force,omitempty"`
	TakeOwnership  bool                   `json:"takeOwnership,omitempty"`
	MaxHistory     int                    `json:"maxHistory,omitempty"`
	Target         int                    `json:"target,omitempty"` // rollback revision (0 = previous)
	DryRun         bool                   `json:"dryRun,omitempty"`
	DryRunOption   string                 `json:"dryRunOption,omitempty"`
	ClientOnly     bool                   `json:"clientOnly,omitempty"`
	CreateNS       bool                   `json:"createNamespace,omitempty"`
	WaitForJobs    bool                   `json:"waitForJobs,omitempty"`
	SkipCRDs       bool                   `json:"skipCRDs,omitempty"`
	IncludeCRDs    bool                   `json:"includeCRDs,omitempty"`
	SkipSchema     bool                   `json:"skipSchema,omitempty"`
	SubNotes       bool                   `json:"subNotes,omitempty"`
	ResetValues    bool                   `json:"resetValues,omitempty"`
	ReuseValues    bool                   `json:"reuseValues,omitempty"`
	ResetThenReuse bool                   `json:"resetThenReuse,omitempty"`
	Description    string                 `json:"description,omitempty"`
	Labels         map[string]string      `json:"labels,omitempty"`
	PostRender     bool                   `json:"postRender,omitempty"`
	HideSecret     bool                   `json:"hideSecret,omitempty"`
	IsUpgrade      bool                   `json:"isUpgrade,omitempty"`
	Chart          ChartSpec              `json:"chart"`
	Values         map[string]interface{} `json:"values,omitempty"`
	Fault          Fault                  `json:"fault,omitempty"`
	// Also: a second fault (kind kubematch only), see OpCtx.Also
	Also Fault `json:"also,omitempty"`
	// Timeout of the operation (0 = none, the action default)
	Timeout time.Duration `json:"timeout,omitempty"`
	// CtxCancelled: install / upgrade run with a context that is already cancelled (Ctrl-C while the chart rendered)
	CtxCancelled bool `json:"ctxCancelled,omitempty"`
	// Interject makes another actor create an object while the operation runs: right before the operation's
	// AtKube-th cluster request is processed (only if no object exists at that path then).
	Interject *Interject `json:"interject,omitempty"`
	// ChartFn, when set, builds the chart object instead of Chart.Build() (properties with their own chart generators).
	ChartFn func() *chart.Chart `json:"-"`
	// Customize lets a property adjust the action object (e.g. set fields the Op does not model).
	Customize func(a interface{}) `json:"-"`
	// Gate is installed on the operation's context (schedulers).
	Gate func(layer, verb, key string) `json:"-"`
}

// Interject is an out-of-band object creation in the middle of an operation.
type Interject struct {
	AtKube int                    `json:"atKube"`
	Path   string                 `json:"path"`
	Object map[string]interface{} `json:"object"`
	Done   bool                   `json:"-"`
}

func (o *Op) buildChart() *chart.Chart {
	if o.ChartFn != nil {
		return o.ChartFn()
	}
	return o.Chart.Build()
}

// Describe renders the op for traces.
func (o *Op) Describe() string {
	var fl []string
	add := func(b bool, s string) {
		if b {
			fl = append(fl, s)
		}
	}
	add(o.Atomic, "atomic")
	add(o.CtxCancelled, "context-cancelled")
	add(o.Replace, "replace")
	add(o.CleanupOnFail, "cleanup-on-fail")
	add(o.DisableHooks, "no-hooks")
	add(o.KeepHistory, "keep-history")
	add(o.Force, "force")
	add(o.TakeOwnership, "take-ownership")
	add(o.DryRun, "dry-run")
	add(o.ClientOnly, "client-only")
	add(o.ResetValues, "reset-values")
	add(o.ReuseValues, "reuse-values")
	add(o.ResetThenReuse, "reset-then-reuse-values")
	if o.DryRunOption != "" {
		fl = append(fl, "dry-run="+o.DryRunOption)
	}
	if o.MaxHistory != 0 {
		fl = append(fl, fmt.Sprintf("max-history=%d", o.MaxHistory))
	}
	add(o.CreateNS, "create-namespace")
	if o.Timeout != 0 {
		fl = append(fl, fmt.Sprintf("timeout=%s", o.Timeout))
	}
	if o.Also.Kind != "" {
		fl = append(fl, fmt.Sprintf("also-rejected=%s %s", o.Also.Verb, o.Also.Path))
	}
	s := o.Kind
	switch o.Kind {
	case "install", "upgrade":
		var rs []string
		for _, r := range o.Chart.Resources {
			p := ""
			if r.Policy != "" {
				p = "{" + r.Policy + "}"
			}
			if r.APIVer != "" {
				p += "<" + r.APIVer + ">"
			}
			rs = append(rs, fmt.Sprintf("%s.%d%s", r.Key(), r.Variant, p))
		}
		s += fmt.Sprintf(" chart#%d%v", o.Chart.Version, rs)
		if len(o.Chart.Hooks) > 0 {
			s += fmt.Sprintf(" hooks=%d", len(o.Chart.Hooks))
		}
	case "rollback":
		s += fmt.Sprintf(" to=%d", o.Target)
	}
	if len(fl) > 0 {
		s += " " + strings.Join(fl, ",")
	}
	if o.Fault.Kind != "" {
		s += " fault=" + o.Fault.String()
	}
	if o.Interject != nil {
		s += fmt.Sprintf(" interject(%s before request %d)", o.Interject.Path[strings.LastIndex(o.Interject.Path, "/")+1:], o.Interject.AtKube)
	}
	return s
}

// Result is what one operation did.
type Result struct {
	ID      int
	Err     error
	Rel     *release.Release
	Uninst  *release.UninstallReleaseResponse
	Events  []Event
	Fired   bool
	Crashed bool
	KubeN   int
	WaitN   int
	StoreN  int
	ExtN    int
	Pre     []Rev
	Post    []Rev
	Panic   interface{}
}

// Mutations returns the cluster writes the operation made that the cluster accepted.
func (r *Result) Mutations() []Event {
	var out []Event
	for _, e := range r.Events {
		if e.Mutating() && !e.Injected && !e.DryRun {
			out = append(out, e)
		}
	}
	return out
}

// StoreWrites returns the storage writes attempted by the operation.
func (r *Result) StoreWrites() []Event {
	var out []Event
	for _, e := range r.Events {
		if e.StoreWrite() {
			out = append(out, e)
		}
	}
	return out
}

type postRenderer struct{}

func (postRenderer) Run(in *bytes.Buffer) (*bytes.Buffer, error) {
	return bytes.NewBufferString(in.String() + "\n# post-rendered\n"), nil
}

// NewConfig builds a fresh action.Configuration for one operation (as each CLI invocation would).
func (w *World) NewConfig(ctx *OpCtx) (*action.Configuration, func()) {
	tr := &Transport{C: w.Cluster, Ctx: ctx}
	kc, sf, cleanup := NewKubeClient(tr, &Waiter{Ctx: ctx, Log: w.Log})
	cfg := &action.Configuration{
		RESTClientGetter: sf,
		Releases:         storage.Init(&Store{Driver: w.RawDriver(), Ctx: ctx, Log: w.Log}),
		KubeClient:       kc,
		Capabilities:     chartutil.DefaultCapabilities.Copy(),
	}
	return cfg, cleanup
}

// Run executes one operation with a fresh Configuration, chart object and context.
func (w *World) Run(op *Op) *Result {
	w.nextOp++
	ctx := &OpCtx{ID: w.nextOp, Fault: op.Fault, Also: op.Also, Gate: op.Gate}
	if ij := op.Interject; ij != nil {
		n := 0
		inner := op.Gate
		ij.Done = false
		ctx.Gate = func(layer, verb, key string) {
			if layer == "kube" {
				if n == ij.AtKube && w.Cluster.Get(ij.Path) == nil {
					w.Cluster.Put(ij.Path, ij.Object)
					ij.Done = true
				}
				n++
			}
			if inner != nil {
				inner(layer, verb, key)
			}
		}
	}
	res := &Result{ID: ctx.ID, Pre: w.History()}
	start := w.Log.Len()
	cfg, cleanup := w.NewConfig(ctx)
	defer cleanup()
	func() {
		defer func() {
			if p := recover(); p != nil {
				res.Panic = p
				res.Err = fmt.Errorf("PANIC: %v", p)
			}
		}()
		vals := map[string]interface{}{}
		if op.Values != nil {
			vals = deepCopyJSON(op.Values)
		}
		runCtx := context.Background()
		if op.CtxCancelled {
			c, cancel := context.WithCancel(runCtx)
			cancel()
			runCtx = c
		}
		switch op.Kind {
		case "install":
			a := action.NewInstall(cfg)
			a.ReleaseName, a.Namespace = w.Name, "default"
			a.Atomic, a.Replace, a.DisableHooks, a.Force, a.TakeOwnership = op.Atomic, op.Replace, op.DisableHooks, op.Force, op.TakeOwnership
			a.DryRun, a.DryRunOption, a.ClientOnly, a.CreateNamespace = op.DryRun, op.DryRunOption, op.ClientOnly, op.CreateNS
			a.WaitForJobs, a.SkipCRDs, a.IncludeCRDs, a.SkipSchemaValidation, a.SubNotes = op.WaitForJobs, op.SkipCRDs, op.IncludeCRDs, op.SkipSchema, op.SubNotes
			a.Description, a.Labels = op.Description, op.Labels
			a.HideSecret, a.IsUpgrade = op.HideSecret, op.IsUpgrade
			a.WaitStrategy = kube.StatusWatcherStrategy
			a.Timeout = op.Timeout
			if op.PostRender {
				a.PostRenderer = postRenderer{}
			}
			if op.Customize != nil {
				op.Customize(a)
			}
			res.Rel, res.Err = a.RunWithContext(runCtx, op.buildChart(), vals)
		case "upgrade":
			a := action.NewUpgrade(cfg)
			a.Namespace = "default"
			a.Atomic, a.CleanupOnFail, a.DisableHooks, a.Force, a.TakeOwnership, a.MaxHistory = op.Atomic, op.CleanupOnFail, op.DisableHooks, op.Force, op.TakeOwnership, op.MaxHistory
			a.DryRun, a.DryRunOption = op.DryRun, op.DryRunOption
			a.WaitForJobs, a.SkipCRDs, a.SkipSchemaValidation, a.SubNotes = op.WaitForJobs, op.SkipCRDs, op.SkipSchema, op.SubNotes
			a.ResetValues, a.ReuseValues, a.ResetThenReuseValues = op.ResetValues, op.ReuseValues, op.ResetThenReuse
			a.Description, a.Labels = op.Description, op.Labels
			a.HideSecret = op.HideSecret
			a.WaitStrategy = kube.StatusWatcherStrategy
			a.Timeout = op.Timeout
			if op.PostRender {
				a.PostRenderer = postRenderer{}
			}
			if op.Customize != nil {
				op.Customize(a)
			}
			res.Rel, res.Err = a.RunWithContext(runCtx, w.Name, op.buildChart(), vals)
		case "rollback":
			a := action.NewRollback(cfg)
			a.Version, a.CleanupOnFail, a.DisableHooks, a.Force, a.MaxHistory, a.DryRun = op.Target, op.CleanupOnFail, op.DisableHooks, op.Force, op.MaxHistory, op.DryRun
			a.WaitForJobs = op.WaitForJobs
			a.WaitStrategy = kube.StatusWatcherStrategy
			a.Timeout = op.Timeout
			if op.Customize != nil {
				op.Customize(a)
			}
			res.Err = a.Run(w.Name)
		case "uninstall":
			a := action.NewUninstall(cfg)
			a.KeepHistory, a.DisableHooks, a.DryRun = op.KeepHistory, op.DisableHooks, op.DryRun
			a.Description = op.Description
			a.WaitStrategy = kube.StatusWatcherStrategy
			a.Timeout = op.Timeout
			if op.Customize != nil {
				op.Customize(a)
			}
			res.Uninst, res.Err = a.Run(w.Name)
		default:
			panic("unknown op " + op.Kind)
		}
	}()
	ctx.mu.Lock()
	res.Fired, res.Crashed = ctx.Fired, ctx.Crashed && ctx.Fault.Kind == "crash"
	res.KubeN, res.WaitN, res.StoreN, res.ExtN = ctx.KubeN, ctx.WaitN, ctx.StoreN, ctx.ExtN
	// anything the (dead) operation's stray goroutines still attempt must have no effect
	ctx.Freeze = true
	ctx.mu.Unlock()
	all := w.Log.Events()
	res.Events = all[start:]
	res.Post = w.History()
	return res
}

// Count runs the op without fault on a clone and returns the number of calls per layer it makes.
func (w *World) Count(op *Op) (kubeN, waitN, storeN, extN int) {
	c := w.Clone()
	o := *op
	o.Fault = Fault{}
	r := c.Run(&o)
	return r.KubeN, r.WaitN, r.StoreN, r.ExtN
}

// DryCount runs the op without fault on a clone and returns the clone's result (its event list tells which call sits
// at which position, so a generator can aim a fault at - or away from - a particular call).
func (w *World) DryCount(op *Op) *Result {
	c := w.Clone()
	o := *op
	o.Fault = Fault{}
	return c.Run(&o)
}

// ConcResult is what one of several concurrently run operations did.
type ConcResult struct {
	ID     int
	Err    error
	Rel    *release.Release
	Events []Event
	Panic  interface{}
}

// ErrSchedulerStuck is returned when the controlled schedule made no progress within the watchdog period
// (inconclusive, never a verdict).
var ErrSchedulerStuck = errors.New("scheduler watchdog expired")

// RunConcurrent runs the operations at the same time, each with its own Configuration, and serialises them at the
// granularity of individual storage calls, cluster requests and waiter calls: every such call blocks until the scheduler
// grants it. pick chooses which of the currently blocked operations proceeds next (indexes into the ops slice, ascending);
// it is called once per granted call, so the sequence of its answers is the schedule. Operations must issue one call at a
// time (one resource per kind, no concurrency inside an operation).
func (w *World) RunConcurrent(ops []*Op, pick func(step int, waiting []int) int, watchdog time.Duration) ([]*ConcResult, []int, error) {
	type ev struct {
		op   int
		done bool
	}
	events := make(chan ev, len(ops)*4)
	grants := make([]chan struct{}, len(ops))
	results := make([]*ConcResult, len(ops))
	start := w.Log.Len()
	var wg sync.WaitGroup
	for i, op := range ops {
		i, op := i, op
		grants[i] = make(chan struct{})
		w.nextOp++
		id := w.nextOp
		results[i] = &ConcResult{ID: id}
		ctx := &OpCtx{ID: id, Fault: op.Fault}
		ctx.Gate = func(layer, verb, key string) {
			events <- ev{op: i}
			<-grants[i]
		}
		wg.Add(1)
		go func() {
			defer wg.Done()
			defer func() { events <- ev{op: i, done: true} }()
			cfg, cleanup := w.NewConfig(ctx)
			defer cleanup()
			defer func() {
				if p := recover(); p != nil {
					results[i].Panic = p
					results[i].Err = fmt.Errorf("PANIC: %v", p)
				}
			}()
			switch op.Kind {
			case "install":
				a := action.NewInstall(cfg)
				a.ReleaseName, a.Namespace = w.Name, "default"
				a.Atomic, a.Replace, a.DisableHooks = op.Atomic, op.Replace, op.DisableHooks
				a.WaitStrategy = kube.StatusWatcherStrategy
				results[i].Rel, results[i].Err = a.Run(op.buildChart(), map[string]interface{}{})
			case "upgrade":
				a := action.NewUpgrade(cfg)
				a.Namespace = "default"
				a.Atomic, a.CleanupOnFail, a.DisableHooks, a.MaxHistory = op.Atomic, op.CleanupOnFail, op.DisableHooks, op.MaxHistory
				a.WaitStrategy = kube.StatusWatcherStrategy
				results[i].Rel, results[i].Err = a.Run(w.Name, op.buildChart(), map[string]interface{}{})
			default:
				panic("RunConcurrent supports install and upgrade")
			}
		}()
	}
	state := make([]int, len(ops)) // 0 running, 1 waiting, 2 done
	running := len(ops)
	var schedule []int
	step := 0
	timer := time.NewTimer(watchdog)
	defer timer.Stop()
	finish := func() {
		// release everything so no goroutine stays parked
		for i := range ops {
			if state[i] != 2 {
				close(grants[i])
			}
		}
	}
	for {
		for running > 0 {
			select {
			case e := <-events:
				if e.done {
					if state[e.op] == 0 {
						running--
					}
					state[e.op] = 2
				} else {
					state[e.op] = 1
					running--
				}
			case <-timer.C:
				finish()
				return nil, schedule, ErrSchedulerStuck
			}
		}
		var waiting []int
		for i := range ops {
			if state[i] == 1 {
				waiting = append(waiting, i)
			}
		}
		if len(waiting) == 0 {
			break
		}
		choice := waiting[pick(step, waiting)%len(waiting)]
		step++
		schedule = append(schedule, choice)
		state[choice] = 0
		running = 1
		grants[choice] <- struct{}{}
	}
	wg.Wait()
	all := w.Log.Events()[start:]
	for _, r := range results {
		for _, e := range all {
			if e.Op == r.ID {
				r.Events = append(r.Events, e)
			}
		}
	}
	return results, schedule, nil
}
