package world

import (
	"context"
	"encoding/json"
	"fmt"
	"sort"
	"time"

	corev1 "k8s.io/api/core/v1"
	metav1 "k8s.io/apimachinery/pkg/apis/meta/v1"
	k8sfake "k8s.io/client-go/kubernetes/fake"
	corev1client "k8s.io/client-go/kubernetes/typed/core/v1"

	"helm.sh/helm/v4/pkg/kube"
	release "helm.sh/helm/v4/pkg/release/v1"
	"helm.sh/helm/v4/pkg/storage"
	"helm.sh/helm/v4/pkg/storage/driver"
)

// Store wraps a real storage driver for one operation: records, injects, gates.
type Store struct {
	driver.Driver
	Ctx *OpCtx
	Log *Log
}

// before registers a storage call; returns (event, error to return instead of calling the driver).
func (s *Store) before(verb, key, note string, write bool) (Event, error) {
	arrive := s.Log.tick()
	if g := s.Ctx.Gate; g != nil {
		g("store", verb, key)
	}
	s.Ctx.mu.Lock()
	defer s.Ctx.mu.Unlock()
	ev := Event{Op: s.Ctx.ID, Layer: "store", Verb: verb, Key: key, Note: note, Arrive: arrive}
	if s.Ctx.ext() {
		ev.Code, ev.Injected = 1, true
		ev.Note += " dead"
		s.Log.add(ev)
		return ev, errCrashed
	}
	f := s.Ctx.Fault
	if f.Kind == "store" && (write || f.StoreReads) {
		k := s.Ctx.StoreN
		s.Ctx.StoreN++
		if k == f.K {
			s.Ctx.Fired = true
			ev.Code, ev.Injected = 1, true
			s.Log.add(ev)
			return ev, errInjectedStore
		}
	} else if write {
		s.Ctx.StoreN++
	}
	return ev, nil
}

func (s *Store) after(ev Event, err error) {
	if err != nil {
		ev.Code = 1
	}
	s.Log.add(ev)
}

func (s *Store) Create(key string, r *release.Release) error {
	ev, err := s.before("Create", key, r.Info.Status.String(), true)
	if err != nil {
		return err
	}
	err = s.Driver.Create(key, r)
	s.after(ev, err)
	return err
}

func (s *Store) Update(key string, r *release.Release) error {
	ev, err := s.before("Update", key, r.Info.Status.String(), true)
	if err != nil {
		return err
	}
	err = s.Driver.Update(key, r)
	s.after(ev, err)
	return err
}

func (s *Store) Delete(key string) (*release.Release, error) {
	ev, err := s.before("Delete", key, "", true)
	if err != nil {
		return nil, err
	}
	r, err := s.Driver.Delete(key)
	s.after(ev, err)
	return r, err
}

func (s *Store) Get(key string) (*release.Release, error) {
	ev, err := s.before("Get", key, "", false)
	if err != nil {
		return nil, err
	}
	r, err := s.Driver.Get(key)
	s.after(ev, err)
	return r, err
}

func (s *Store) Query(l map[string]string) ([]*release.Release, error) {
	b, _ := json.Marshal(l)
	ev, err := s.before("Query", string(b), "", false)
	if err != nil {
		return nil, err
	}
	r, err := s.Driver.Query(l)
	s.after(ev, err)
	return r, err
}

func (s *Store) List(f func(*release.Release) bool) ([]*release.Release, error) {
	ev, err := s.before("List", "", "", false)
	if err != nil {
		return nil, err
	}
	r, err := s.Driver.List(f)
	s.after(ev, err)
	return r, err
}

// Waiter is the scripted kube.Waiter.
type Waiter struct {
	Ctx *OpCtx
	Log *Log
}

func names(rl kube.ResourceList) string {
	var ns []string
	for _, r := range rl {
		kind := ""
		if r.Mapping != nil {
			kind = r.Mapping.GroupVersionKind.Kind
		}
		ns = append(ns, kind+"/"+r.Name)
	}
	sort.Strings(ns)
	return fmt.Sprint(ns)
}

func (w *Waiter) hit(verb string, rl kube.ResourceList) error {
	key := names(rl)
	if g := w.Ctx.Gate; g != nil {
		g("wait", verb, key)
	}
	arrive := w.Log.tick()
	w.Ctx.mu.Lock()
	defer w.Ctx.mu.Unlock()
	ev := Event{Op: w.Ctx.ID, Layer: "wait", Verb: verb, Key: key, Arrive: arrive}
	if w.Ctx.Freeze || w.Ctx.Crashed {
		ev.Code, ev.Injected = 1, true
		w.Log.add(ev)
		return errCrashed
	}
	k := w.Ctx.WaitN
	w.Ctx.WaitN++
	f := w.Ctx.Fault
	inject := false
	switch f.Kind {
	case "wait":
		inject = k == f.K
	case "waitmatch":
		if !w.Ctx.Fired && f.Verb == verb {
			for _, r := range rl {
				if r.Name == f.Path {
					inject = true
				}
			}
		}
	}
	if inject {
		w.Ctx.Fired = true
		ev.Code, ev.Injected = 1, true
		w.Log.add(ev)
		return errInjectedWait
	}
	w.Log.add(ev)
	return nil
}

func (w *Waiter) Wait(rl kube.ResourceList, _ time.Duration) error { return w.hit("Wait", rl) }
func (w *Waiter) WaitWithJobs(rl kube.ResourceList, _ time.Duration) error {
	return w.hit("WaitWithJobs", rl)
}
func (w *Waiter) WaitForDelete(rl kube.ResourceList, _ time.Duration) error {
	return w.hit("WaitForDelete", rl)
}
func (w *Waiter) WatchUntilReady(rl kube.ResourceList, _ time.Duration) error {
	return w.hit("WatchUntilReady", rl)
}

// Backend is one of the three real storage backends plus what is needed to clone it.
type Backend struct {
	Kind   string // memory | secret | configmap
	Driver driver.Driver
	cs     *k8sfake.Clientset
}

// A real API server lists objects in key order, i.e. by name: "...v10" before "...v2". The fake clientset lists in map
// order; these wrappers restore the order the drivers meet in production.
type sortedSecrets struct{ corev1client.SecretInterface }

func (s sortedSecrets) List(ctx context.Context, o metav1.ListOptions) (*corev1.SecretList, error) {
	l, err := s.SecretInterface.List(ctx, o)
	if l != nil {
		sort.Slice(l.Items, func(i, j int) bool { return l.Items[i].Name < l.Items[j].Name })
	}
	return l, err
}

type sortedConfigMaps struct {
	corev1client.ConfigMapInterface
}

func (s sortedConfigMaps) List(ctx context.Context, o metav1.ListOptions) (*corev1.ConfigMapList, error) {
	l, err := s.ConfigMapInterface.List(ctx, o)
	if l != nil {
		sort.Slice(l.Items, func(i, j int) bool { return l.Items[i].Name < l.Items[j].Name })
	}
	return l, err
}

// NewBackend creates an empty backend.
func NewBackend(kind string) *Backend {
	b := &Backend{Kind: kind}
	switch kind {
	case "memory", "memory-live":
		// "memory-live" is Helm's memory driver as it is: it keeps the caller's live objects (charts keep their
		// subcharts, which no serialising backend records); "memory" persists copies like every real backend
		b.Driver = driver.NewMemory()
	case "secret":
		b.cs = k8sfake.NewSimpleClientset()
		b.Driver = driver.NewSecrets(sortedSecrets{b.cs.CoreV1().Secrets("default")})
	case "configmap":
		b.cs = k8sfake.NewSimpleClientset()
		b.Driver = driver.NewConfigMaps(sortedConfigMaps{b.cs.CoreV1().ConfigMaps("default")})
	default:
		panic("unknown backend " + kind)
	}
	return b
}

// All returns every stored release (any name), sorted by name and revision.
func (b *Backend) All() []*release.Release {
	rs, _ := b.Driver.List(func(*release.Release) bool { return true })
	sort.Slice(rs, func(i, j int) bool {
		if rs[i].Name != rs[j].Name {
			return rs[i].Name < rs[j].Name
		}
		return rs[i].Version < rs[j].Version
	})
	return rs
}

// Clone copies the persisted state into a fresh backend of the same kind.
func (b *Backend) Clone() *Backend {
	n := NewBackend(b.Kind)
	ctx := context.Background()
	switch b.Kind {
	case "memory", "memory-live":
		for _, r := range b.All() {
			c := CloneRelease(r)
			_ = n.Driver.Create(fmt.Sprintf("%s.%s.v%d", storage.HelmStorageType, c.Name, c.Version), c)
		}
	case "secret":
		l, _ := b.cs.CoreV1().Secrets("default").List(ctx, metav1.ListOptions{})
		for i := range l.Items {
			o := l.Items[i].DeepCopy()
			o.ResourceVersion = ""
			_, _ = n.cs.CoreV1().Secrets("default").Create(ctx, o, metav1.CreateOptions{})
		}
	case "configmap":
		l, _ := b.cs.CoreV1().ConfigMaps("default").List(ctx, metav1.ListOptions{})
		for i := range l.Items {
			o := l.Items[i].DeepCopy()
			o.ResourceVersion = ""
			_, _ = n.cs.CoreV1().ConfigMaps("default").Create(ctx, o, metav1.CreateOptions{})
		}
	}
	return n
}

// Snapshot returns key -> canonical JSON (+labels) of everything persisted.
func (b *Backend) Snapshot() map[string]string {
	out := map[string]string{}
	for _, r := range b.All() {
		j, _ := json.Marshal(r)
		lb, _ := json.Marshal(userLabels(r.Labels))
		out[fmt.Sprintf("%s.v%d", r.Name, r.Version)] = string(j) + string(lb)
	}
	return out
}

func userLabels(l map[string]string) map[string]string {
	out := map[string]string{}
	for k, v := range l {
		switch k {
		case "name", "owner", "status", "version", "createdAt", "modifiedAt":
		default:
			out[k] = v
		}
	}
	return out
}

// CloneRelease deep-copies a release through its record encoding (what a backend would persist).
func CloneRelease(r *release.Release) *release.Release {
	b, err := json.Marshal(r)
	if err != nil {
		panic(err)
	}
	var c release.Release
	if err := json.Unmarshal(b, &c); err != nil {
		panic(err)
	}
	if r.Labels != nil {
		c.Labels = map[string]string{}
		for k, v := range r.Labels {
			c.Labels[k] = v
		}
	}
	return &c
}

// SnapshotDriver makes the memory backend persist copies instead of the caller's live pointers, so that
// "what was persisted" is not aliased with objects an action keeps mutating (as with any real backend).
type SnapshotDriver struct{ driver.Driver }

func (s SnapshotDriver) Create(k string, r *release.Release) error {
	return s.Driver.Create(k, CloneRelease(r))
}
func (s SnapshotDriver) Update(k string, r *release.Release) error {
	return s.Driver.Update(k, CloneRelease(r))
}
func (s SnapshotDriver) Get(k string) (*release.Release, error) {
	r, err := s.Driver.Get(k)
	if err != nil {
		return nil, err
	}
	return CloneRelease(r), nil
}
func (s SnapshotDriver) Query(l map[string]string) ([]*release.Release, error) {
	rs, err := s.Driver.Query(l)
	if err != nil {
		return nil, err
	}
	out := make([]*release.Release, len(rs))
	for i, r := range rs {
		out[i] = CloneRelease(r)
	}
	return out, nil
}
func (s SnapshotDriver) List(f func(*release.Release) bool) ([]*release.Release, error) {
	rs, err := s.Driver.List(f)
	if err != nil {
		return nil, err
	}
	out := make([]*release.Release, len(rs))
	for i, r := range rs {
		out[i] = CloneRelease(r)
	}
	return out, nil
}
func (s SnapshotDriver) Delete(k string) (*release.Release, error) { return s.Driver.Delete(k) }
