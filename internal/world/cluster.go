// Package world provides the simulated environment the action-level properties run in:
// an in-memory API-server simulator behind the real kube.Client, the real storage drivers behind a
// recording / fault-injecting wrapper, a scripted waiter, and a runner for install / upgrade / rollback / uninstall.
package world

import (
	"bytes"
	"crypto/sha1"
	"encoding/hex"
	"encoding/json"
	"errors"
	"fmt"
	"io"
	"net/http"
	"sort"
	"strings"
	"sync"

	jsonpatch "github.com/evanphx/json-patch"
	"k8s.io/apimachinery/pkg/runtime/schema"
	"k8s.io/apimachinery/pkg/util/strategicpatch"
	"k8s.io/client-go/kubernetes/scheme"
)

// Event is one external call (cluster request, waiter call, storage call) in the global order.
type Event struct {
	Seq      int    `json:"seq"`
	Op       int    `json:"op"`
	Layer    string `json:"layer"` // kube | wait | store
	Verb     string `json:"verb"`
	Key      string `json:"key"`
	Code     int    `json:"code"` // HTTP status for kube; 0 ok / 1 error for wait and store
	Injected bool   `json:"injected,omitempty"`
	Note     string `json:"note,omitempty"`
	DryRun   bool   `json:"dryRun,omitempty"`
	// Arrive/Done are sequence numbers taken when the call arrived and when it completed (used by the barrier check).
	Arrive int `json:"arrive,omitempty"`
	Done   int `json:"done,omitempty"`
}

func (e Event) String() string {
	inj := ""
	if e.Injected {
		inj = "!"
	}
	return fmt.Sprintf("#%d op%d %s %s %s -> %d%s %s", e.Seq, e.Op, e.Layer, e.Verb, e.Key, e.Code, inj, e.Note)
}

// Mutating reports whether the event is a cluster write.
func (e Event) Mutating() bool {
	return e.Layer == "kube" && (e.Verb == "POST" || e.Verb == "PUT" || e.Verb == "PATCH" || e.Verb == "DELETE")
}

// StoreWrite reports whether the event is a storage write.
func (e Event) StoreWrite() bool {
	return e.Layer == "store" && (e.Verb == "Create" || e.Verb == "Update" || e.Verb == "Delete")
}

// Log is the ordered record of external calls.
type Log struct {
	mu     sync.Mutex
	events []Event
	seq    int
}

func (l *Log) tick() int {
	l.mu.Lock()
	defer l.mu.Unlock()
	l.seq++
	return l.seq
}

func (l *Log) add(e Event) {
	l.mu.Lock()
	defer l.mu.Unlock()
	l.seq++
	e.Seq = l.seq
	if e.Done == 0 {
		e.Done = l.seq
	}
	l.events = append(l.events, e)
}

// Events returns a copy of all events.
func (l *Log) Events() []Event {
	l.mu.Lock()
	defer l.mu.Unlock()
	return append([]Event(nil), l.events...)
}

// Len returns the number of events.
func (l *Log) Len() int {
	l.mu.Lock()
	defer l.mu.Unlock()
	return len(l.events)
}

// Fault describes the single fault injected into one operation.
type Fault struct {
	Kind string `json:"kind,omitempty"` // "" | kube | kubematch | wait | waitmatch | store | crash
	K    int    `json:"k,omitempty"`    // index of the call within its layer (crash: among storage+cluster calls)
	Code int    `json:"code,omitempty"` // HTTP status for kube faults (default 500)
	Verb string `json:"verb,omitempty"` // kubematch / waitmatch
	Path string `json:"path,omitempty"` // kubematch: object path; waitmatch: resource name
	// StoreReads: a store fault may also hit Get/Query/List (default: writes only)
	StoreReads bool `json:"storeReads,omitempty"`
}

func (f Fault) String() string {
	if f.Kind == "" {
		return "none"
	}
	s := fmt.Sprintf("%s@%d", f.Kind, f.K)
	if f.Kind == "kubematch" || f.Kind == "waitmatch" {
		s = fmt.Sprintf("%s(%s %s)", f.Kind, f.Verb, f.Path)
	}
	if f.Code != 0 {
		s += fmt.Sprintf("/%d", f.Code)
	}
	return s
}

// OpCtx is the per-operation state shared by the transport, the waiter and the storage wrapper.
type OpCtx struct {
	mu    sync.Mutex
	ID    int
	Fault Fault
	Fired bool
	// Also is a second cluster-side fault of the "kubematch" kind (one request, named by verb and path, rejected once, and
	// only after the first fault has fired): for the properties that speak about a failure DURING the handling of a failure.
	Also      Fault
	AlsoFired bool
	Crashed   bool
	KubeN     int
	WaitN     int
	StoreN    int // counted store calls (writes, plus reads when Fault.StoreReads)
	ExtN      int // storage + cluster calls
	// Gate, when set, is called before every storage and cluster call and may block (schedulers, barriers).
	Gate func(layer, verb, key string)
	// Freeze makes every call fail without effect (a dead process).
	Freeze bool
}

var errCrashed = errors.New("injected: process is dead")
var errInjectedStore = errors.New("injected storage fault")
var errInjectedWait = errors.New("injected wait failure")

// ext registers one external (storage or cluster) call and reports whether the process is dead.
func (c *OpCtx) ext() bool {
	if c.Freeze || c.Crashed {
		c.Crashed = true
		return true
	}
	k := c.ExtN
	c.ExtN++
	if c.Fault.Kind == "crash" && k >= c.Fault.K {
		c.Crashed = true
		c.Fired = true
		return true
	}
	return false
}

// Cluster is the object store of the simulated API server.
type Cluster struct {
	mu   sync.Mutex
	Objs map[string]map[string]interface{} // object path -> object
	Log  *Log
}

// NewCluster returns an empty cluster.
func NewCluster(l *Log) *Cluster {
	return &Cluster{Objs: map[string]map[string]interface{}{}, Log: l}
}

func deepCopyJSON(v map[string]interface{}) map[string]interface{} {
	b, _ := json.Marshal(v)
	var o map[string]interface{}
	_ = json.Unmarshal(b, &o)
	return o
}

// Clone deep-copies the object store (with a fresh log).
func (c *Cluster) Clone(l *Log) *Cluster {
	c.mu.Lock()
	defer c.mu.Unlock()
	n := NewCluster(l)
	for k, v := range c.Objs {
		n.Objs[k] = deepCopyJSON(v)
	}
	return n
}

// Snapshot returns path -> canonical JSON of every object.
func (c *Cluster) Snapshot() map[string]string {
	c.mu.Lock()
	defer c.mu.Unlock()
	out := map[string]string{}
	for k, v := range c.Objs {
		b, _ := json.Marshal(v)
		out[k] = string(b)
	}
	return out
}

// canon maps the path of an object under any served API version to the one it is stored under (a real API server
// serves one stored object under every version of its group: autoscaling/v2 and autoscaling/v1 here).
func canon(path string) string {
	return strings.Replace(path, "/apis/autoscaling/v2/", "/apis/autoscaling/v1/", 1)
}

// servedAs returns o labelled with the API version the request path names.
func servedAs(path string, o interface{}) interface{} {
	m, ok := o.(map[string]interface{})
	if !ok || m["kind"] == "Status" {
		return o
	}
	for _, v := range []string{"autoscaling/v1", "autoscaling/v2"} {
		if strings.Contains(path, "/apis/"+v+"/") {
			c := deepCopyJSON(m)
			c["apiVersion"] = v
			return c
		}
	}
	return o
}

// Get returns a deep copy of the object at path, or nil.
func (c *Cluster) Get(path string) map[string]interface{} {
	asked := path
	path = canon(path)
	c.mu.Lock()
	defer c.mu.Unlock()
	if o, ok := c.Objs[path]; ok {
		// as the API server would serve it under the version the path names
		return servedAs(asked, deepCopyJSON(o)).(map[string]interface{})
	}
	return nil
}

// Put stores an object out of band (not logged).
func (c *Cluster) Put(path string, o map[string]interface{}) {
	path = canon(path)
	c.mu.Lock()
	defer c.mu.Unlock()
	c.Objs[path] = deepCopyJSON(o)
}

// Remove deletes an object out of band (not logged).
func (c *Cluster) Remove(path string) {
	path = canon(path)
	c.mu.Lock()
	defer c.mu.Unlock()
	delete(c.Objs, path)
}

// Paths returns the sorted object paths.
func (c *Cluster) Paths() []string {
	c.mu.Lock()
	defer c.mu.Unlock()
	var ps []string
	for k := range c.Objs {
		ps = append(ps, k)
	}
	sort.Strings(ps)
	return ps
}

// Transport is the per-operation http.RoundTripper in front of the cluster.
type Transport struct {
	C   *Cluster
	Ctx *OpCtx
}

func jsonResp(req *http.Request, code int, v interface{}) *http.Response {
	b, _ := json.Marshal(v)
	h := http.Header{}
	h.Set("Content-Type", "application/json")
	return &http.Response{StatusCode: code, Status: fmt.Sprintf("%d %s", code, http.StatusText(code)), Header: h,
		Body: io.NopCloser(bytes.NewReader(b)), Request: req, Proto: "HTTP/1.1", ProtoMajor: 1, ProtoMinor: 1, ContentLength: int64(len(b))}
}

func statusObj(code int, reason, msg string) map[string]interface{} {
	return map[string]interface{}{"kind": "Status", "apiVersion": "v1", "status": "Failure", "reason": reason, "code": code, "message": msg}
}

var reasonFor = map[int]string{400: "BadRequest", 403: "Forbidden", 404: "NotFound", 405: "MethodNotAllowed", 409: "AlreadyExists", 415: "UnsupportedMediaType", 422: "Invalid", 500: "InternalError", 503: "ServiceUnavailable"}

// classify splits an API path into (collection path, object name, isObject).
func classify(p string) (coll, name string, isObj bool) {
	segs := strings.Split(strings.Trim(p, "/"), "/")
	var rest []string
	var prefix []string
	switch {
	case len(segs) >= 2 && segs[0] == "api":
		prefix, rest = segs[:2], segs[2:]
	case len(segs) >= 3 && segs[0] == "apis":
		prefix, rest = segs[:3], segs[3:]
	default:
		return p, "", false
	}
	_ = prefix
	if len(rest) >= 3 && rest[0] == "namespaces" {
		if len(rest) == 3 {
			return p, "", false
		}
		return "/" + strings.Join(segs[:len(segs)-(len(rest)-3)], "/"), rest[3], true
	}
	if len(rest) == 1 {
		return p, "", false
	}
	if len(rest) >= 2 {
		return "/" + strings.Join(segs[:len(segs)-(len(rest)-1)], "/"), rest[1], true
	}
	return p, "", false
}

// RoundTrip implements http.RoundTripper.
func (t *Transport) RoundTrip(req *http.Request) (*http.Response, error) {
	var body []byte
	if req.Body != nil {
		body, _ = io.ReadAll(req.Body)
		req.Body.Close()
	}
	p := req.URL.Path
	if p == "/version" {
		// reachability probe: not an effect on the cluster, but a dead process cannot make it either
		t.Ctx.mu.Lock()
		dead := t.Ctx.Freeze || t.Ctx.Crashed
		t.Ctx.mu.Unlock()
		if dead {
			return nil, errCrashed
		}
		// logged (a client-only operation must not even probe), but not counted as a fault position
		t.C.Log.add(Event{Op: t.Ctx.ID, Layer: "kube", Verb: "GET", Key: "/version", Code: 200, Note: "probe"})
		return jsonResp(req, 200, map[string]string{"major": "1", "minor": "32", "gitVersion": "v1.32.0"}), nil
	}
	coll, name, isObj := classify(p)
	key := p
	var posted map[string]interface{}
	if req.Method == "POST" && !isObj {
		if err := json.Unmarshal(body, &posted); err == nil {
			if md, ok := posted["metadata"].(map[string]interface{}); ok {
				if n, ok := md["name"].(string); ok {
					key = p + "/" + n
				}
			}
		}
	}
	_ = coll
	_ = name
	arrive := t.C.Log.tick() // arrival is stamped before any gate holds the request
	if g := t.Ctx.Gate; g != nil {
		g("kube", req.Method, key)
	}

	t.Ctx.mu.Lock()
	dead := t.Ctx.ext()
	k := t.Ctx.KubeN
	t.Ctx.KubeN++
	f := t.Ctx.Fault
	inject := false
	if !dead {
		switch f.Kind {
		case "kube":
			inject = k == f.K
		case "kubematch":
			inject = !t.Ctx.Fired && f.Verb == req.Method && f.Path == key
		}
		if inject {
			t.Ctx.Fired = true
		} else if a := t.Ctx.Also; a.Kind == "kubematch" && t.Ctx.Fired && !t.Ctx.AlsoFired && a.Verb == req.Method && a.Path == key {
			inject, f = true, a
			t.Ctx.AlsoFired = true
		}
	}
	t.Ctx.mu.Unlock()

	dry := req.URL.Query().Get("dryRun") != ""
	sum := sha1.Sum(body)
	ev := Event{Op: t.Ctx.ID, Layer: "kube", Verb: req.Method, Key: key, DryRun: dry, Arrive: arrive, Note: hex.EncodeToString(sum[:3])}
	if dead {
		ev.Code, ev.Injected, ev.Note = -1, true, "dead"
		t.C.Log.add(ev)
		return nil, errCrashed
	}
	if inject {
		code := f.Code
		if code == 0 {
			code = 500
		}
		ev.Code, ev.Injected = code, true
		t.C.Log.add(ev)
		return jsonResp(req, code, statusObj(code, reasonFor[code], "injected fault on "+req.Method+" "+key)), nil
	}
	code, out := t.C.handle(req.Method, canon(p), canon(key), isObj, body, req.Header.Get("Content-Type"), dry)
	out = servedAs(p, out)
	ev.Code = code
	t.C.Log.add(ev)
	return jsonResp(req, code, out), nil
}

func (c *Cluster) handle(method, p, key string, isObj bool, body []byte, ctype string, dry bool) (int, interface{}) {
	c.mu.Lock()
	defer c.mu.Unlock()
	fail := func(code int) (int, interface{}) {
		return code, statusObj(code, reasonFor[code], reasonFor[code]+" "+method+" "+key)
	}
	switch method {
	case "GET":
		if !isObj {
			items := []interface{}{}
			var keys []string
			for k := range c.Objs {
				if strings.HasPrefix(k, p+"/") && !strings.Contains(strings.TrimPrefix(k, p+"/"), "/") {
					keys = append(keys, k)
				}
			}
			sort.Strings(keys)
			for _, k := range keys {
				items = append(items, c.Objs[k])
			}
			return 200, map[string]interface{}{"kind": "List", "apiVersion": "v1", "metadata": map[string]interface{}{}, "items": items}
		}
		if o, ok := c.Objs[p]; ok {
			return 200, o
		}
		return fail(404)
	case "POST":
		if isObj {
			return fail(405)
		}
		var o map[string]interface{}
		if err := json.Unmarshal(body, &o); err != nil || key == p {
			return fail(400)
		}
		if _, ok := c.Objs[key]; ok {
			return fail(409)
		}
		if !dry {
			c.Objs[key] = o
		}
		return 201, o
	case "PUT":
		var o map[string]interface{}
		if err := json.Unmarshal(body, &o); err != nil {
			return fail(400)
		}
		if _, ok := c.Objs[p]; !ok {
			return fail(404)
		}
		if !dry {
			c.Objs[p] = o
		}
		return 200, o
	case "PATCH":
		o, ok := c.Objs[p]
		if !ok {
			return fail(404)
		}
		cur, _ := json.Marshal(o)
		var out []byte
		var err error
		switch ctype {
		case "application/strategic-merge-patch+json":
			av, _ := o["apiVersion"].(string)
			kd, _ := o["kind"].(string)
			typed, err2 := scheme.Scheme.New(schema.FromAPIVersionAndKind(av, kd))
			if err2 != nil {
				return fail(415)
			}
			out, err = strategicpatch.StrategicMergePatch(cur, body, typed)
		case "application/merge-patch+json":
			out, err = jsonpatch.MergePatch(cur, body)
		default:
			return fail(415)
		}
		if err != nil {
			return fail(422)
		}
		var no map[string]interface{}
		if err := json.Unmarshal(out, &no); err != nil {
			return fail(422)
		}
		if !dry {
			c.Objs[p] = no
		}
		return 200, no
	case "DELETE":
		o, ok := c.Objs[p]
		if !ok {
			return fail(404)
		}
		if !dry {
			delete(c.Objs, p)
		}
		return 200, o
	}
	return fail(405)
}
