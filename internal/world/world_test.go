package world

import (
	"testing"
)

func TestSmoke(t *testing.T) {
	Quiet()
	for _, bk := range []string{"memory", "secret", "configmap"} {
		w := New(bk)
		cs := ChartSpec{Version: 1, Resources: []Res{{Kind: "ConfigMap", Name: "a", Variant: 1}, {Kind: "Deployment", Name: "web", Variant: 1}, {Kind: "Service", Name: "s", Variant: 1}, {Kind: "Secret", Name: "x", Variant: 1, Policy: "keep"}},
			Hooks: []HookSpec{{Name: "h", Kind: "Pod", Events: []string{"pre-install", "post-upgrade"}}}}
		r := w.Run(&Op{Kind: "install", Chart: cs})
		if r.Err != nil {
			t.Fatal(r.Err)
		}
		for _, e := range r.Events {
			t.Log(e)
		}
		cs.Version = 2
		cs.Resources[0].Variant = 2
		cs.Resources = cs.Resources[:3]
		r = w.Run(&Op{Kind: "upgrade", Chart: cs})
		if r.Err != nil {
			t.Fatal(r.Err)
		}
		t.Log(HistString(r.Post), w.Cluster.Paths())
		k, wn, s, e := w.Count(&Op{Kind: "upgrade", Chart: cs})
		t.Log(k, wn, s, e)
		r = w.Run(&Op{Kind: "rollback"})
		t.Log(r.Err, HistString(r.Post), w.Cluster.Paths())
		r = w.Run(&Op{Kind: "uninstall"})
		t.Log(r.Err, HistString(r.Post), w.Cluster.Paths())
	}
}
