package world

import (
	"fmt"
	"sort"
	"strings"

	"sigs.k8s.io/yaml"

	chart "helm.sh/helm/v4/pkg/chart/v2"
)

// Res is the generator's own structured description of one manifest resource (the oracle never asks Helm's parser).
type Res struct {
	Kind    string `json:"kind"`
	Name    string `json:"name"`
	Variant int    `json:"variant"`
	Policy  string `json:"policy,omitempty"` // value of helm.sh/resource-policy ("" = annotation absent)
	// APIVer overrides the kind's apiVersion (HorizontalPodAutoscaler: "autoscaling/v2" next to the default
	// "autoscaling/v1"): the same object addressed through another served version.
	APIVer string `json:"apiVer,omitempty"`
	// NS is an explicit metadata.namespace in the template ("" = none: the release namespace "default" applies).
	NS string `json:"ns,omitempty"`
	// ManagedBy: the template sets the label app.kubernetes.io/managed-by itself, to this value ("" = it does not).
	ManagedBy string `json:"managedBy,omitempty"`
}

// Namespace the object lives in.
func (r Res) Namespace() string {
	if r.NS != "" {
		return r.NS
	}
	return "default"
}

type kindInfo struct {
	APIVersion string
	Plural     string
	Prefix     string
	Rank       int // position in Helm's documented install order (lower first)
}

// Kinds used by the world. Rank follows the documented InstallOrder.
var Kinds = map[string]kindInfo{
	"Secret":         {"v1", "secrets", "/api/v1", 10},
	"ConfigMap":      {"v1", "configmaps", "/api/v1", 12},
	"ServiceAccount": {"v1", "serviceaccounts", "/api/v1", 8},
	"Service":        {"v1", "services", "/api/v1", 24},
	"Pod":            {"v1", "pods", "/api/v1", 26},
	"Deployment":     {"apps/v1", "deployments", "/apis/apps/v1", 29},
	"Job":            {"batch/v1", "jobs", "/apis/batch/v1", 32},
	// served under two versions (autoscaling/v1 and autoscaling/v2): see Res.APIVer and Cluster.canon
	"HorizontalPodAutoscaler": {"autoscaling/v1", "horizontalpodautoscalers", "/apis/autoscaling/v1", 30},
}

// Path returns the object path of (kind, name) in namespace ns.
func Path(kind, name, ns string) string {
	ki := Kinds[kind]
	return fmt.Sprintf("%s/namespaces/%s/%s/%s", ki.Prefix, ns, ki.Plural, name)
}

// Path of the resource (in the release namespace unless the template names another one; under the API version the
// template names).
func (r Res) Path() string {
	p := Path(r.Kind, r.Name, r.Namespace())
	if r.APIVer != "" {
		p = strings.Replace(p, Kinds[r.Kind].Prefix+"/", "/apis/"+r.APIVer+"/", 1)
	}
	return p
}

// Key is kind/name (kind/name@namespace when the template names a namespace).
func (r Res) Key() string {
	if r.NS != "" {
		return r.Kind + "/" + r.Name + "@" + r.NS
	}
	return r.Kind + "/" + r.Name
}

// Object is the desired object exactly as the template states it.
func (r Res) Object() map[string]interface{} {
	ki := Kinds[r.Kind]
	md := map[string]interface{}{"name": r.Name}
	if r.NS != "" {
		md["namespace"] = r.NS
	}
	if r.Policy != "" {
		md["annotations"] = map[string]interface{}{"helm.sh/resource-policy": r.Policy}
	}
	if r.ManagedBy != "" {
		md["labels"] = map[string]interface{}{"app.kubernetes.io/managed-by": r.ManagedBy}
	}
	o := map[string]interface{}{"apiVersion": ki.APIVersion, "kind": r.Kind, "metadata": md}
	if r.APIVer != "" {
		o["apiVersion"] = r.APIVer
	}
	v := fmt.Sprint(r.Variant)
	switch r.Kind {
	case "ConfigMap":
		o["data"] = map[string]interface{}{"v": v, "k" + v: "x"}
	case "Secret":
		o["type"] = "Opaque"
		o["stringData"] = map[string]interface{}{"v": v}
	case "ServiceAccount":
		lb, _ := md["labels"].(map[string]interface{})
		if lb == nil {
			lb = map[string]interface{}{}
		}
		lb["variant"] = "v" + v
		md["labels"] = lb
	case "Service":
		o["spec"] = map[string]interface{}{
			"selector": map[string]interface{}{"app": r.Name},
			"ports":    []interface{}{map[string]interface{}{"name": "http", "port": int64(80), "targetPort": int64(8000 + r.Variant), "protocol": "TCP"}},
		}
	case "HorizontalPodAutoscaler":
		// only fields that exist in both served versions
		o["spec"] = map[string]interface{}{
			"scaleTargetRef": map[string]interface{}{"apiVersion": "apps/v1", "kind": "Deployment", "name": r.Name},
			"minReplicas":    int64(1),
			"maxReplicas":    int64(2 + r.Variant),
		}
	case "Deployment":
		o["spec"] = map[string]interface{}{
			"replicas": int64(1 + r.Variant%3),
			"selector": map[string]interface{}{"matchLabels": map[string]interface{}{"app": r.Name}},
			"template": map[string]interface{}{
				"metadata": map[string]interface{}{"labels": map[string]interface{}{"app": r.Name}},
				"spec": map[string]interface{}{"containers": []interface{}{
					map[string]interface{}{"name": "c", "image": "img:" + v},
				}},
			},
		}
	case "Pod":
		o["spec"] = map[string]interface{}{"containers": []interface{}{map[string]interface{}{"name": "c", "image": "img:" + v}}}
	case "Job":
		o["spec"] = map[string]interface{}{"template": map[string]interface{}{"spec": map[string]interface{}{
			"restartPolicy": "Never",
			"containers":    []interface{}{map[string]interface{}{"name": "c", "image": "img:" + v}}}}}
	}
	return o
}

// HookSpec describes one hook resource.
type HookSpec struct {
	Name      string   `json:"name"`
	Kind      string   `json:"kind"`
	Events    []string `json:"events"`
	Weight    int      `json:"weight"`
	HasWeight bool     `json:"hasWeight,omitempty"`
	Policies  []string `json:"policies,omitempty"` // delete policies; empty = annotation absent (default before-hook-creation)
	Variant   int      `json:"variant,omitempty"`
	// Spaced: the delete-policy list is written with blanks around the commas
	// (" before-hook-creation, hook-succeeded "), which Helm's annotation parsing accepts
	Spaced bool `json:"spaced,omitempty"`
}

// Path of the hook object.
func (h HookSpec) Path() string { return Path(h.Kind, h.Name, "default") }

// Object is the hook object as the template states it.
func (h HookSpec) Object() map[string]interface{} {
	o := Res{Kind: h.Kind, Name: h.Name, Variant: h.Variant}.Object()
	md := o["metadata"].(map[string]interface{})
	an := map[string]interface{}{"helm.sh/hook": strings.Join(h.Events, ",")}
	if h.HasWeight {
		an["helm.sh/hook-weight"] = fmt.Sprint(h.Weight)
	}
	if len(h.Policies) > 0 {
		an["helm.sh/hook-delete-policy"] = strings.Join(h.Policies, ",")
		if h.Spaced {
			an["helm.sh/hook-delete-policy"] = " " + strings.Join(h.Policies, ", ") + " "
		}
	}
	md["annotations"] = an
	return o
}

// ChartSpec is the structured description of a generated chart.
type ChartSpec struct {
	Version   int        `json:"version"`
	Resources []Res      `json:"resources"`
	Hooks     []HookSpec `json:"hooks,omitempty"`
	Notes     bool       `json:"notes,omitempty"`
	CRD       bool       `json:"crd,omitempty"`
	// ValuesProbe adds a ConfigMap "probe" whose data.values is the JSON of .Values (C13).
	ValuesProbe bool                   `json:"valuesProbe,omitempty"`
	Defaults    map[string]interface{} `json:"defaults,omitempty"`
	// SubDefaults, when not nil, adds a dependency chart "sub" (same version) whose values.yaml holds these defaults (C13).
	SubDefaults map[string]interface{} `json:"subDefaults,omitempty"`
	// SubUndeclared: the subchart only lies in charts/ and is not listed under dependencies in Chart.yaml (allowed).
	SubUndeclared bool   `json:"subUndeclared,omitempty"`
	Schema        string `json:"schema,omitempty"`
}

// ResByKey returns the resources indexed by kind/name.
func (c ChartSpec) ResByKey() map[string]Res {
	m := map[string]Res{}
	for _, r := range c.Resources {
		m[r.Key()] = r
	}
	return m
}

func mustYAML(v interface{}) []byte {
	b, err := yaml.Marshal(v)
	if err != nil {
		panic(err)
	}
	return b
}

// Build constructs a fresh chart object (each operation gets its own, as each CLI invocation would).
func (c ChartSpec) Build() *chart.Chart {
	ch := &chart.Chart{
		Metadata: &chart.Metadata{APIVersion: "v2", Name: "demo", Version: fmt.Sprintf("1.0.%d", c.Version)},
		Values:   map[string]interface{}{},
	}
	if c.Defaults != nil {
		ch.Values = deepCopyJSON(c.Defaults)
	}
	rs := append([]Res(nil), c.Resources...)
	sort.SliceStable(rs, func(i, j int) bool { return rs[i].Key() < rs[j].Key() })
	for _, r := range rs {
		ch.Templates = append(ch.Templates, &chart.File{Name: "templates/" + strings.ToLower(r.Kind) + "-" + r.Name + ".yaml", Data: mustYAML(r.Object())})
	}
	for i, h := range c.Hooks {
		ch.Templates = append(ch.Templates, &chart.File{Name: fmt.Sprintf("templates/hook-%d-%s.yaml", i, h.Name), Data: mustYAML(h.Object())})
	}
	if c.ValuesProbe {
		ch.Templates = append(ch.Templates, &chart.File{Name: "templates/probe.yaml", Data: []byte("apiVersion: v1\nkind: ConfigMap\nmetadata:\n  name: probe\ndata:\n  values: {{ toJson .Values | quote }}\n")})
	}
	if c.Notes {
		ch.Templates = append(ch.Templates, &chart.File{Name: "templates/NOTES.txt", Data: []byte("notes for {{ .Release.Name }} rev {{ .Release.Revision }}\n")})
	}
	if c.CRD {
		ch.Files = append(ch.Files, &chart.File{Name: "crds/crd.yaml", Data: []byte(crdYAML)})
	}
	if c.Schema != "" {
		ch.Schema = []byte(c.Schema)
	}
	if c.SubDefaults != nil {
		sub := &chart.Chart{
			Metadata:  &chart.Metadata{APIVersion: "v2", Name: "sub", Version: fmt.Sprintf("1.0.%d", c.Version)},
			Values:    deepCopyJSON(c.SubDefaults),
			Templates: []*chart.File{{Name: "templates/probe.yaml", Data: []byte("apiVersion: v1\nkind: ConfigMap\nmetadata:\n  name: probe-sub\ndata:\n  values: {{ toJson .Values | quote }}\n")}},
		}
		if !c.SubUndeclared {
			ch.Metadata.Dependencies = append(ch.Metadata.Dependencies, &chart.Dependency{Name: "sub", Version: sub.Metadata.Version})
		}
		ch.AddDependency(sub)
	}
	return ch
}

const crdYAML = `apiVersion: apiextensions.k8s.io/v1
kind: CustomResourceDefinition
metadata:
  name: widgets.example.com
spec:
  group: example.com
  names:
    kind: Widget
    plural: widgets
  scope: Namespaced
  versions:
  - name: v1
    served: true
    storage: true
    schema:
      openAPIV3Schema:
        type: object
`
