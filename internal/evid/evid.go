// Package evid collects, inside one test process, what a check actually covered:
// number of generated cases, the set of distinct non-trivial case fingerprints, a label histogram,
// samples of real cases, and the known-finding signatures that were hit and excluded.
// The driver (/verif/check) merges the per-shard files into evidence/<id>.json.
package evid

import (
	"encoding/json"
	"hash/fnv"
	"os"
	"sort"
	"sync"
)

type stats struct {
	Evaluations int            `json:"evaluations"`
	Nontrivial  []uint64       `json:"nontrivial_fp"`
	Labels      map[string]int `json:"labels"`
	Samples     []interface{}  `json:"samples"`
	Excluded    map[string]int `json:"excluded"`
	Notes       map[string]int `json:"notes"`
	Extra       map[string]any `json:"extra,omitempty"`
}

var (
	mu       sync.Mutex
	evals    int
	nontriv  = map[uint64]struct{}{}
	labels   = map[string]int{}
	samples  []interface{}
	excluded = map[string]int{}
	notes    = map[string]int{}
	extra    = map[string]any{}
)

const maxSamples = 5

// FP hashes a canonical case description.
func FP(s string) uint64 {
	h := fnv.New64a()
	h.Write([]byte(s))
	return h.Sum64()
}

// Case records one generated case. fingerprint is the canonical description of the case
// (distinctness is counted over it); sample is written out for up to maxSamples non-trivial cases.
func Case(lbls []string, fingerprint string, nontrivial bool, sample interface{}) {
	mu.Lock()
	defer mu.Unlock()
	evals++
	for _, l := range lbls {
		labels[l]++
	}
	if nontrivial {
		fp := FP(fingerprint)
		if _, seen := nontriv[fp]; !seen {
			nontriv[fp] = struct{}{}
			if len(samples) < maxSamples && sample != nil {
				samples = append(samples, sample)
			}
		}
	}
}

// Label bumps a histogram entry without counting a case.
func Label(l string) {
	mu.Lock()
	labels[l]++
	mu.Unlock()
}

// Excluded counts a case that hit a listed known finding (the case is cut there and not judged further).
func Excluded(sig string) {
	mu.Lock()
	excluded[sig]++
	mu.Unlock()
}

// Note counts an observation that is recorded but not judged.
func Note(s string) {
	mu.Lock()
	notes[s]++
	mu.Unlock()
}

// Extra stores a free-form value in the shard file (last write wins).
func Extra(k string, v any) {
	mu.Lock()
	extra[k] = v
	mu.Unlock()
}

// AddExtraInt adds to an integer extra.
func AddExtraInt(k string, n int) {
	mu.Lock()
	cur, _ := extra[k].(int)
	extra[k] = cur + n
	mu.Unlock()
}

// Flush writes the shard statistics to $VERIF_STATS (no-op when unset).
func Flush() {
	path := os.Getenv("VERIF_STATS")
	if path == "" {
		return
	}
	mu.Lock()
	defer mu.Unlock()
	st := stats{Evaluations: evals, Labels: labels, Samples: samples, Excluded: excluded, Notes: notes, Extra: extra}
	for fp := range nontriv {
		st.Nontrivial = append(st.Nontrivial, fp)
	}
	sort.Slice(st.Nontrivial, func(i, j int) bool { return st.Nontrivial[i] < st.Nontrivial[j] })
	b, err := json.Marshal(st)
	if err != nil {
		// samples must always be JSON-encodable; fall back to dropping them
		st.Samples = []interface{}{"<unencodable sample>"}
		b, _ = json.Marshal(st)
	}
	_ = os.WriteFile(path, b, 0o644)
}
